"""C07 - compressed output is a pure function of input, parameters, dictionary and calls  (PARTIAL).

proof      : coq/Props/Properties_C07.v  (models in coq/Det/*.v), 21 theorems:
             reset_makes_history_unreachable, reset_mode_restarts_indices, frame_after_reset_history_independent,
             frame_after_reset_two_histories, cwksp_invariant_all_sequences, cwksp_tables_clean,
             cwksp_tables_zero_after_index_reset, cwksp_reset_watermark_formula, hash_salt_relabels_rows, hash_salt_harmless,
             opt_stats_reseeded, mt_partition_schedule_independent, mt_flush_in_order, mt_output_schedule_independent,
             stream_partition_is_spec, stream_partition_capacity_independent, stream_continue_{pieces,flush,end}_merge,
             block_state_reset_forgets, ldm_reset_forgets (+ machine-checked witnesses of the two findings:
             StreamPartitionProofs.shortcut_depends_on_capacity, MtProofs.mt_last_flag_schedule_dependent)
tie (1)    : harness/c07_det.c : PAIRED EXECUTIONS of the real library, byte compare (size + XXH64 of every frame):
             fresh context vs context after a history (other frames / parameters / dictionaries, aborted frames +
             every reset kind, 130-frame bursts, buffers of another frame written over the area of the tables), heap
             (garbage filled) vs zeroed heap vs static memory, src/dst at offsets 0..63 of a page and contiguous to the
             previous input, other output capacities / input buffer reuse / other cuts of the ZSTD_e_continue input in
             streaming, parameters set one by one vs through ZSTD_CCtx_params, dictionary content by copy vs by reference,
             nbWorkers in {1,2,4} x lock jitter x refused job posts.  Every frame is decoded by libzstd, a sample by the
             Coq reference decoder R.
tie (2)    : lock-step of the extracted reset / cwksp / salt / block-state / LDM-reset / streaming-partition /
             MT-partition models (ml/c07_driver.ml) against the real structs (read through #include of zstd_compress.c /
             zstdmt_compress.c) after API calls, and two direct memory observers on the real tables (invariant I and the
             conclusion of the reset theorem).
tie (3)    : harness/c07_opt.c : the real ZSTD_rescaleFreqs on garbage prior statistics vs the model.
Everything below the proof is differential testing: it validates the model and the unmodelled finders
(the "never use an index < lowLimit" contract is covered ONLY by tie (1)); it never replaces a theorem.
"""
import json
import os
import random
import subprocess
import time
from concurrent.futures import ThreadPoolExecutor

from .. import core, codec

P = codec.P
KEY_SHORTCUT = "cstream-end-shortcut-outcap"
# round 2
KEY_GENSEQ = "generateSequences-collector-survives"
KEY_LOCALDICT = "localdict-cdict-stale-params"
KEY_CONTIG = "dict-contiguous-with-src"
KEY_RAWFB = "block-raw-fallback-outcap"
KEY_CDREF = "cdict-byref-contiguous-ignores-deterministic-switch"
KEY_COPYPARAMS = "copyCCtx-uses-destination-params"
R2_WHAT = {
    "mt-jobtable-full-pending-section-gets-new-params":
        "ZSTDMT: a complete section left pending behind a full jobs table gets the parameters of a mid-frame ZSTD_CCtx_setParameter "
        "that came after it was accepted: the bytes depend on the output capacities and on the worker count",
    KEY_GENSEQ: "ZSTD_generateSequences leaves cctx->seqCollector armed: every later frame of the context is stored as raw blocks "
                "(and its sequences are written into the previous caller's array)",
    KEY_LOCALDICT: "the CDict built lazily for ZSTD_CCtx_loadDictionary keeps the parameters of the first frame: after a parameter "
                   "change the next frame is compressed with the old cParams (output depends on the context's history)",
    KEY_CONTIG: "the output depends on the address of the caller's buffers: a prefix / raw dictionary that ends exactly where the "
                "input starts is searched as contiguous prefix instead of extDict (documented: ZSTD_c_deterministicRefPrefix, default 0)",
    KEY_CDREF: "a dictionary held by reference that ends exactly where the input starts: when the frame copies the CDict the window "
               "continues the dictionary as contiguous prefix, and ZSTD_c_deterministicRefPrefix=1 does not prevent it "
               "(ms->forceNonContiguous is only set on the load path)",
    KEY_COPYPARAMS: "ZSTD_copyCCtx builds the copy from the DESTINATION's sticky requestedParams (only cParams, row finder, block "
                    "splitter, LDM, maxBlockSize and fParams come from the source): the bytes depend on what the destination was "
                    "configured for before",
    KEY_RAWFB: "one-shot output depends on dstCapacity: ZSTD_entropyCompressSeqStore stores a block raw when the entropy stage "
               "reports dstSize_tooSmall while srcSize <= dstCapacity, although the block compresses with a few more bytes of room",
}


def log(*a):
    core.log("C07:", *a)


def cbound(n):
    """ZSTD_compressBound (only used to aim capacities at the e_end shortcut threshold)."""
    return n + (n >> 8) + (((128 << 10) - n) >> 11 if n < (128 << 10) else 0)


# --------------------------------------------------------------------------------------------
# inputs

class Blob:
    def __init__(self):
        self.b = bytearray()

    def add(self, data):
        off = len(self.b)
        self.b += data
        return (off, len(data))


def build_pool(rng, quick):
    """-> (Blob, inputs [(off,len,kind)], dicts [(off,len,kind)], bigs [(off,len,kind)])"""
    blob = Blob()
    inputs = []
    sizes = [0, 1, 5, 64, 300, 1000, 4096, 4097, 10000, 20000, 32768, 40000, 65536, 65537, 100000, 131072, 131073,
             150000, 200000, 262144 + 17]
    kinds = [k for k in codec.KINDS if k not in ("zeros", "rle")]
    for s in sizes:
        k = rng.choice(kinds)
        if s <= 64:
            k = rng.choice(codec.KINDS)
        o, l = blob.add(codec.gen_input(rng, k, s))
        inputs.append((o, l, k))
    # a few texts sharing vocabulary with each other (stale table entries would find real matches)
    base = codec.gen_input(rng, "text", 300000)
    o, l = blob.add(base)
    inputs.append((o, l, "text300k"))
    for s in (30000, 70000, 131072 + 5000):
        st = rng.randrange(0, len(base) - s)
        o, l = blob.add(base[st:st + s])
        inputs.append((o, l, "textslice"))
    for k in ("selfcopy", "longdist", "mixed", "lowent"):
        s = rng.choice([50000, 90000, 180000])
        o, l = blob.add(codec.gen_input(rng, k, s))
        inputs.append((o, l, k))
    # inputs whose last bytes repeat their first bytes: the last positions a finder indexed in a previous frame over the
    # same bytes (just below the new lowLimit when the new input is placed contiguously) look like matches for the
    # first positions of the next frame
    for s in (2000, 16384 + 300, 66000):
        pat = rng.randbytes(rng.choice([4, 4, 5, 8]))
        head = (pat * 32)[:96]
        body = bytearray(codec.gen_input(rng, rng.choice(["text", "lowent", "selfcopy"]), s))
        body[:len(head)] = head
        for d in (16, 24, 40):
            body[s - d:s - d + 16] = head[:16] if d == 16 else head[:16]
        body[s - 16:] = head[:16]
        o, l = blob.add(bytes(body))
        inputs.append((o, l, "headtail"))
    dicts = []
    for s in (9, 100, 1000, 20000, 70000):
        st = rng.randrange(0, len(base) - s)
        o, l = blob.add(base[st:st + s])
        dicts.append((o, l, "raw"))
    try:
        g = open(os.path.join(core.REPO, "tests", "golden-dictionaries", "http-dict-missing-symbols"), "rb").read()
        o, l = blob.add(g)
        dicts.append((o, l, "zstd"))
    except OSError:
        pass
    bigs = []
    for s in ([1300000, 2200000] if quick else [1300000, 2200000, 5000000]):
        k = rng.choice(["text", "mixed", "selfcopy", "lowent"])
        o, l = blob.add(codec.gen_input(rng, k, s))
        bigs.append((o, l, k))
    return blob, inputs, dicts, bigs


# --------------------------------------------------------------------------------------------
# targets: one logical call sequence = parameters + dictionary + API calls on one input

ROWSTRATS = (3, 4, 5)


def gen_sticky_params(rng, size, bias=None):
    p = codec.gen_params(rng, size)
    p.pop("format", None)
    b = bias or rng.choice(["row", "row", "opt", "ldm", "any", "any", "fastdict"])
    if b == "row":
        p.pop("level", None)
        p["level"] = rng.choice([5, 6, 7, 8, 9, 10, 11, 12])
        p.pop("strategy", None)
        if rng.random() < 0.5:
            p["strategy"] = rng.choice(ROWSTRATS)
        p["windowLog"] = rng.choice([15, 16, 17, 18, 20])
        p["rowMatchFinder"] = rng.choice([0, 1, 1])
        if rng.random() < 0.5:
            p["searchLog"] = rng.choice([4, 5, 6, 7])
        p.pop("hashLog", None)
    elif b == "opt":
        p["strategy"] = rng.choice([7, 8, 9])
        p["level"] = rng.choice([13, 16, 19])
        if size > 120000:
            p["level"] = 13
    elif b == "ldm":
        p["ldm"] = 1
    # keep the run time bounded
    if size > 70000 and p.get("level", 3) > 17:
        p["level"] = 17
    if p.get("strategy", 0) >= 7 and size > 150000 and p.get("targetLength", 0) > 1000:
        p["targetLength"] = 64
    return p, b


def gen_cparams(rng, size):
    """explicit ZSTD_compressionParameters for ZSTD_compress_advanced / ZSTD_compressBegin_advanced"""
    st = rng.randint(1, 9)
    wl = rng.choice([10, 12, 14, 15, 16, 17, 18, 20])
    hl = rng.choice([8, 12, 14, 16, 17])
    if st in ROWSTRATS and rng.random() < 0.6:
        wl = max(wl, 15)        # row match finder is resolved from windowLog > 14
    cl = min(rng.choice([8, 12, 14, 16]), wl + (1 if st >= 6 else 0))
    sl = rng.choice([1, 2, 4, 5, 6])
    sl = min(sl, wl - 1)
    mm = rng.choice([3, 4, 5, 6])
    tl = rng.choice([0, 8, 32, 100])
    return (wl, cl, hl, sl, mm, tl, st)


def gen_pieces(rng, n, blocky=False):
    """split n bytes in (size, directive) pieces; the last piece ends the frame"""
    if n == 0 or rng.random() < 0.25:
        return [(n, 2)]
    k = rng.choice([1, 2, 3, 5, 9])
    cuts = sorted(rng.randrange(0, n + 1) for _ in range(k))
    if blocky and rng.random() < 0.5:
        cuts = sorted(set(min(n, max(0, (c >> 12) << 12 if rng.random() < 0.7 else c)) for c in cuts))
    pcs = []
    prev = 0
    for c in cuts:
        pcs.append((c - prev, rng.choice([0, 0, 0, 1])))
        prev = c
    pcs.append((n - prev, 2))
    if rng.random() < 0.3:
        pcs.insert(0, (0, 0))           # empty first call: transparent initialisation only
    return pcs


def reseg_pieces(rng, pieces):
    """another segmentation with the same flush / end calls: every maximal run of ZSTD_e_continue pieces is cut again
    (same total); the flush / end pieces keep their own sizes (Det/StreamPartitionProofs.continue_*_merge: the
    chunks handed to the block compressor are the same; the exception - an end call without input after an exact
    multiple of the block size - cannot arise because the size of the end call is kept)"""
    out, run = [], []

    def close():
        if not run:
            return
        total = sum(run)
        k = rng.choice([1, 2, 3, 5])
        cuts = sorted(rng.randint(0, total) for _ in range(k - 1))
        prev = 0
        for cpos in cuts + [total]:
            out.append((cpos - prev, 0))
            prev = cpos
        del run[:]
    for n, d in pieces:
        if d == 0:
            run.append(n)
        else:
            close()
            out.append((n, d))
    close()
    return out


class Target:
    """api in c2 | stream | cctx | udict | ucdict | adv | bl | blcdict"""

    def __init__(self, api, src, params=None, level=3, cparams=None, dct=None, pieces=None, chunk=0, chk=0, cs=1,
                 pledge=0, cdict=None, reset="r3", bias="any"):
        self.api, self.src, self.params, self.level, self.cparams = api, src, params or {}, level, cparams
        self.dct, self.pieces, self.chunk, self.chk, self.cs, self.pledge = dct, pieces, chunk, chk, cs, pledge
        self.cdict, self.reset, self.bias = cdict, reset, bias

    def sticky(self):
        return self.api in ("c2", "stream")

    def describe(self):
        d = dict(api=self.api, src=self.src[:2], kind=self.src[2])
        if self.sticky():
            d["params"] = self.params
        if self.api in ("cctx", "udict"):
            d["level"] = self.level
        if self.cparams:
            d["cparams"] = self.cparams
        if self.dct:
            d["dict"] = self.dct
        if self.cdict:
            d["cdict"] = self.cdict
        if self.pieces:
            d["pieces"] = self.pieces if len(self.pieces) < 12 else self.pieces[:12] + ["..."]
        if self.api in ("bl", "blcdict"):
            d["chunk"] = self.chunk
        return d

    def strategy_class(self):
        if self.cparams:
            st = self.cparams[6]
        elif "strategy" in self.params:
            st = self.params["strategy"]
        else:
            lv = self.params.get("level", self.level)
            st = 1 if lv < 3 else 2 if lv < 5 else 3 if lv < 6 else 4 if lv < 8 else 5 if lv < 13 else 6 if lv < 16 else 7 if lv < 17 else 8 if lv < 20 else 9
        return st

    # ---- script lines
    def cdict_lines(self, d, flip=False):
        """lines creating the CDict this target needs in slot d (flip: dictionary content by copy <-> by reference)"""
        if not self.cdict:
            return []
        c = self.cdict
        if c[0] == "level":
            return ["cdict %d %d %d %d %d %d" % (d, c[1], c[2], c[3], (1 - c[4]) if flip else c[4], c[5])]
        return ["cdict2 %d %d %d %s %d" % (d, c[1], c[2], " ".join(str(x) for x in c[3]), c[4])]

    def lines(self, c, fid, sa=0, da=0, hexout=0, caps=None, inmode=0, cap=0, d=0, override=None, copy_to=-1, fresh=False,
              route="set", pieces=None, flip=False):
        """fresh=True: the context has just been created, the call sequence starts with the parameters
        (no ZSTD_CCtx_reset): a used context gets the same calls after a reset of session and parameters.
        route="params": the parameters go through a ZSTD_CCtx_params object (ZSTD_CCtx_setParametersUsingCCtxParams);
        pieces: another segmentation of the same input calls; flip: the dictionary content by copy <-> by reference."""
        L = []
        o, n = self.src[0], self.src[1]
        head = "F %d %d %d %d %d %d %d " % (c, fid, o, n, sa, da, hexout)
        if self.sticky():
            if fresh:
                pass
            elif self.reset == "r3":
                L.append("reset %d 3" % c)
            else:
                L.append("reset %d 1" % c)
                L.append("reset %d 2" % c)
            pp = dict(self.params)
            if override:
                pp.update(override)
            if route == "params":
                L.append("setp %d %d %s" % (c, len(pp), " ".join("%d %d" % (P[k], v) for k, v in pp.items())))
            else:
                for k, v in pp.items():
                    L.append("set %d %d %d" % (c, P[k], v))
            if self.dct:
                if self.dct[0] == "prefix":
                    L.append("prefix %d %d %d" % (c, self.dct[1], self.dct[2]))
                elif self.dct[0] == "load":
                    L.append("load %d %d %d %d %d" % (c, self.dct[1], self.dct[2], (1 - self.dct[3]) if flip else self.dct[3], self.dct[4]))
            if self.cdict:
                L.append("refcdict %d %d" % (c, d))
            if self.pledge:
                L.append("pledge %d %d" % (c, n))
        if self.api == "c2":
            L.append(head + "c2 %d" % cap)
        elif self.api == "stream":
            cp = caps or [1 << 30]
            pcs = pieces or self.pieces
            L.append(head + "stream %d %d %s %d %s" % (inmode, len(pcs), " ".join("%d %d" % p for p in pcs),
                                                       len(cp), " ".join(str(x) for x in cp)))
        elif self.api == "cctx":
            L.append(head + "cctx %d %d" % (self.level, cap))
        elif self.api == "udict":
            L.append(head + "udict %d %d %d" % (self.level, self.dct[1], self.dct[2]))
        elif self.api == "ucdict":
            L.append(head + "ucdict %d" % d)
        elif self.api == "adv":
            dd = self.dct or ("none", 0, 0)
            L.append(head + "adv %s %d %d %d %d" % (" ".join(str(x) for x in self.cparams), self.cs, self.chk, dd[1], dd[2]))
        elif self.api == "bl":
            dd = self.dct or ("none", 0, 0)
            L.append(head + "bl %d %s %d %d %d %d %d %d" % (self.chunk, " ".join(str(x) for x in self.cparams), self.cs, self.chk,
                                                            self.pledge, dd[1], dd[2], copy_to))
        elif self.api == "blcdict":
            L.append(head + "blcdict %d %d" % (self.chunk, d))
        return L


def gen_target(rng, inputs, dicts, api=None, small=False):
    api = api or rng.choice(["c2"] * 5 + ["stream"] * 5 + ["cctx", "udict", "ucdict", "adv", "bl", "bl", "blcdict"])
    cand = [i for i in inputs if (not small or i[1] <= 70000)]
    src = rng.choice(cand)
    if rng.random() < 0.15:
        src = rng.choice([i for i in cand if i[2] == "headtail"])
    n = src[1]
    if api in ("c2", "stream"):
        params, bias = gen_sticky_params(rng, n)
        t = Target(api, src, params=params, bias=bias, reset=rng.choice(["r3", "r3", "r1r2"]))
        r = rng.random()
        if r < 0.2:
            d = rng.choice(dicts)
            t.dct = ("prefix", d[0], d[1])
        elif r < 0.35:
            d = rng.choice(dicts)
            t.dct = ("load", d[0], d[1], rng.randint(0, 1), 0)
        elif r < 0.55:
            d = rng.choice(dicts)
            t.cdict = ("level", d[0], d[1], rng.choice([1, 3, 5, 7, 13, 16, 19, 19] if d[1] < 30000 else [1, 3, 6]), rng.randint(0, 1), 0)
            t.params["forceAttachDict"] = rng.choice([0, 1, 2, 2, 3])
            if t.params.get("nbWorkers"):
                t.params.pop("nbWorkers")
        if api == "stream":
            t.pieces = gen_pieces(rng, n, blocky=True)
            if rng.random() < 0.2:
                t.pledge = 1
        return t
    if api == "cctx":
        return Target(api, src, level=rng.choice([-5, 1, 2, 3, 4, 5, 6, 7, 9, 12, 13, 16, 19 if n < 70000 else 15]), bias="simple")
    if api == "udict":
        d = rng.choice(dicts)
        return Target(api, src, level=rng.choice([1, 3, 5, 6, 8, 13, 16]), dct=("dict", d[0], d[1]), bias="simple")
    if api in ("ucdict", "blcdict"):
        d = rng.choice(dicts)
        if rng.random() < 0.6:
            cd = ("level", d[0], d[1], rng.choice([1, 3, 5, 7, 13] if d[1] < 30000 else [1, 3, 6]), rng.randint(0, 1), 0)
        else:
            cp = gen_cparams(rng, n)
            cd = ("cparams", d[0], d[1], cp, 1 if (cp[6] in (3, 4, 5) and rng.random() < 0.5) else 0)
        return Target(api, src, cdict=cd, chunk=rng.choice([0, 1000, 4096, 50000, 131072]), bias="simple")
    if api in ("adv", "bl"):
        cp = gen_cparams(rng, n)
        t = Target(api, src, cparams=cp, chk=rng.randint(0, 1), cs=rng.randint(0, 1), pledge=rng.randint(0, 1),
                   chunk=rng.choice([0, 0, 1000, 4096, 50000, 131072]), bias="simple")
        if rng.random() < 0.3:
            d = rng.choice(dicts)
            t.dct = ("dict", d[0], d[1])
        if api == "adv":
            t.pledge = 0
        return t
    raise ValueError(api)


# --------------------------------------------------------------------------------------------
# histories

class Fid:
    def __init__(self, start):
        self.n = start

    def next(self):
        self.n += 1
        return self.n


def gen_history(rng, inputs, dicts, t, c, fids, aux_cdict_slot, allow_abort_tail=True):
    """lines that use context c before the target runs on it; returns (lines, kinds)"""
    L = []
    kinds = []
    nitems = rng.choice([1, 1, 2, 2, 3, 4])
    menu = ["frame"] * 4 + ["same", "same", "nearwin", "nearwin", "partial", "partial", "tinydst", "pledgelie", "burst", "bigthensmall",
                             "rowframe", "optframe", "copysrc", "copydst", "wsjunk", "wsjunk", "midset", "midset", "genseq", "genseq"]
    for it in range(nitems):
        k = rng.choice(menu)
        last = it == nitems - 1
        if k in ("frame", "rowframe", "optframe"):
            api = rng.choice(["c2", "c2", "stream", "cctx", "adv", "bl", "udict", "ucdict", "blcdict"])
            if k != "frame":
                api = rng.choice(["c2", "stream"])
            h = gen_target(rng, inputs, dicts, api=api, small=True)
            if k == "rowframe":
                h.params, _ = gen_sticky_params(rng, h.src[1], "row")
            if k == "optframe":
                h.params, _ = gen_sticky_params(rng, h.src[1], "opt")
            L += h.cdict_lines(aux_cdict_slot)
            L += h.lines(c, fids.next(), sa=rng.choice([0, 0, 3, 64]), d=aux_cdict_slot,
                         caps=[rng.choice([1 << 30, 1000, 37])] if api == "stream" else None)
        elif k in ("same", "wsjunk"):
            # the very same call sequence (possibly on other data): "tables already clean" / same-size workspace
            src = t.src if (rng.random() < 0.6 or k == "wsjunk") else rng.choice([i for i in inputs if i[1] <= 70000])
            saved = t.src
            t.src = src
            if t.api == "stream":
                old = t.pieces
                t.pieces = [(src[1], 2)]
                L += t.lines(c, fids.next(), d=0)
                t.pieces = old
            else:
                L += t.lines(c, fids.next(), d=0)
            t.src = saved
            if k == "wsjunk":
                # then a streaming frame with tiny tables and a large window in the SAME workspace: its buffers (input
                # bytes, compressed bytes, sequence codes) reach down into the area that held the target's tables;
                # the next reservation of those tables must notice (tableValidEnd lowered by every top reservation)
                js = rng.choice([i for i in inputs if 20000 <= i[1] <= 70000])
                L.append("reset %d 3" % c)
                for kk, v in (("level", 1), ("strategy", 1), ("hashLog", 6), ("chainLog", 6), ("windowLog", rng.choice([16, 17, 18, 19, 20]))):
                    L.append("set %d %d %d" % (c, P[kk], v))
                L.append("F %d %d %d %d 0 0 0 stream 0 1 %d 2 1 %d" % (c, fids.next(), js[0], js[1], js[1], rng.choice([1 << 30, 5000])))
        elif k == "nearwin":
            # leave indices just below / above the window of the target
            wl = t.cparams[0] if t.cparams else t.params.get("windowLog", rng.choice([10, 12, 14, 16, 17]))
            size = max(1, (1 << wl) + rng.choice([-9, -8, -1, 0, 1, 2, 7, 8, 9, 64]))
            big = [i for i in inputs if i[1] >= size]
            if not big:
                size = 65536 + rng.choice([-1, 0, 1, 8])
                big = [i for i in inputs if i[1] >= size]
            src = rng.choice(big)
            st = rng.randrange(0, src[1] - size + 1)
            h = Target("c2", (src[0] + st, size, "slice"), params={"level": rng.choice([1, 3, 5, 7, 13]), "windowLog": min(max(wl, 10), 20)})
            if t.sticky() and rng.random() < 0.6:
                h.params = dict(t.params)
                h.params.pop("nbWorkers", None)
                for kk in ("forceAttachDict",):
                    h.params.pop(kk, None)
            L += h.lines(c, fids.next())
        elif k == "partial":
            src = rng.choice([i for i in inputs if 0 < i[1] <= 70000])
            pr = {}
            if rng.random() < 0.7:
                pr, _ = gen_sticky_params(rng, src[1])
                pr.pop("nbWorkers", None)
            L.append("reset %d 3" % c)
            for kk, v in pr.items():
                L.append("set %d %d %d" % (c, P[kk], v))
            L.append("A %d %d %d %d" % (c, src[0], rng.randint(1, src[1]), rng.randint(0, 1)))
            if last and allow_abort_tail:
                kinds.append("abort-tail")
            else:
                L.append("reset %d %d" % (c, rng.choice([1, 3])))
        elif k == "midset":
            # an ACCEPTED parameter update in the middle of a single-thread frame (raises cctx->cParamsChanged, which only
            # the multithreaded branch consumes): must not reach the next frame, with or without a reset in between
            src = rng.choice([i for i in inputs if 1000 < i[1] <= 70000])
            lv = rng.choice([1, 3, 5])
            L.append("reset %d 3" % c)
            L.append("set %d %d %d" % (c, P["level"], lv))
            L.append("A %d %d %d 0" % (c, src[0], rng.randint(100, 1000)))
            L.append("set %d %d %d" % (c, P["level"], lv if rng.random() < 0.5 else rng.choice([1, 3, 5])))
            if last and allow_abort_tail:
                kinds.append("abort-tail")
            else:
                L.append("reset %d %d" % (c, rng.choice([1, 3])))
        elif k == "genseq":
            # ZSTD_generateSequences arms cctx->seqCollector for its internal ZSTD_compress2: nothing of it may survive
            src = rng.choice([i for i in inputs if 1000 < i[1] <= 70000])
            L.append("reset %d 3" % c)
            L.append("set %d %d %d" % (c, P["level"], rng.choice([1, 3, 5, 7])))
            L.append("G %d %d %d" % (c, src[0], src[1]))
        elif k == "tinydst":
            src = rng.choice([i for i in inputs if 2000 < i[1] <= 70000])
            L.append("reset %d 3" % c)
            L.append("set %d %d %d" % (c, P["level"], rng.choice([1, 3, 6, 13])))
            L.append("F %d %d %d %d 0 0 0 c2 %d" % (c, fids.next(), src[0], src[1], rng.choice([1, 10, 100, 1000])))
        elif k == "pledgelie":
            src = rng.choice([i for i in inputs if 100 < i[1] <= 70000])
            L.append("reset %d 3" % c)
            L.append("set %d %d %d" % (c, P["level"], rng.choice([1, 4, 7, 16])))
            L.append("pledge %d %d" % (c, src[1] + rng.choice([-1, 1, 1000])))
            L.append("F %d %d %d %d 0 0 0 stream 0 1 %d 2 1 %d" % (c, fids.next(), src[0], src[1], src[1], rng.choice([1 << 30, 100])))
            if not (last and allow_abort_tail):
                L.append("reset %d %d" % (c, rng.choice([1, 3])))
            else:
                kinds.append("abort-tail")
        elif k in ("copysrc", "copydst"):
            # ZSTD_copyCCtx with this context as source (left between Begin and End) or as destination
            h = gen_target(rng, inputs, dicts, api="bl", small=True)
            aux = 15
            L.append("ctx %d %s 0" % (aux, rng.choice(["heap", "heapz"])))
            if k == "copysrc":
                L += h.lines(c, fids.next(), copy_to=aux)
            else:
                L += h.lines(aux, fids.next(), copy_to=c)
        elif k == "burst":
            src = rng.choice([i for i in inputs if 0 < i[1] <= 300])
            L.append("reset %d 3" % c)
            L.append("set %d %d %d" % (c, P["level"], rng.choice([1, 3, 5])))
            for _ in range(rng.choice([127, 129, 131])):
                L.append("F %d %d %d %d 0 0 0 c2 0" % (c, fids.next(), src[0], src[1]))
        elif k == "bigthensmall":
            src = rng.choice([i for i in inputs if 0 < i[1] <= 20000])
            L.append("reset %d 3" % c)
            L.append("set %d %d %d" % (c, P["level"], rng.choice([10, 13, 16])))
            L.append("set %d %d %d" % (c, P["windowLog"], rng.choice([20, 22])))
            L.append("F %d %d %d %d 0 0 0 stream 0 2 0 0 %d 2 1 1000000" % (c, fids.next(), src[0], src[1], src[1]))
        kinds.append(k)
    return L, kinds


# --------------------------------------------------------------------------------------------
# groups: one target executed under several execution contexts, all in one harness process

STATIC_SIZE = 40 << 20


def static_ok(t):
    if t.params.get("nbWorkers"):
        return False
    lv = t.params.get("level", t.level)
    wl = t.cparams[0] if t.cparams else t.params.get("windowLog", 0)
    if t.params.get("ldm"):
        return False
    for k in ("hashLog", "chainLog"):
        if t.params.get(k, 0) > 20:
            return False
    if t.dct and t.dct[0] == "load" and not t.dct[3]:
        return False        # a static context cannot copy a dictionary
    return lv <= 12 and wl <= 20 and (t.cdict is None or t.cdict[0] == "level")


class Group:
    def __init__(self, gid, t):
        self.gid, self.t = gid, t
        self.lines = []
        self.variants = []      # (fid, label, cls, info)
        self.kinds = set()


def build_group(rng, gid, t, inputs, dicts, want_hex=False, trace=False):
    g = Group(gid, t)
    fids = Fid(1000)
    n = t.src[1]
    arena = 700000
    L = g.lines
    L.append("arena %d" % arena)
    L.append("trace %d" % (1 if trace else 0))
    L += t.cdict_lines(0)
    slot = [0]

    def new_ctx(kind):
        c = slot[0]
        slot[0] += 1
        L.append("ctx %d %s %d" % (c, kind, STATIC_SIZE if kind == "static" else 0))
        return c

    # ZSTD_compressStream2(e_end) takes a shortcut (ZSTD_compressEnd straight from the caller's buffer) whenever
    # nothing is buffered and the output capacity is >= ZSTD_compressBound(remaining input) >= 64: capacities
    # <= 63 never take it, capacities >= compressBound(whole input) take it at a point fixed by the pieces.
    small_hi = 63

    def small_caps():
        """any capacity sequence; which side of the shortcut it falls on is OBSERVED by the harness (sc)"""
        r = rng.random()
        if r < 0.25:
            return [rng.randint(1, small_hi)]
        if r < 0.35:
            return [1]
        if r < 0.5:
            return [rng.randint(1, small_hi) for _ in range(rng.choice([2, 3, 7]))]
        if r < 0.7:     # just below / at ZSTD_compressBound of what remains at some piece boundary
            rem = rng.choice([n] + [p[0] for p in (t.pieces or [])])
            return [max(1, cbound(rem) + rng.choice([-2, -1, -1, 0, 1]))] + ([rng.randint(1, 5000)] if rng.random() < 0.5 else [])
        return mid_caps()

    def big_caps():
        return [1 << 30]        # clamped by the harness to the room left in dst: always >= compressBound(remaining)

    def mid_caps():
        return [rng.choice([64, 100, 1000, 4200, 20000, 70000]) for _ in range(rng.choice([1, 2, 3]))]

    def add(label, cls, ctxkind, hist=False, sa=None, da=None, caps=None, inmode=0, cap=0, contig=False, copy=False, hexout=0,
            force_fresh=False, route="set", pieces=None, flip=False, d=0, copy_hist=None, copy_reset=False):
        c = new_ctx(ctxkind)
        kinds = []
        if sa is None:
            sa = rng.choice([0, rng.randint(1, 63), rng.randint(1, 63), 4096 + rng.randint(0, 63)])
        if da is None:
            da = rng.choice([0, rng.randint(1, 63), rng.randint(1, 63)])
        if hist:
            hl, kinds = gen_history(rng, inputs, dicts, t, c, fids, 2)
            L.extend(hl)
            if t.cdict and rng.random() < 0.7:
                # the last frame of the history leaves a pledged size on the other side of every attach / copy / load
                # threshold (8 KB .. 32 KB attach cutoffs, 128 KB, 6 x dictionary size) than the target's
                n_t = t.src[1]
                pool = [i for i in inputs if (i[1] >= 140000 if n_t <= 40000 else 0 < i[1] <= 4097)]
                if pool:
                    js = rng.choice(pool)
                    L.append("F %d %d %d %d 0 0 0 cctx %d 0" % (c, fids.next(), js[0], js[1], rng.choice([1, 3])))
                    kinds.append("pledged-straddle")
        if contig:
            # previous frame = same bytes, placed so that the target's input starts exactly where it ended
            h0 = rng.choice([64, 100, 4096])
            saved_api, saved_pieces = t.api, t.pieces
            L.extend(t.lines(c, fids.next(), sa=h0, da=0, caps=[1 << 30], d=0))
            sa = h0 + n
            kinds.append("contig")
        copy_to = -1
        if copy:
            copy_to = new_ctx(rng.choice(["heap", "heapz"]))
            if (rng.random() < 0.5) if copy_hist is None else copy_hist:      # the destination context has a history of its own
                hl, k2 = gen_history(rng, inputs, dicts, t, copy_to, fids, 2, allow_abort_tail=False)
                L.extend(hl)
                kinds += k2
                if copy_reset:
                    L.append("reset %d 3" % copy_to)
                    kinds.append("dst-reset")
            kinds.append("copyCCtx")
        fid = fids.next()
        is_fresh = not hist and not contig and not copy
        L.extend(t.lines(c, fid, sa=sa, da=da, hexout=hexout, caps=caps, inmode=inmode, cap=cap, d=d, copy_to=copy_to,
                         fresh=is_fresh and (force_fresh or rng.random() < 0.7), route=route, pieces=pieces, flip=flip))
        info = dict(ctx=ctxkind, sa=sa, da=da, caps=caps, inmode=inmode, cap=cap, hist=kinds)
        if route != "set":
            info["route"] = route
            kinds.append("route-" + route)
        if pieces is not None:
            info["pieces"] = pieces
            kinds.append("reseg")
        if flip:
            info["flip"] = True
            kinds.append("dict-copy-vs-ref")
        g.variants.append((fid, label, cls, info))
        g.kinds.update(kinds)
        g.kinds.add(ctxkind)
        return c

    is_stream = t.api == "stream"
    refcaps = [small_hi] if is_stream else None
    add("ref", "eq", "heapz", sa=0, da=0, caps=refcaps, hexout=1 if want_hex else 0)
    add("fresh-garbage", "eq", "heap", caps=small_caps() if is_stream else None, inmode=rng.randint(0, 1) if is_stream else 0)
    so = static_ok(t)
    if so and rng.random() < 0.7:
        add("fresh-static", "eq", "static", caps=small_caps() if is_stream else None, force_fresh=True)
    nh = rng.choice([2, 3, 3, 4])
    for i in range(nh):
        kind = rng.choice(["heap", "heap", "heapz"] + (["static"] if so and rng.random() < 0.3 else []))
        add("hist%d" % i, "eq", kind, hist=True, caps=small_caps() if is_stream else None,
            inmode=rng.randint(0, 1) if is_stream else 0,
            cap=rng.choice([0, 0, cbound(n) + 123]) if t.api in ("c2", "cctx") else 0)
    if n > 0 and n <= 200000 and (rng.random() < 0.6 or t.src[2] == "headtail"):
        add("contig", "eq", rng.choice(["heap", "heapz"]), contig=True, caps=small_caps() if is_stream else None)
    if t.api == "bl":
        # ZSTD_copyCCtx right after Begin (dictionary loaded): the copy does the work - into a fresh destination and into
        # destinations with a past (row finder: tag table + hash salt must travel with the hash table, fixed in 34698bc)
        # ZSTD_copyCCtx builds its own frame parameters (content size from its argument, NO checksum): the copies are compared
        # with each other (fresh destination = reference), and with the direct execution only when no checksum is requested
        add("copy0", "copy", rng.choice(["heap", "heapz"]), copy=True, copy_hist=False)
        # copy1: the destination has a past and is reset (session + parameters) before the copy: strict.
        # copy2: no reset - ZSTD_copyCCtx_internal starts from the DESTINATION's sticky requestedParams (targetCBlockSize,
        #        literalCompressionMode ...): finding copyCCtx-uses-destination-params
        add("copy1", "copy", "heap", copy=True, copy_hist=True, copy_reset=True, hist=rng.random() < 0.3)
        add("copy2", "copy", "heap", copy=True, copy_hist=True)
    if t.sticky() and rng.random() < 0.6:
        # the same parameters through ZSTD_CCtx_params / ZSTD_CCtx_setParametersUsingCCtxParams
        add("params-route", "eq", rng.choice(["heap", "heapz"]), hist=rng.random() < 0.5, route="params",
            caps=small_caps() if is_stream else None)
    if t.sticky() and ((t.dct and t.dct[0] == "load") or (t.cdict and t.cdict[0] == "level")) or (
            t.api in ("ucdict", "blcdict") and t.cdict and t.cdict[0] == "level"):
        # the dictionary content by copy <-> by reference (CDict: a second CDict in slot 1)
        if t.cdict:
            L.extend(t.cdict_lines(1, flip=True))
        add("dict-flip", "eq", "heap", hist=rng.random() < 0.5, flip=True, d=1 if t.cdict else 0,
            caps=small_caps() if is_stream else None)
    if is_stream and any(dd == 0 for _, dd in t.pieces):
        for i in range(2):
            add("reseg%d" % i, "eq", rng.choice(["heap", "heapz"]), hist=(i == 1), pieces=reseg_pieces(rng, t.pieces),
                caps=[rng.randint(1, small_hi)] if i == 0 else small_caps(), inmode=rng.randint(0, 1))
    if is_stream:
        add("caps-a", "eq", "heap", caps=small_caps(), inmode=1)
        add("caps-big1", "big", "heapz", caps=big_caps(), sa=0, da=0)
        add("caps-big2", "big", "heap", caps=big_caps(), hist=rng.random() < 0.5, inmode=1)
        add("caps-mid", "eq", "heap", caps=mid_caps(), inmode=rng.randint(0, 1))
    return g


def build_mt_group(rng, gid, bigs, inputs, dicts):
    src = rng.choice(bigs)
    n = src[1]
    p = {"level": rng.choice([1, 1, 2, 3, 3, 4, 5, 6]), "jobSize": rng.choice([1, 1, 600000, 1 << 20, 0, 0])}
    r = rng.random()
    if r < 0.3 or p["jobSize"] == 0:
        p["windowLog"] = rng.choice([12, 16, 18, 18] if p["jobSize"] == 0 else [12, 16, 18, 20])   # default job = 4 windows, >= 1 MiB
    if rng.random() < 0.5:
        p["overlapLog"] = rng.randint(1, 9)
    if rng.random() < 0.25:
        p["rsyncable"] = 1
    if rng.random() < 0.3:
        p["checksum"] = 1
    if rng.random() < 0.2:
        p["ldm"] = 1
    if rng.random() < 0.2:
        p["strategy"] = rng.choice([3, 4, 5])
        p["rowMatchFinder"] = 1
    api = rng.choice(["c2", "stream", "stream"])
    t = Target(api, src, params=p, bias="mt", reset=rng.choice(["r3", "r1r2"]))
    if api == "stream":
        t.pieces = gen_pieces(rng, n)
        # flushes cut jobs: keep a few
        if rng.random() < 0.3:
            t.pledge = 1
    r = rng.random()
    if r < 0.3:       # a dictionary makes the frame's cParams differ from the unknown-size / no-dictionary ones (midset history)
        d = rng.choice(dicts)
        t.dct = ("prefix", d[0], d[1])
    elif r < 0.5:
        d = rng.choice(dicts)
        t.dct = ("load", d[0], d[1], 1, 0)
    g = Group(gid, t)
    fids = Fid(1000)
    L = g.lines
    L.append("arena %d" % (n + 200000))
    L.append("trace 1")
    slot = [0]
    workers = [1, 2, 4]
    rng.shuffle(workers)
    plan = [("ref", workers[0], "heapz", 0, 0, False), ("w%d" % workers[1], workers[1], "heap", rng.choice([0, 6]), 0, False),
            ("w%d-jit" % workers[2], workers[2], "heap", rng.choice([4, 12]), rng.choice([0, 300]), False),
            ("w%d-fail-hist" % workers[0], workers[0], "heap", rng.choice([0, 8]), rng.choice([200, 600]), True),
            ("w%d-hist" % workers[1], workers[1], "heapz", rng.choice([0, 3, 15]), 0, True),
            ("w%d-midset" % workers[2], workers[2], "heap", 0, 0, "midset")]
    for label, w, kind, jit, fail, hist in plan:
        c = slot[0]
        slot[0] += 1
        L.append("ctx %d %s 0" % (c, kind))
        kinds = ["mt", "w%d" % w]
        if hist == "midset":
            # a single-thread frame with an ACCEPTED mid-frame parameter update, left unfinished: cctx->cParamsChanged is
            # raised and only the multithreaded branch would consume it - it must not reach the target frame
            hs = rng.choice(inputs)
            lv = rng.choice([1, 3, 5])
            L.append("reset %d 3" % c)
            L.append("set %d %d %d" % (c, P["level"], lv))
            L.append("A %d %d %d 0" % (c, hs[0], max(1, min(hs[1], rng.randint(100, 1000)))))
            L.append("set %d %d %d" % (c, P["level"], lv))
            kinds.append("midset")
        elif hist:
            # an MT frame with another worker count / parameters first (ZSTDMT_resize, pools reused), maybe abandoned
            hp = {"level": rng.choice([1, 3, 5]), "nbWorkers": rng.choice([1, 2, 3, 4]), "jobSize": 1}
            hs = rng.choice(bigs)
            L.append("reset %d 3" % c)
            for kk, v in hp.items():
                L.append("set %d %d %d" % (c, P[kk], v))
            if rng.random() < 0.5:
                L.append("A %d %d %d %d" % (c, hs[0], rng.randint(1, hs[1]), rng.randint(0, 1)))
                kinds.append("mt-abandoned")
            else:
                L.append("F %d %d %d %d 0 0 0 c2 0" % (c, fids.next(), hs[0], hs[1]))
                kinds.append("mt-frame")
            if rng.random() < 0.4:
                hl, k2 = gen_history(rng, inputs, dicts, t, c, fids, 2)
                L.extend(hl)
                kinds += k2
        L.append("jitter %d" % jit)
        L.append("mtfail %d" % fail)
        caps = None
        if api == "stream":
            caps = rng.choice([[1 << 30], [rng.randint(1, 5000)], [rng.randint(1, 300000) for _ in range(3)], [1, 100000]])
        fid = fids.next()
        pcs = None
        if api == "stream" and label != "ref" and any(dd == 0 for _, dd in t.pieces) and rng.random() < 0.4:
            pcs = reseg_pieces(rng, t.pieces)
            kinds.append("reseg")
        L.extend(t.lines(c, fid, sa=rng.choice([0, rng.randint(1, 63)]), da=rng.choice([0, rng.randint(1, 63)]),
                         caps=caps, inmode=0, d=0, override={"nbWorkers": w}, fresh=not hist and rng.random() < 0.5, pieces=pcs))
        L.append("jitter 0")
        L.append("mtfail 0")
        g.variants.append((fid, label, "eq", dict(ctx=kind, w=w, jitter=jit, mtfail=fail, caps=caps, hist=kinds, pieces=pcs)))
        g.kinds.update(kinds)
    return g


def build_rsync_group(rng, gid, src):
    """MT + ZSTD_c_rsyncable on an input of a dozen sections: the job cuts are content defined (rolling hash) and must
    not move when the jobs table is full at a synchronisation point - which happens when the caller drains the output
    slowly (64 B .. 4 KiB per call) while the whole input is available; reference: one huge output buffer."""
    n = src[1]
    p = {"level": rng.choice([1, 1, 3]), "jobSize": 1, "rsyncable": 1}
    if rng.random() < 0.5:
        p["checksum"] = 1
    if rng.random() < 0.3:
        p["overlapLog"] = rng.randint(1, 9)
    t = Target("stream", src, params=p, bias="mt-rsync", reset=rng.choice(["r3", "r1r2"]))
    a = n // 2 + rng.randint(0, 99999)
    t.pieces = rng.choice([[(n, 2)], [(n, 0), (0, 2)], [(a, 0), (n - a, 2)]])
    g = Group(gid, t)
    fids = Fid(1000)
    L = g.lines
    L.append("arena %d" % (n + 200000))
    L.append("trace 1")
    wref = rng.choice([1, 2])
    # measured on the seeded change "already at a sync point re-check dropped": 3-4 workers expose it on every kind of
    # data with capacities 64 .. 4096, 1-2 workers only on (nearly) incompressible data
    plan = [("ref", wref, "heapz", [1 << 30], 0), ("w1-cap64", 1, "heap", [64], 0), ("w2-cap1000", 2, "heap", [1000], 0),
            ("w4-cap64", 4, "heapz", [64], 0), ("w3-cap1000", 3, "heap", [rng.randint(500, 1500)], rng.choice([0, 4])),
            ("w4-cap4096-reseg", 4, "heap", [rng.randint(2000, 4096)], 0)]
    for k, (label, w, kind, caps, jit) in enumerate(plan):
        L.append("ctx %d %s 0" % (k, kind))
        L.append("jitter %d" % jit)
        fid = fids.next()
        pcs = None
        if label.endswith("reseg") and any(dd == 0 for _, dd in t.pieces):
            pcs = reseg_pieces(rng, t.pieces)
        L.extend(t.lines(k, fid, sa=rng.choice([0, rng.randint(1, 63)]), da=rng.choice([0, rng.randint(1, 63)]), caps=caps, inmode=0,
                         override={"nbWorkers": w}, fresh=rng.random() < 0.5, pieces=pcs))
        L.append("jitter 0")
        g.variants.append((fid, label, "eq", dict(ctx=kind, w=w, jitter=jit, mtfail=0, caps=caps, hist=["mt", "rsync", "w%d" % w], pieces=pcs)))
    g.kinds.update(["mt", "rsync"])
    return g


# --------------------------------------------------------------------------------------------
# running

K_SEEN = []     # constants lines of the harness ("K ..."), one per process


def parse_output(out):
    """-> (frames {fid: ...}, dumps [...], errs [...]); tolerant of the truncated last line of a crashed process"""
    frames = {}
    dumps = []
    errs = []
    cur = []
    curp = []
    last_fid = None
    for l in out.split("\n"):
        if not l:
            continue
        t = l.split(" ")
        try:
            if t[0] == "F":
                fid = int(t[1])
                if t[2] == "E":
                    frames[fid] = dict(err=" ".join(t[3:-1]), nerr=int(t[-1]), jobs=cur, pobs=curp)
                else:
                    frames[fid] = dict(err=None, size=int(t[3]), hash=t[4], rt=int(t[5]), nerr=int(t[6]), sc=int(t[7]),
                                       nblk=int(t[8]), lastempty=int(t[9]),
                                       hex=t[10] if len(t) > 10 else None, jobs=cur, pobs=curp)
                cur = []
                curp = []
                last_fid = fid
            elif t[0] == "D":
                d = dict(ctx=int(t[1]), why=t[2])
                for kv in t[3:]:
                    k, v = kv.split("=")
                    d[k] = int(v)
                if "osd" not in d:
                    raise ValueError("truncated")
                dumps.append(d)
                if last_fid is not None and d["why"] == "frame":
                    frames[last_fid]["dump"] = d
                    last_fid = None
            elif t[0] == "J":
                cur.append(tuple(int(x) for x in t[1:6]))
            elif t[0] == "P":
                curp.append(tuple(int(x) for x in t[1:8]))
            elif t[0] == "K":
                K_SEEN.append([int(x) for x in t[1:]])
            elif t[0] == "A":
                cur = []        # jobs of an abandoned frame
                curp = []
            elif t[0] == "E":
                errs.append(l)
        except (ValueError, IndexError, KeyError):
            errs.append("unparsable: " + l[:100])
    return frames, dumps, errs


def run_script(exe, path_blob, lines, seed, timeout=600):
    script = "blobfile %s\nseed %d\n" % (path_blob, seed) + "\n".join(lines) + "\n"
    env = dict(os.environ, ASAN_OPTIONS="detect_leaks=0:abort_on_error=0", UBSAN_OPTIONS="halt_on_error=1:print_stacktrace=1")
    try:
        p = subprocess.run([exe], input=script.encode(), stdout=subprocess.PIPE, stderr=subprocess.PIPE, timeout=timeout, env=env)
        return p.returncode, p.stdout.decode("utf-8", "replace"), p.stderr.decode("utf-8", "replace")[-2000:], script
    except subprocess.TimeoutExpired as e:
        return 124, (e.stdout or b"").decode("utf-8", "replace"), "timeout", script


def run_groups(exe, blob_path, groups, seed, nproc=core.NCPU):
    def one(g):
        return g, run_script(exe, blob_path, g.lines, seed * 1000003 + g.gid)
    with ThreadPoolExecutor(nproc) as ex:
        return list(ex.map(one, groups))


# --------------------------------------------------------------------------------------------
# comparing

def judge_group(g, res, report):
    """report(kind, g, detail, key=None): kind in 'crash' | 'differ' | 'rt' | 'shortcut' ; returns stats"""
    rc, out, err, script = res
    frames, dumps, errs = parse_output(out)
    stats = dict(compared=0, equal=0, trivial=0, skipped=0, frames=len(frames), shortcut_diff=0)
    if rc != 0:
        report("crash", g, dict(rc=rc, stderr=err[-600:], last=out[-300:]))
        return stats, frames, dumps
    for fid, f in frames.items():
        if f["err"] is None and f["rt"] != 1:
            report("rt", g, dict(fid=fid, frame=f))
    ref = None
    bigref = None
    copyref = None
    for fid, label, cls, info in g.variants:
        f = frames.get(fid)
        if f is None:
            report("crash", g, dict(rc=rc, missing_fid=fid, label=label))
            continue
        if label == "ref":
            ref = f
            if f["err"] is None and f.get("sc", -2) == 1:
                report("differ", g, dict(label=label, info=info, what="the reference (capacities <= 63) took the e_end shortcut"))
            continue
        if ref is None:
            continue
        if info.get("ctx") == "static" and ref["err"] is None and (
                (f["err"] or "").startswith("Allocation error") or f["nerr"] != ref["nerr"]):
            stats["skipped"] += 1       # static memory too small / a call that needs malloc: not the same call sequence
            continue
        base = ref
        if cls == "copy":
            if copyref is None:
                copyref = f
                if getattr(g.t, "chk", 0) or (getattr(g.t, "pledge", 0) and not getattr(g.t, "cs", 1)):
                    continue        # ZSTD_copyCCtx rebuilt the frame parameters: another header / no checksum than the direct run
            else:
                base = copyref
        if f["err"] is None and ref["err"] is None and f["sc"] == 1:
            # the ZSTD_e_end shortcut ran ZSTD_compressEnd on the caller's buffer (known finding when bytes differ).
            # Capacities that are ALWAYS sufficient take it at a point fixed by the pieces: strict among themselves.
            if not same_frame(f, ref):
                stats["shortcut_diff"] += 1
                g.shortcut_witness = dict(label=label, info=info, ref=strip(ref), got=strip(f))
            if cls != "big":
                stats["direct_unclassified"] = stats.get("direct_unclassified", 0) + 1
                continue
            if bigref is None:
                bigref = f
                continue
            base = bigref
        stats["compared"] += 1
        if same_frame(f, base):
            stats["equal"] += 1
            if f["err"] is not None:
                stats["trivial"] += 1
        else:
            report("differ", g, dict(label=label, info=info, ref=strip(base), got=strip(f)))
    return stats, frames, dumps


def same_frame(f, r):
    return (f["err"] == r["err"]) and f["nerr"] == r["nerr"] and (
        f["err"] is not None or (f["size"], f["hash"]) == (r["size"], r["hash"]))


def strip(f):
    return {k: v for k, v in f.items() if k not in ("hex", "jobs", "dumps", "dump", "pobs")}


# --------------------------------------------------------------------------------------------
# lock-step of the extracted models against the real structs

class Model:
    def __init__(self):
        self.exe = core.build_extracted("c07model", "Extract/Extract_C07.v", "c07_driver.ml")

    def run(self, cases):
        """cases: list of (opcode, [ints]) -> list of [ints]"""
        if not cases:
            return []
        inp = "\n".join("%d %s" % (op, " ".join(str(int(a)) for a in args)) for op, args in cases) + "\n"
        chunks = max(1, min(core.NCPU, len(cases) // 50))
        lines = inp.split("\n")[:-1]
        parts = [lines[i::chunks] for i in range(chunks)]

        def one(ls):
            p = subprocess.run([self.exe], input=("\n".join(ls) + "\n").encode(), stdout=subprocess.PIPE, stderr=subprocess.PIPE, timeout=900)
            if p.returncode != 0:
                raise RuntimeError("extracted model crashed: " + p.stderr.decode()[-500:])
            return [[int(x) for x in l.split()] for l in p.stdout.decode().split("\n")[:len(ls)]]
        with ThreadPoolExecutor(chunks) as ex:
            res = list(ex.map(one, parts))
        out = [None] * len(lines)
        for k, r in enumerate(res):
            for j, v in enumerate(r):
                out[k + j * chunks] = v
        return out


ALIGN = 64


def dict_modes(ctx, model, per_group, report):
    """attach / copy / load of a CDict when a frame starts: Det/DictMode.dict_mode on the CDict, the applied parameters
    and the pledged size read from the real structs, against what the context shows (dictMatchState set <=> attach;
    copy => the applied table parameters are the CDict's).  Returns {id(dump): mode}."""
    cases, idx = [], []
    for g, dumps, frames in per_group:
        for d in dumps:
            if d["why"] in ("first0", "begin") and d["init"] and d.get("nbw", 0) == 0 and d.get("cd", 0) and "cdsz" in d:
                cases.append((12, [d["cdsz"], d["cdlvl"], d["cdstrat"], d["cddds"], d["pledged"], d["adp"], d["fw"]]))
                idx.append((g, d))
    modes = {}
    if K_SEEN:
        exp = model.run([(11, [0])])[0]
        ctx.cov["traces_validated_against_impl"] += 1
        ctx.count(("dictmode-consts", exp == K_SEEN[0]), nontrivial=True)
        if exp != K_SEEN[0]:
            report("lockstep", per_group[0][0] if per_group else None,
                   dict(model="DictMode constants (srcsize cutoff, multiplier, attachDictSizeCutoffs, attach preferences)", predicted=exp, observed=K_SEEN[0]))
    for (g, d), r in zip(idx, model.run(cases)):
        m = r[0]
        modes[id(d)] = m
        obs_attach = d["dms"] == 1
        ok = (m == 1) == obs_attach and (m != 2 or (d["cdsame"] == 1 and d["lde"] != 0))
        ctx.cov["traces_validated_against_impl"] += 1
        ctx.count(("dictmode", m, d["adp"], d["pledged"] < 0, d["cddds"], ok), nontrivial=True)
        if not ok:
            report("lockstep", g, dict(model="DictMode.dict_mode (0 load, 1 attach, 2 copy)", predicted=m,
                                       observed=dict(dictMatchState=d["dms"], tables_like_cdict=d["cdsame"], loadedDictEnd=d["lde"]), dump=d))
    return modes


def lockstep_cases(g, dumps, frames, modes=None):
    """(cases, checks): model cases for this group and how to compare their answers.
    A 'first' (streaming call with no input yet) or 'begin' (ZSTD_compressBegin_advanced) dump shows the context right
    after ZSTD_resetCCtx_internal (+ dictionary loading); the dump before it on the same context is the history."""
    cases, checks, direct = [], [], []
    last = {}
    for d in dumps:
        c = d["ctx"]
        prev = last.get(c)
        last[c] = d
        if d["init"] and d.get("tb", 0) != 0:
            direct.append(("tb", d))           # invariant I of the reset theorem, observed on the real tables
        if d["why"] not in ("first0", "begin") or not d["init"] or d.get("nbw", 0) != 0:
            continue
        if prev is None:
            continue
        nodict = d["lde"] == 0 and d["dms"] == 0 and d["idx"] == d["dl"] and d["idx"] == d["ll"] and d["stage"] == 1
        # a dictionary (prefix / loaded / CDict) has been inserted after the reset: the window has moved on; only the
        # salt and the workspace are predicted then
        resized = (not d["static"]) and d["osd"] == 0
        pinit = prev["init"]
        # tables (and, for a row-based CDict, tags and salt) copied from a CDict after the reset
        cdcopy = 1 if (modes or {}).get(id(d)) == 2 else 0
        a1 = [pinit, prev.get("idx", 0), prev.get("ll", 0), prev.get("dl", 0), prev.get("ntu", 0), prev.get("lde", 0),
              prev.get("dms", 0), prev.get("lls", 0), prev.get("salt", 0), prev.get("ent", 0), 0, 1 if resized else 0, d["row"], cdcopy]
        cases.append((1, a1))
        checks.append(("reset", d, prev, nodict))
        if nodict and d.get("reach", 0) != 0:
            direct.append(("reach", d))        # conclusion of the reset theorem, observed on the real tables
        # workspace pointers
        t1 = 4 << d["hl"]
        t2 = (4 << d["cl"]) if d["chain"] else 0
        t3 = (4 << d["h3"]) if d["h3"] else 0
        tag = (1 << d["hl"]) if d["row"] else 0
        taga = (tag + ALIGN - 1) // ALIGN * ALIGN
        end_abs = d["ws"] + d["wsz"]
        ias = end_abs - end_abs % ALIGN
        top = ias - taga - (d["ws"] + d["as"])
        if top < 0 or not nodict:
            continue        # CDict attach / copy paths re-mark the tables themselves: outside this lock-step
        # doReset is an input of the workspace sequence: take the model's own prediction (filled in later)
        a2 = [prev["ws"], prev["wsz"], prev["oe"], prev["te"], prev["tve"], prev["as"], prev["ios"], prev["ph"],
              1 if resized else 0, d["ws"], d["wsz"], 0, None, t1, t2, t3, tag, top]
        cases.append((2, a2))
        checks.append(("cwksp", d, prev, len(cases) - 2))
    return cases, checks, direct


def run_lockstep(ctx, model, per_group, report):
    """per_group: list of (g, dumps, frames)"""
    allcases, index = [], []
    modes = dict_modes(ctx, model, per_group, report)
    for g, dumps, frames in per_group:
        cases, checks, direct = lockstep_cases(g, dumps, frames, modes)
        for kind, d in direct:
            report("observer", g, dict(kind=kind, dump=d,
                                       what="table entry >= index of nextSrc (invariant I)" if kind == "tb" else
                                       "table entry >= lowLimit right after a reset (reachable stale entry)"))
        for cs, ch in zip(cases, checks):
            allcases.append(cs)
            index.append((g, ch))
    # pass 1: reset predictions (opcode 1); pass 2: workspace with the predicted index-reset flag
    r1 = model.run([c for c in allcases if c[0] == 1])
    it = iter(r1)
    pred1 = {}
    for i, c in enumerate(allcases):
        if c[0] == 1:
            pred1[i] = next(it)
    second = []
    for i, c in enumerate(allcases):
        if c[0] == 2:
            c[1][12] = pred1[i - 1][0]
            second.append(c)
    r2 = model.run(second)
    it2 = iter(r2)
    n_ok = 0
    for i, (c, (g, ch)) in enumerate(zip(allcases, index)):
        if c[0] == 1:
            p = pred1[i]
            kind, d, prev, nodict = ch
            obs_reset = 1 if (nodict and d["idx"] == 2 and (prev.get("idx", 0) != 2 or not prev["init"])) else None
            exp = dict(doReset=p[0], idx=p[1], ll=p[2], dl=p[3], ntu=p[4], lde=p[5], dms=p[6], lls=p[7], salt=p[8])
            bad = {}
            if nodict:
                for k in ("idx", "ll", "dl", "ntu", "lde", "dms", "lls"):
                    if d[k] != exp[k]:
                        bad[k] = (exp[k], d[k])
            else:
                if d["lls"] != 0:
                    bad["lls"] = (0, d["lls"])
            if d["salt"] != exp["salt"]:
                bad["salt"] = (exp["salt"], d["salt"])
            ctx.count(("lockstep-reset", exp["doReset"], nodict, d["row"], prev["init"], d["static"], not bad), nontrivial=bool(prev["init"]))
            ctx.cov["traces_validated_against_impl"] += 1
            if bad:
                report("lockstep", g, dict(model="ResetModel.reset", mismatch=bad, before=prev, after=d, predicted=exp))
            else:
                n_ok += 1
        else:
            p = next(it2)
            kind, d, prev, _ = ch
            obs = [d["oe"], d["te"], d["tve"], d["as"], d["ios"], d["ph"], d["af"]]
            ctx.count(("lockstep-cwksp", c[1][8], c[1][12], d["row"], d["tve"] == d["te"], d["tve"] < d["te"], obs == p), nontrivial=True)
            ctx.cov["traces_validated_against_impl"] += 1
            if obs != p:
                report("lockstep", g, dict(model="CwkspClean.reset_ops", predicted=p, observed=obs, before=prev, after=d, args=c[1]))
            else:
                n_ok += 1
    return n_ok


def extra_lockstep(ctx, model, per_group, report):
    """lock-step of the models added in the continuation round:
       Det/BlockState (ZSTD_reset_compressedBlockState, LDM reset) right after ZSTD_resetCCtx_internal without dictionary,
       Det/StreamPartition (chunks handed to the block compressor) after every input piece of every streaming frame."""
    cases, idx = [], []
    for g, dumps, frames in per_group:
        last = {}
        for d in dumps:
            c = d["ctx"]
            prev = last.get(c)
            last[c] = d
            if d["why"] not in ("first0", "begin") or not d["init"] or d.get("nbw", 0) != 0 or prev is None or "rep0" not in d:
                continue
            nodict = d["lde"] == 0 and d["dms"] == 0 and d["idx"] == d["dl"] and d["idx"] == d["ll"] and d["stage"] == 1
            if not nodict:
                continue
            cases.append((9, [prev.get(k, 0) for k in ("rep0", "rep1", "rep2", "hr", "ofr", "mlr", "llr")]))
            idx.append(("bs", g, d, prev))
            if d.get("ldm") and "ldmnz" in d:
                cases.append((10, [prev.get(k, 0) for k in ("ldmidx", "ldmll", "ldmdl", "ldmlde")]))
                idx.append(("ldm", g, d, prev))
        if g.t.api != "stream":
            continue
        for fid, label, cls, info in g.variants:
            f = frames.get(fid)
            if not f or f["err"] is not None or not f.get("pobs") or not f.get("dump"):
                continue
            dd = f["dump"]
            if dd.get("nbw", 0) != 0 or "bs" not in dd:
                continue
            pcs = info.get("pieces") or g.t.pieces
            if f["sc"] == 1 and len(pcs) != 1:
                continue        # the shortcut ran somewhere inside a longer call sequence: classified by observation only
            pledged = g.t.src[1] if g.t.pledge else (pcs[0][0] if pcs[0][1] == 2 else None)
            bs = dd["bs"]
            t0 = bs + (1 if pledged == bs else 0)
            cases.append((8, [bs, dd["ibs"], t0, 1 if f["sc"] == 1 else 0] + [x for pc in pcs for x in pc]))
            idx.append(("sp", g, (label, info, f, pcs), None))
    res = model.run(cases)
    n_ok = 0
    for (kind, g, a, b), r in zip(idx, res):
        ctx.cov["traces_validated_against_impl"] += 1
        if kind == "bs":
            obs = [a[k] for k in ("rep0", "rep1", "rep2", "hr", "ofr", "mlr", "llr")]
            ok = obs == r
            ctx.count(("lockstep-blockstate", tuple(b.get(k, 0) for k in ("hr", "ofr", "mlr", "llr")), ok), nontrivial=bool(b["init"]))
            if not ok:
                report("lockstep", g, dict(model="BlockState.reset_cbstate (rep0 rep1 rep2 huf of ml ll)", predicted=r, observed=obs, before=b, after=a))
        elif kind == "ldm":
            obs = [a["ldmidx"], a["ldmll"], a["ldmdl"], a["ldmlde"], a["ldmnz"]]
            ok = obs == r
            ctx.count(("lockstep-ldm", b.get("ldmnz", 0) > 0, ok), nontrivial=True)
            if not ok:
                report("lockstep", g, dict(model="BlockState.reset_ldm (end low dict loadedDictEnd nonzero-table-bytes)", predicted=r, observed=obs, before=b, after=a))
        else:
            label, info, f, pcs = a
            bad = None
            if r == [-1] or len(r) != 2 * len(pcs) + 3:
                bad = dict(what="the model does not complete this call sequence", model_out=r[:20])
            else:
                for k, po in enumerate(f["pobs"][:len(pcs)]):
                    exp = (r[2 * k], r[2 * k + 1])
                    got = (po[2], po[3] - po[4])
                    if exp != got:
                        bad = dict(piece=k, predicted=dict(consumed=exp[0], buffered=exp[1]), observed=dict(consumed=got[0], buffered=got[1]))
                        break
                nch, lastsz, lastflag = r[-3:]
                if bad is None and (lastflag != 1 or f["lastempty"] != (1 if lastsz == 0 else 0) or f["nblk"] < nch):
                    bad = dict(predicted=dict(chunks=nch, last_chunk=lastsz, last=lastflag), observed=dict(blocks=f["nblk"], last_block_empty=f["lastempty"]))
            ctx.count(("lockstep-stream", min(len(pcs), 6), f["sc"], f["lastempty"], any(d == 1 for _, d in pcs), bad is None), nontrivial=len(pcs) > 1)
            if bad:
                report("lockstep", g, dict(model="StreamPartition.s_run (chunks handed to the block compressor)", label=label, info=info,
                                           pieces=pcs[:12], detail=bad))
        if kind != "sp" and ok:
            n_ok += 1
        elif kind == "sp" and not bad:
            n_ok += 1
    return n_ok



def r2_lockstep(ctx, model, results, report, rng):
    """round 2: (a) every API call of every non-MT script against Det/ApiState.v (accepted, stage, localDict.dict,
    localDict.cdict, cctx->cdict, prefixDict.dict, collectSequences after the call); (b) the capacity sweeps against
    RawFallback.emit_block (shape E* R* =*: the raw window starts exactly at header + 3 + srcSize; its end is the one fitted
    quantity); (c) ZSTD_minGain; (d) the window of the placement groups against Window.window_update"""
    cases, meta = [], []
    n_env = 0
    for g, res in results:
        if getattr(g, "mt", False):
            continue
        rc, out, err, script = res
        cur = {}        # ctx -> (ops, observed)

        def flush(c):
            ops, obs = cur.pop(c, ([], []))
            if ops:
                cases.append((13, [x for o in ops for x in o]))
                meta.append(("api", g, c, ops, obs))
        for l in out.split("\n"):
            t = l.split(" ")
            if t[0] == "S" and len(t) == 13:
                try:
                    v = [int(x) for x in t[1:]]
                except ValueError:
                    continue
                c, code, a, b, okc = v[0], v[1], v[2], v[3], v[4]
                st = v[5:12]
                if code == 0:
                    flush(c)
                    cur[c] = ([], [])
                    cur[c][1].append(None)        # placeholder: state right after creation
                    cur[c][1].pop()
                    continue
                if c not in cur:
                    continue                      # unsynced after a failed frame
                if code == 20:
                    flush(c)
                    continue
                ops, obs = cur[c]
                if not okc and code in (1, 2, 3):
                    # a refusal for a reason outside the model (bounds, static memory) while the stage would allow the call:
                    # not part of the API-state history
                    prev = obs[-1][1] if obs else [0, 0, 0, 0, 0, 0, 0]
                    if prev[0] == 0 and not (code == 2 and prev[3] == 1):
                        n_env += 1
                        continue
                ops.append((code, a, b))
                obs.append((okc, st))
            elif t[0] == "W" and len(t) >= 12 and t[11] != "-":
                o, ln, r0, nerr, ndiff, fcap, fsize, nraw, hsz, strat = (int(x) for x in t[1:11])
                cls = t[11]
                ovh = hsz + 3
                if "X" in cls:
                    continue            # reported by judge_wsweep
                ref_raw = (r0 == ovh + ln)
                csize = ln if ref_raw else r0 - ovh
                if "=" not in cls:
                    continue
                need = cls.index("=") + r0 - ovh
                for k, ch in enumerate(cls):
                    cases.append((14, [csize, need, ln, strat, r0 + k - hsz]))
                    meta.append(("emit", g, (o, ln, r0, k, ch, ref_raw), None, None))
        for c in list(cur):
            flush(c)
        if getattr(g, "contig_geom", None):
            fr0 = parse_output(out)[0]
            for fid, n, m, adj, force in g.contig_geom:
                d = (fr0.get(fid) or {}).get("dump")
                if d is None or n < 8 or m == 0:
                    continue
                D = 5000
                S = D + n if adj else D + n + 100000
                cases.append((16, [100, D, n, S, m, force]))
                meta.append(("geom", g, (fid, n, m, adj, force, [d["dl"], d["ll"], d["idx"]]), None, None))
    # ZSTD_minGain: the grid every harness process prints at start (taken from the first result)
    for g, res in results[:1]:
        for l in res[1].split("\n"):
            t = l.split(" ")
            if t[0] == "M" and len(t) == 4:
                cases.append((15, [int(t[1]), int(t[2])]))
                meta.append(("mingain", g, (int(t[1]), int(t[2]), int(t[3])), None, None))
    rs = model.run(cases)
    n_ok = 0
    for (kind, g, c, ops, obs), r in zip(meta, rs):
        ctx.cov["traces_validated_against_impl"] += 1
        if kind == "api":
            bad = None
            if len(r) != 8 * len(ops):
                bad = dict(what="model output length", got=len(r), ops=len(ops))
            else:
                for i, (okc, st) in enumerate(obs):
                    pr = r[8 * i:8 * i + 8]
                    if st[0] < 0:
                        continue
                    if pr != [okc] + st:
                        bad = dict(call=i, op=ops[i], predicted=pr, observed=[okc] + st, ops=ops[max(0, i - 6):i + 1])
                        break
            ctx.count(("lockstep-api", min(len(ops), 12), tuple(sorted(set(o[0] for o in ops))), bad is None), nontrivial=len(ops) > 3)
            if bad:
                report("lockstep", g, dict(model="ApiState.astep (accepted stage ldict lcdict cdict prefix collect buffered)", ctx=c, detail=bad))
            else:
                n_ok += 1
        elif kind == "mingain":
            ok = r == [c[2]]
            ctx.count(("lockstep-mingain", c[1], ok), nontrivial=True)
            if not ok:
                report("lockstep", g, dict(model="RawFallback.minGain", srcSize=c[0], strategy=c[1], predicted=r, observed=c[2]))
            else:
                n_ok += 1
        elif kind == "geom":
            fid, n, m, adj, force, obs3 = c
            pred = [r[0], r[1], r[4]]
            ok = pred == obs3
            ctx.count(("lockstep-window-placement", adj, force, ok), nontrivial=True)
            if not ok:
                report("lockstep", g, dict(model="Window.window_update: dictLimit lowLimit end-index after prefix + input", fid=fid,
                                           prefix=n, input=m, adjacent=adj, forced=force, predicted=pred, observed=obs3))
            else:
                n_ok += 1
        else:
            o, ln, r0, k, ch, ref_raw = c
            want = {"E": 0, "R": 1, "=": 1 if ref_raw else 2}[ch]
            ok = (r[0] == want)
            ctx.count(("lockstep-emit", ch, ref_raw, ok), nontrivial=True)
            if not ok:
                report("lockstep", g, dict(model="RawFallback.emit_block (0 refused, 1 raw, 2 compressed)", input=(o, ln), capacity=r0 + k,
                                           predicted=r, observed=ch))
            else:
                n_ok += 1
    ctx.notes["r2_env_refusals"] = n_env
    return n_ok

def mt_checks(ctx, model, g, frames, dumps, report):
    """MT groups: job lists of all variants against each other and against the model's never-blocking schedule"""
    t = g.t
    pieces = t.pieces if t.api == "stream" else [(t.src[1], 2)]
    vs = [(fid, label, info, frames.get(fid)) for fid, label, cls, info in g.variants]
    vs = [v for v in vs if v[3] is not None and v[3]["err"] is None]
    if not vs:
        return
    # target section size from the dump of each variant's context
    mtd = [f["dump"] for fid, label, info, f in vs if f.get("dump") and f["dump"].get("mt")]
    cases = []
    for d in mtd:
        js = t.params.get("jobSize", 0)
        if js:
            js = max(js, 512 << 10)
        cases.append((4, [js, d["wl"], d["cl"], d["strat"], d["ldm"], t.params.get("overlapLog", 0)]))
    rs = model.run(cases)
    tss = None
    for d, r in zip(mtd, rs):
        ctx.cov["traces_validated_against_impl"] += 1
        ctx.count(("mt-target", d["nbw"], d["ldm"], d["strat"], r == [d["tss"], d["tps"]]), nontrivial=True)
        if r != [d["tss"], d["tps"]]:
            report("lockstep", g, dict(model="MtPartition.targetSectionSize", predicted=r, observed=[d["tss"], d["tps"]], dump=d))
        tss = d["tss"]
        tps = d["tps"]
    ref = vs[0][3]
    refjobs = [(j[1], j[3], j[4]) for j in ref["jobs"]]
    ideal = None
    if tss and not t.params.get("rsyncable"):
        flat = []
        for n, dr in pieces:
            flat += [n, dr]
        r = model.run([(5, [tss, tps] + flat)])[0]
        ideal = [tuple(r[i:i + 4]) for i in range(0, len(r) - 3, 4)]
        ideal_posted = [(s, f, l) for s, p, f, l in ideal if not (s == 0 and not f)]   # the empty last job is not posted
    for fid, label, info, f in vs:
        jobs = [(j[1], j[3], j[4]) for j in f["jobs"]]
        sizes = [j[0] for j in jobs if j[0] > 0]
        ctx.count(("mt-jobs", info.get("w"), len(jobs), info.get("mtfail", 0) > 0, info.get("jitter", 0) > 0), nontrivial=len(jobs) > 1)
        if ideal is not None:
            ctx.cov["traces_validated_against_impl"] += 1
            if sizes != [s for s, p, fi, l in ideal if s > 0]:
                report("lockstep", g, dict(model="MtPartition.run_ops (job sizes)", predicted=ideal, observed=f["jobs"], label=label, info=info))
                continue
            # prefix sizes of the jobs after the first
            obs_pref = [j[2] for j in f["jobs"]][1:]
            exp_pref = [p for s, p, fi, l in ideal if not (s == 0 and not fi)][1:len(obs_pref) + 1]
            if obs_pref != exp_pref[:len(obs_pref)]:
                report("lockstep", g, dict(model="MtPartition (prefix sizes)", predicted=ideal, observed=f["jobs"], label=label))
        if [j[0] for j in jobs if j[0] > 0] != [j[0] for j in refjobs if j[0] > 0]:
            report("differ", g, dict(what="job boundaries depend on the execution", label=label, info=info, ref=ref["jobs"], got=f["jobs"]))
        elif jobs != refjobs and same_frame(f, ref):
            pass
    return


def judge_mt_group(g, res, report, known):
    """job-list aware comparison: bytes must agree whenever the (size,last) lists agree"""
    rc, out, err, script = res
    frames, dumps, errs = parse_output(out)
    stats = dict(compared=0, equal=0, trivial=0, skipped=0, frames=len(frames), shortcut_diff=0, lastflag_diff=0)
    if rc != 0:
        report("crash", g, dict(rc=rc, stderr=err[-600:], last=out[-300:]))
        return stats, frames, dumps
    for fid, f in frames.items():
        if f["err"] is None and f["rt"] != 1:
            report("rt", g, dict(fid=fid, frame=strip(f)))
    classes = {}
    ref = None
    for fid, label, cls, info in g.variants:
        f = frames.get(fid)
        if f is None:
            report("crash", g, dict(rc=rc, missing_fid=fid, label=label))
            continue
        key = None if f["err"] is not None else tuple((j[1], j[4]) for j in f["jobs"])
        if ref is None:
            ref = (f, key)
            classes[key] = f
            continue
        stats["compared"] += 1
        if f["err"] != ref[0]["err"] or f["nerr"] != ref[0]["nerr"]:
            report("differ", g, dict(label=label, info=info, ref=strip(ref[0]), got=strip(f)))
            continue
        if key == ref[1]:
            if same_frame(f, ref[0]):
                stats["equal"] += 1
            else:
                report("differ", g, dict(label=label, info=info, ref=strip(ref[0]), got=strip(f), jobs=f["jobs"]))
            continue
        # job lists differ: sizes must still agree; a difference limited to the last flag of the final data job is
        # the documented finding
        s1 = [j[0] for j in key if j[0] > 0]
        s0 = [j[0] for j in ref[1] if j[0] > 0]
        if s1 != s0:
            report("differ", g, dict(what="job boundaries depend on the execution", label=label, info=info, ref=ref[0]["jobs"], got=f["jobs"]))
            continue
        base = classes.setdefault(key, f)
        if base is not f and not same_frame(f, base):
            report("differ", g, dict(label=label, info=info, ref=strip(base), got=strip(f), jobs=f["jobs"]))
            continue
        stats["equal"] += 1
        stats["lastflag_diff"] += 1
        known(KEY_MTLAST, g, dict(label=label, info=info, ref_jobs=ref[0]["jobs"], got_jobs=f["jobs"], ref=strip(ref[0]), got=strip(f)))
    return stats, frames, dumps


KEY_MTLAST = "mt-jobtable-full-last-job"


# --------------------------------------------------------------------------------------------
# tie (3): ZSTD_rescaleFreqs and the salted hash, real code vs model

def opt_and_hash_tie(ctx, model, rng, report_simple, scratch, inputs, blob):
    exe = core.build_harness("c07_opt", ["c07_opt.c"], extra_flags=["-w"])
    # a dictionary trained on the run's own text, so that its entropy tables respect the asserted cost bounds
    tpath = os.path.join(scratch, "train.bin")
    base = [i for i in inputs if i[2] == "text300k"][0]
    with open(tpath, "wb") as f:
        f.write(bytes(blob.b[base[0]:base[0] + base[1]]))
    lines = ["consts", "train " + tpath]
    cases = []
    n = 60 if ctx.quick else 400

    def rtab(k, mode):
        if mode == 0:
            return [0] * k
        if mode == 1:
            return [rng.randint(0, 3) for _ in range(k)]
        if mode == 2:
            return [rng.randint(0, 100000) for _ in range(k)]
        return [rng.choice([0, 1, 7, 4095, 4096, 1 << 20, (1 << 32) - 1 >> rng.randint(8, 20)]) for _ in range(k)]
    for i in range(n):
        cl = rng.randint(0, 1)
        lvl = rng.choice([0, 2])
        hasd = 1 if rng.random() < 0.3 else 0
        lls = 0 if rng.random() < 0.6 else rng.choice([1, 40, 5000, 1 << 20])
        src = rng.choice(inputs)
        ns = min(src[1], rng.choice([0, 1, 8, 9, 100, 5000]))
        sb = list(blob.b[src[0]:src[0] + ns])
        mode = rng.randint(0, 3)
        tabs = rtab(256, mode) + rtab(36, mode) + rtab(53, mode) + rtab(32, mode)
        cases.append((cl, lvl, hasd, lls, sb, tabs))
        lines.append("R %d %d %d %d %d %s %s" % (cl, lvl, hasd, lls, len(sb), " ".join(map(str, sb)), " ".join(map(str, tabs))))
    hcases = []
    for i in range(200 if ctx.quick else 2000):
        mls = rng.choice([4, 5, 6, 7, 8])
        hb = rng.randint(8, 32)
        salt = rng.choice([0, 1, rng.getrandbits(64), rng.getrandbits(32), (1 << 64) - 1])
        b = [rng.randrange(256) for _ in range(8)]
        hcases.append((mls, hb, salt, b))
        lines.append("H %d %d %d %s" % (mls, hb, salt, " ".join(map(str, b))))
    p = subprocess.run([exe], input=("\n".join(lines) + "\n").encode(), stdout=subprocess.PIPE, stderr=subprocess.PIPE, timeout=600)
    if p.returncode != 0:
        report_simple("crash", dict(harness="c07_opt", rc=p.returncode, stderr=p.stderr.decode()[-500:]))
        return
    out = p.stdout.decode().split("\n")
    k = [int(x) for x in out[0].split()[1:]]
    # the constants the model hard-codes because they are macros local to zstd_opt.c
    if k != [255, 35, 52, 31, 8, 8]:
        report_simple("lockstep", dict(model="OptStats constants (MaxLit MaxLL MaxML MaxOff PREDEF_THRESHOLD BITCOST_ACCURACY)",
                                       predicted=[255, 35, 52, 31, 8, 8], observed=k))
    c = out[1].split()
    dict_ok = c[1] == "1"
    costs = [int(x) for x in c[2:]] if dict_ok else []
    mcases = []
    robs = []
    li = 2
    for cl, lvl, hasd, lls, sb, tabs in cases:
        o = [int(x) for x in out[li].split()[1:]]
        li += 1
        hd = 1 if (hasd and dict_ok) else 0
        mcases.append((6, [cl, lvl, hd, lls, len(sb)] + sb + tabs + (costs if hd else [])))
        robs.append((cl, lvl, hd, lls, len(sb), o))
    hobs = []
    for mls, hb, salt, b in hcases:
        t = out[li].split()
        li += 1
        w, mixed, h = int(t[1]), int(t[2]), int(t[3])
        mcases.append((7, [w, hb, mixed, salt if w == 64 else salt & 0xFFFFFFFF]))
        hobs.append((mls, hb, salt, w, mixed, h))
    res = model.run(mcases)
    for (cl, lvl, hd, lls, ns, o), r in zip(robs, res[:len(robs)]):
        ctx.cov["traces_validated_against_impl"] += 1
        exp, got = list(r), list(o)
        if not cl:      # literal statistics are neither written nor read
            exp = exp[256:377] + exp[378:381] + exp[382:]
            got = got[256:377] + got[378:381] + got[382:]
        ok = exp == got
        ctx.count(("opt", cl, lvl, hd, lls == 0, ns <= 8, ok), nontrivial=True)
        if not ok:
            bad = [i for i in range(min(len(exp), len(got))) if exp[i] != got[i]][:8]
            report_simple("lockstep", dict(model="OptStats.rescaleFreqs", args=dict(cl=cl, lvl=lvl, dict=hd, litLengthSum=lls, nsrc=ns),
                                           first_bad_fields=bad, predicted=[exp[i] for i in bad], observed=[got[i] for i in bad]))
    for (mls, hb, salt, w, mixed, h), r in zip(hobs, res[len(robs):]):
        ctx.cov["traces_validated_against_impl"] += 1
        row, tag, row0, tag0, srow, stag = r
        ok = (row << 8 | tag) == h and row == row0 ^ srow and tag == tag0 ^ stag
        ctx.count(("hash", mls, hb >= 24, salt == 0, ok), nontrivial=salt != 0)
        if not ok:
            report_simple("lockstep", dict(model="RowSalt.hashS", mls=mls, hBits=hb, salt=salt, mixed=mixed, observed=h, predicted=(row << 8 | tag)))


# --------------------------------------------------------------------------------------------
# the deterministic corpus cases of the two documented findings

def finding_groups(rng, gid0, inputs, bigs, blob):
    gs = []
    t300 = [i for i in inputs if i[2] == "text300k"][0]
    # (1) e_end shortcut: one call, all input, ZSTD_e_end; capacity 1000 vs unlimited
    t = Target("stream", t300, params={"level": 3}, pieces=[(t300[1], 2)], bias="finding")
    g = Group(gid0, t)
    g.lines += ["arena 700000", "trace 0", "ctx 0 heapz 0", "ctx 1 heapz 0"]
    g.lines += t.lines(0, 1001, caps=[63], fresh=True)
    g.lines += t.lines(1, 1002, caps=[1 << 30], fresh=True)
    g.variants = [(1001, "ref", "eq", dict(ctx="heapz", caps=[63], hist=[])), (1002, "caps-big1", "big", dict(ctx="heapz", caps=[1 << 30], hist=[]))]
    g.finding = KEY_SHORTCUT
    gs.append(g)
    return gs


def mt_finding_group(gid, bigs, blob_add):
    """five e_continue calls of exactly one section, then e_end without input; nbWorkers=1 (4-entry jobs table),
    output capacity 1 byte per call vs unlimited"""
    sec = 512 << 10
    src = blob_add
    t = Target("stream", src, params={"level": 1, "jobSize": sec, "nbWorkers": 1}, pieces=[(sec, 0)] * 5 + [(0, 2)], bias="finding")
    g = Group(gid, t)
    g.lines += ["arena %d" % (5 * sec + 200000), "trace 1", "ctx 0 heapz 0", "ctx 1 heapz 0"]
    g.lines += t.lines(0, 1001, caps=[1 << 30], fresh=True)
    g.lines += t.lines(1, 1002, caps=[1], fresh=True)
    g.variants = [(1001, "ref", "eq", dict(ctx="heapz", w=1, caps=[1 << 30], hist=["mt"])),
                  (1002, "cap1", "eq", dict(ctx="heapz", w=1, caps=[1], hist=["mt"]))]
    g.mt = True
    g.finding = KEY_MTLAST
    return g



# --------------------------------------------------------------------------------------------
# round 2: scenarios aimed at state / placement / capacity dependences outside the reset machinery

TINY_FIXED = bytes.fromhex("62616163636361616262616163636362636263636163636363616162626261626263636362")


def r2_tiny_inputs(rng, blob, n):
    """inputs of 20..300 bytes whose single block compresses with a small gain (the raw fallback needs cSize close to srcSize)"""
    outs = [blob.add(TINY_FIXED) + (1,)]
    for _ in range(n):
        ln = rng.randint(20, 300)
        kind = rng.randrange(3)
        alpha = rng.randint(2, 40)
        b = bytearray()
        for i in range(ln):
            if kind == 0:
                b.append(rng.randrange(alpha))
            elif kind == 1:
                b.append((i % (3 + alpha)) ^ (1 if rng.randrange(16) == 0 else 0))
            else:
                b.append((97 + rng.randrange(alpha) % 26) if rng.randrange(8) else (b[-1] if b else 97))
        outs.append(blob.add(bytes(b)) + (rng.choice([1, 3, 5, 9, 13, 19]),))
    return outs


def r2_groups(rng, gid0, inputs, dicts, tiny, quick):
    gs = []
    texts = [i for i in inputs if 20000 <= i[1] <= 70000]
    rawd = [d for d in dicts if d[2] == "raw" and d[1] >= 20000]

    def mk(t, key):
        g = Group(gid0 + len(gs), t)
        g.mt = False
        g.r2key = key
        g.lines += ["arena 700000", "trace 0"]
        gs.append(g)
        return g

    # (1) ZSTD_generateSequences, then the target (with and without a reset in between the bug is the same)
    for rep in range(2 if quick else 6):
        src = rng.choice(texts)
        oth = rng.choice(texts)
        t = Target(rng.choice(["c2", "stream", "cctx"]), src, params={"level": rng.choice([1, 3, 6])}, level=3, pieces=[(src[1], 2)], bias="r2-genseq")
        g = mk(t, KEY_GENSEQ)
        g.lines += ["ctx 0 heapz 0", "ctx 1 heap 0"]
        g.lines += t.lines(0, 1001, caps=[63], fresh=True)
        g.lines += ["set 1 %d %d" % (P["level"], rng.choice([1, 3, 5])), "G 1 %d %d" % (oth[0], oth[1])]
        g.lines += t.lines(1, 1002, caps=[63])
        g.variants = [(1001, "ref", "eq", dict(ctx="heapz", hist=[])), (1002, "after-generateSequences", "eq", dict(ctx="heap", hist=["genseq"]))]
    # (2) ZSTD_CCtx_loadDictionary, a frame, a parameter change, the target: the lazily built CDict must follow the parameters
    for rep in range(3 if quick else 10):
        src = rng.choice(texts)
        small = rng.choice([i for i in inputs if 300 <= i[1] <= 10000])
        d = rng.choice(rawd)
        dl = min(d[1], 20000)
        pa, pb = rng.choice([({"level": 1}, {"level": 13}), ({"level": 13}, {"level": 1}), ({"level": 3}, {"level": 9}),
                             ({"level": 6, "hashLog": 8}, {"level": 6, "hashLog": 17}), ({"level": 5, "minMatch": 6}, {"level": 5, "minMatch": 3})])
        byref = rng.randint(0, 1)
        t = Target("c2", src, params=pb, dct=("load", d[0], dl, byref, 0), bias="r2-localdict")
        g = mk(t, KEY_LOCALDICT)
        g.lines += ["ctx 0 heapz 0", "ctx 1 heapz 0"]
        g.lines += t.lines(0, 1001, fresh=True)
        g.lines += ["load 1 %d %d %d 0" % (d[0], dl, byref)]
        g.lines += ["set 1 %d %d" % (P[k], v) for k, v in pa.items()]
        g.lines += ["F 1 1003 %d %d 0 0 0 c2 0" % (small[0], small[1])]
        g.lines += ["set 1 %d %d" % (P[k], v) for k, v in pb.items()]
        g.lines += ["F 1 1002 %d %d 0 0 0 c2 0" % (src[0], src[1])]
        # what the recorded finding predicts for 1002: the bytes of a fresh context that still has the FIRST frame's parameters
        g.lines += ["ctx 2 heapz 0", "load 2 %d %d %d 0" % (d[0], dl, byref)]
        g.lines += ["set 2 %d %d" % (P[k], v) for k, v in pa.items()]
        g.lines += ["F 2 1004 %d %d 0 0 0 c2 0" % (src[0], src[1])]
        g.variants = [(1001, "ref", "eq", dict(ctx="heapz", hist=[])),
                      (1002, "params-changed-after-first-frame", "eq", dict(ctx="heapz", hist=["localdict-frame"], first=pa, then=pb))]
        g.lines[g.lines.index("trace 0")] = "trace 1"
        g.narrow = ("cparams-as", 1002, 1004, 1001)
    # (3) the prefix / dictionary placed right in front of the input
    for rep in range(3 if quick else 10):
        src = rng.choice(texts)
        d = rng.choice(rawd)
        dl = min(d[1], rng.choice([5000, 20000, 30000]))
        lv = rng.choice([4, 13, 16] if src[1] <= 40000 else [4, 13])
        sa0 = rng.choice([0, 64, 4096 + 13])
        if rep % 2 == 0:
            t = Target("c2", src, params={"level": lv}, dct=("prefix", d[0], dl), bias="r2-contig")
            g = mk(t, KEY_CONTIG)
            g.lines += ["ctx 0 heapz 0", "ctx 1 heapz 0", "ctx 2 heapz 0", "ctx 3 heapz 0"]
            g.lines += t.lines(0, 1001, sa=sa0 + dl, fresh=True)
            g.lines += ["set 1 %d %d" % (P["level"], lv), "prefixa 1 %d %d %d" % (d[0], dl, sa0),
                        "F 1 1002 %d %d %d 0 0 c2 0" % (src[0], src[1], sa0 + dl)]
            # with ZSTD_c_deterministicRefPrefix the two placements must agree (strict: no key)
            g.lines += ["set 2 %d %d" % (P["level"], lv), "set 2 %d 1" % P["deterministicRefPrefix"], "prefix 2 %d %d" % (d[0], dl),
                        "F 2 1003 %d %d %d 0 0 c2 0" % (src[0], src[1], sa0 + dl)]
            g.lines += ["set 3 %d %d" % (P["level"], lv), "set 3 %d 1" % P["deterministicRefPrefix"], "prefixa 3 %d %d %d" % (d[0], dl, sa0),
                        "F 3 1004 %d %d %d 0 0 c2 0" % (src[0], src[1], sa0 + dl)]
            g.variants = [(1001, "ref", "eq", dict(ctx="heapz", hist=[])), (1002, "prefix-adjacent", "eq", dict(ctx="heapz", hist=["contig-prefix"]))]
            g.det_pair = (1003, 1004)
            g.narrow = ("same-as", 1001, 1003)      # the non-adjacent placement does not care about the switch
            g.lines[g.lines.index("trace 0")] = "trace 1"
            # (fid, prefix size, input size, adjacent, forced): the window the real context ends with <-> Window.window_update
            g.contig_geom = [(1001, dl, src[1], 0, 0), (1002, dl, src[1], 1, 0), (1003, dl, src[1], 0, 1), (1004, dl, src[1], 1, 1)]
        else:
            t = Target("udict", src, level=lv, dct=("dict", d[0], dl), bias="r2-contig")
            g = mk(t, KEY_CONTIG)
            g.lines += ["ctx 0 heapz 0", "ctx 1 heapz 0"]
            g.lines += t.lines(0, 1001, sa=sa0 + dl)
            g.lines += ["F 1 1002 %d %d %d 0 0 udictc %d %d %d" % (src[0], src[1], sa0 + dl, lv, d[0], dl)]
            g.variants = [(1001, "ref", "eq", dict(ctx="heapz", hist=[])), (1002, "dict-adjacent", "eq", dict(ctx="heapz", hist=["contig-dict"]))]
    # (3b) a dictionary by reference right in front of the input, the frame copies the CDict, the deterministic switch is ON
    for rep in range(8 if quick else 24):
        src = rng.choice(texts)
        d = rng.choice(rawd)
        dl = min(d[1], rng.choice([20000, 30000]))
        lv = rng.choice([3, 4, 4, 13] if src[1] <= 40000 else [3, 4])
        sa0 = rng.choice([0, 64, 4096 + 13])
        pp = {"level": lv, "deterministicRefPrefix": 1, "forceAttachDict": 2}
        t = Target("c2", src, params=pp, dct=("load", d[0], dl, 1, 0), bias="r2-cdref")
        g = mk(t, KEY_CDREF)
        g.lines += ["ctx 0 heapz 0", "ctx 1 heapz 0"]
        g.lines += t.lines(0, 1001, sa=sa0 + dl, fresh=True)
        g.lines += ["set 1 %d %d" % (P[k], v) for k, v in pp.items()]
        g.lines += ["loada 1 %d %d %d" % (d[0], dl, sa0), "F 1 1002 %d %d %d 0 0 c2 0" % (src[0], src[1], sa0 + dl)]
        g.variants = [(1001, "ref", "eq", dict(ctx="heapz", hist=[])), (1002, "byref-dict-adjacent-switch-on", "eq", dict(ctx="heapz", hist=["contig-cdict"]))]
    # (5) random walks over the advanced API (no reset between the calls unless drawn): only the lock-step with
    #     Det/ApiState.v, the round trips and "no crash" are checked - there is no fresh-context counterpart of a walk
    smalls = [i for i in inputs if 300 <= i[1] <= 10000]
    for rep in range(8 if quick else 80):
        src = rng.choice(smalls)
        t = Target("c2", src, params={}, bias="r2-apiwalk")
        g = mk(t, "api-walk")
        g.lines[g.lines.index("trace 0")] = "trace 1"
        d0 = rng.choice(rawd)
        g.lines += ["cdict 0 %d %d %d 1 0" % (d0[0], min(d0[1], 20000), rng.choice([1, 3, 6])), "ctx 0 %s 0" % rng.choice(["heap", "heapz"])]
        fid = 1000
        pending = False         # an abandoned streaming frame is open: a further "stream" frame would continue it
        for i in range(rng.choice([20, 40, 60])):
            r = rng.random()
            x = rng.choice(smalls)
            d = rng.choice(rawd)
            if r < 0.15:
                g.lines.append("set 0 %d %d" % (P["level"], rng.choice([1, 3, 5, 7])))
            elif r < 0.2:
                g.lines.append("setp 0 1 %d %d" % (P["level"], rng.choice([1, 3, 5])))
            elif r < 0.3:
                g.lines.append("load 0 %d %d %d 0" % (d[0], rng.choice([0, 5000, 20000]), rng.randint(0, 1)))
            elif r < 0.38:
                g.lines.append("refcdict 0 %d" % rng.choice([0, 0, -1]))
            elif r < 0.48:
                g.lines.append("prefix 0 %d %d" % (d[0], rng.choice([0, 3000, 20000])))
            elif r < 0.58:
                k = rng.choice([1, 1, 2, 3])
                g.lines.append("reset 0 %d" % k)
                if k != 2:
                    pending = False
            elif r < 0.7:
                fid += 1
                g.lines.append("F 0 %d %d %d 0 0 0 c2 0" % (fid, x[0], x[1]))
                pending = False
            elif r < 0.8:
                fid += 1
                k = rng.randint(1, x[1])
                if pending:
                    g.lines.append("reset 0 1")
                    pending = False
                g.lines.append("F 0 %d %d %d 0 0 0 stream 0 2 %d %d %d 2 1 %d" % (fid, x[0], x[1], k, rng.randint(0, 1), x[1] - k, rng.choice([1 << 30, 200])))
            elif r < 0.86:
                g.lines.append("A 0 %d %d %d" % (x[0], rng.randint(1, x[1]), rng.randint(0, 1)))
                pending = True
            elif r < 0.93:
                fid += 1
                if pending:
                    # a one-shot call re-initialises the internals under an open streaming frame; continuing that frame
                    # afterwards is a misuse (it dereferences the released input buffer): the walk closes the session first
                    g.lines.append("reset 0 1")
                    pending = False
                g.lines.append("F 0 %d %d %d 0 0 0 cctx %d 0" % (fid, x[0], x[1], rng.choice([1, 3])))
            else:
                g.lines.append("G 0 %d %d" % (x[0], x[1]))
                pending = False
    # (6) buffer-less Begin with a dictionary + ZSTD_copyCCtx, row-based strategies (levels 5..12 resolve to them)
    for rep in range(4 if quick else 40):
        src = rng.choice(texts)
        d = rng.choice(rawd)
        dl = min(d[1], rng.choice([5000, 20000]))
        st = rng.choice([3, 4, 5])
        cp = (rng.choice([15, 16, 17, 18]), rng.choice([12, 14, 16]), rng.choice([12, 14, 16, 17]), rng.choice([4, 5, 6]), rng.choice([4, 5]), 0, st)
        t = Target("bl", src, cparams=cp, chk=rng.randint(0, 1), cs=1, pledge=rng.randint(0, 1), chunk=rng.choice([0, 4096, 50000]),
                   dct=("dict", d[0], dl), bias="r2-copyrow")
        g = build_group(rng, gid0 + len(gs), t, inputs, dicts, trace=True)
        g.mt = False
        gs.append(g)
    # (7) ZSTD_copyCCtx into a destination that still carries sticky advanced parameters of its own
    for rep in range(2 if quick else 8):
        src = rng.choice(texts)
        small = rng.choice([i for i in inputs if 300 <= i[1] <= 10000])
        d = rng.choice(rawd)
        dl = min(d[1], 20000)
        cp = (17, 14, 15, 4, 5, 0, rng.choice([2, 3, 4, 5]))
        t = Target("bl", src, cparams=cp, chk=0, cs=1, pledge=1, chunk=0, dct=("dict", d[0], dl), bias="r2-copyparams")
        g = mk(t, KEY_COPYPARAMS)
        g.lines += ["ctx 0 heapz 0", "ctx 1 heapz 0", "ctx 2 heapz 0", "ctx 3 heap 0"]
        g.lines += t.lines(0, 1001, copy_to=1)
        k, v = rng.choice([("targetCBlockSize", 1340), ("literalMode", 2)])
        g.lines += ["set 3 %d %d" % (P[k], v), "F 3 1003 %d %d 0 0 0 c2 0" % (small[0], small[1])]
        g.lines += t.lines(2, 1002, copy_to=3)
        g.variants = [(1001, "ref", "eq", dict(ctx="heapz", hist=["copyCCtx"])),
                      (1002, "copy2", "eq", dict(ctx="heap", hist=["copyCCtx", "dst-sticky-" + k]))]
    # (4) one-shot compression of tiny inputs with every capacity from the compressed size upwards
    t = Target("c2", (tiny[0][0], tiny[0][1], "tiny"), params={"level": 1}, bias="r2-rawfallback")
    g = mk(t, KEY_RAWFB)
    g.wsweep = True
    g.lines += ["ctx 0 heapz 0"]
    for o, l, lv in tiny:
        g.lines += ["reset 0 3", "set 0 %d %d" % (P["level"], lv), "W 0 %d %d 48" % (o, l)]
    return gs


# --------------------------------------------------------------------------------------------
# round 3: second doors found by the third builder (both repaired in /repo: regressions, strict)

KEY_STABLEIN = "stablein-deferral-end-skips-stability-check"
KEY_COPYOPEN = "copyCCtx-into-open-stream-keeps-stage"
KEY_MTSET = "mt-jobtable-full-pending-section-gets-new-params"
R3_MTSET = True         # recorded as known by the lead (second symptom of mt-jobtable-full-last-job)


def r3_groups(rng, gid0, inputs, quick):
    """(1) stable input buffer: the call that ENDS a deferred start (ZSTD_e_flush / ZSTD_e_end / ZSTD_e_continue reaching a block)
    with another buffer or a rewound pos must be refused (before 0548f83 it succeeded and compressed the bytes in front of the new
    buffer: output a function of memory the caller never passed); (2) ZSTD_copyCCtx into a context whose streaming frame is open
    closes that session (before d3967a5: SIGSEGV / stale buffer contents flushed by the next streaming call)."""
    src = inputs[0]
    t = Target("stream", src, params={"level": 3}, pieces=[(src[1], 2)], bias="r3-second-doors")
    g = Group(gid0, t)
    g.r3 = True
    g.mt = False
    L = g.lines
    L += ["arena 2000000", "trace 0"]
    n = 0
    combos = [(0, 2, 0, 1000, 5000), (1, 2, 0, 1000, 5000), (2, 2, 0, 1000, 5000), (0, 1, 0, 300, 70000), (1, 1, 0, 4000, 100),
              (0, 0, 0, 100000, 140000), (2, 0, 0, 100000, 140000), (0, 1, 1, 2000, 60000), (2, 2, 1, 3000, 3000),
              (3, 2, 0, 1000, 5000), (3, 0, 0, 70000, 100), (3, 1, 0, 131071, 131072),
              # boundaries of the case splits of the proofs: total = BLOCKSIZE_MAX - 1 (still deferred) / exactly BLOCKSIZE_MAX (first
              # block), a remainder of exactly one block under e_continue, nothing pending (n2 = 0 would need pos = size: n2 = 1)
              (2, 0, 0, 1000, 131072 - 1000 - 1), (2, 0, 0, 1000, 131072 - 1000), (2, 0, 0, 1000, 2 * 131072 - 1000), (2, 0, 0, 131071, 1),
              (2, 0, 0, 1, 131072), (2, 1, 0, 131071, 1), (0, 0, 0, 131071, 1), (1, 0, 0, 1000, 131072)]
    if not quick:
        for _ in range(60):
            combos.append((rng.randrange(4), rng.randrange(3), rng.choice([0, 0, 1, 2]), rng.randint(1, 131071),
                           rng.choice([rng.randint(1, 200000), 131072 * rng.randint(1, 3) - rng.randint(0, 2)])))
    for mode, endop, nbw, n1, n2 in combos:
        if endop == 0 and n1 + n2 < 131072 and mode in (0, 1):
            n2 = 131072 - n1 + rng.randint(0, 5000)         # an e_continue call ends the deferral only when a block is reached
        L.append("X stablein %d %d %d %d %d" % (mode, endop, nbw, n1, n2))
        n += 1
    for nb, we in [(600000, 0), (600000, 1), (200000, 1)]:
        L.append("X copyopen %d %d" % (nb, we))
        n += 1
    if R3_MTSET:
        # (3) nbWorkers=1 (4-entry jobs table), five e_continue calls of exactly one section, an accepted mid-frame
        # ZSTD_CCtx_setParameter(compressionLevel), e_end: huge output chunks vs 1 byte per call
        L.append("X mtset 1 5 300000 9 1")
        # one section only: the round buffer is free, so the call after the update prepares its job at once (an update that reaches
        # the jobs one call late shows in the level of that job; with more sections the input range is usually still busy)
        L.append("X mtset 1 1 300000 9 64")
        n += 2
    g.r3_expected = n
    g.variants = []
    return [g]


def judge_r3(g, res, report, ctx):
    rc, out, err, script = res
    n = 0
    mtjobs, cur = {}, None
    for l in out.split("\n"):
        t = l.split(" ")
        if t[0] == "J" and cur is not None:
            mtjobs[cur].append(tuple(t[2:6]))        # size, prefix, first, last of a posted job
            continue
        if t[0] != "X" or len(t) < 3:
            continue
        if t[1] == "mtpass":
            cur = int(t[2])
            mtjobs[cur] = []
            continue
        cur = None if t[1] != "mtset" else cur
        if len(t) < 4:
            continue
        n += 1
        if t[1] == "stablein":
            mode, endop, nbw, n1, n2, e1, e2, estab, regen, same, bmax, st2, nc2 = (int(x) for x in t[2:15])
            if mode in (0, 1):
                ok = (e2 == estab)
            else:
                ok = (e1 == 0 and e2 == 0 and same == 1)
            ctx.count(("r3", "stablein", mode, endop, nbw > 0, ok), nontrivial=True)
            if not ok:
                report("differ" if mode in (0, 1) else "rt", g,
                       dict(what="ZSTD_c_stableInBuffer=1: deferred ZSTD_e_continue of %d bytes, then %s with %s: expected %s, got error code %d, "
                                 "frame regenerates %d bytes" % (n1, ["e_continue", "e_flush", "e_end"][endop],
                                                                ["another input buffer", "the same buffer with pos rewound to 0", "the grown buffer",
                                                                 "ZSTD_CCtx_reset(session_only) and another buffer"][mode],
                                                                "stabilityCondition_notRespected" if mode in (0, 1) else "the %d input bytes back" % (n2 if mode == 3 else n1 + n2),
                                                                e2, regen), line=l), key=KEY_STABLEIN if mode in (0, 1) else None)
        elif t[1] == "mtset":
            nbw, nsec, tail, lvl, small = (int(x) for x in t[2:7])
            sa, ha, da, seta, sb, hb, db, setb = int(t[7]), t[8], int(t[9]), int(t[10]), int(t[11]), t[12], int(t[13]), int(t[14])
            ok = (sa, ha) == (sb, hb)
            ctx.count(("r3", "mtset", nbw, ok), nontrivial=True)
            if not (da and db and seta and setb):
                report("rt", g, dict(what="multithreaded frame with a mid-frame parameter update: a frame does not decode / the update was refused", line=l))
            elif not ok:
                # the recorded finding = same posted jobs (sizes, overlaps, first / last flags: theorem 44), other bytes; anything else
                # (another partition) is reported without the key
                same_jobs = bool(mtjobs.get(0)) and mtjobs.get(0) == mtjobs.get(1)
                report("differ", g, dict(what="nbWorkers=%d, jobSize 512 KiB, level 1: %d x e_continue(524288 B), ZSTD_CCtx_setParameter(compressionLevel, %d), "
                                              "e_end(%d B): %d bytes with a huge output buffer, %d bytes with %d byte(s) of output room per call" % (
                                                  nbw, nsec, lvl, tail, sa, sb, small), line=l, jobs=[mtjobs.get(0), mtjobs.get(1)]),
                       key=KEY_MTSET if same_jobs else None)
        elif t[1] == "copyopen":
            nb, we, e0, st1, e1, st2, e2, e3, d = (int(x) for x in t[2:11])
            ok = (e0 == 0 and st1 == 1 and e1 == 0 and st2 == 0 and e2 == 0 and e3 == 0 and d == 5000)
            ctx.count(("r3", "copyopen", we, ok), nontrivial=True)
            if not ok:
                report("differ", g, dict(what="ZSTD_copyCCtx into a context whose streaming frame is open: stage after the copy %s, the next "
                                              "ZSTD_compressStream2(e_end, 5000 bytes) -> error %d, regenerates %d" % ("load" if st2 else "init", e3, d), line=l),
                       key=KEY_COPYOPEN)
    if rc != 0 or n != g.r3_expected:
        report("crash", g, dict(rc=rc, stderr=err[-600:], last=out[-300:], what="round-3 second-door scenarios: %d of %d lines" % (n, g.r3_expected)),
               key=None)


def r3_lockstep(ctx, model, results, report):
    """the stable-input scenarios against Det/StableIn.v (opcode 17): which call is accepted, how many bytes the accepted calls hand
    to the block compressor (= what the frame regenerates), ZSTD_BLOCKSIZE_MAX"""
    cases, meta = [], []
    A, B = 1000000, 5000000
    for g, res in results:
        if not getattr(g, "r3", False):
            continue
        for l in res[1].split("\n"):
            t = l.split(" ")
            if t[0] != "X" or t[1] != "stablein" or len(t) < 13:
                continue
            mode, endop, nbw, n1, n2, e1, e2, estab, regen, same, bmax, st2, nc2 = (int(x) for x in t[2:15])
            c2 = [(B, n2, 0), (A, n1 + n2, 0), (A, n1 + n2, n1), (B, n2, 0)][mode]
            calls = [A, n1, 0, 0]
            if mode == 3:
                calls += [0, 0, 0, 3]
            calls += [c2[0], c2[1], c2[2], endop]
            if endop != 2:
                calls += [c2[0], c2[1], c2[1], 2]
            cases.append((17, [0, 131072] + calls))
            meta.append((g, l, mode, endop, e1, e2, estab, regen, bmax, n1, n2, st2, nc2, nbw))
    n_ok = 0
    # multithreaded mid-frame parameter update (Det/MtParams.v, opcode 18): the (size, level) list of the posted jobs of each pass of
    # "X mtset"; with a huge output buffer the jobs table is never full (strict prediction); with 1 byte per call the observation must
    # be the prediction of the never-full schedule or that of "full when the last complete section arrives"
    sec = 512 << 10
    for g, res in results:
        if not getattr(g, "r3", False):
            continue
        cur, jl = None, {}
        for l in res[1].split("\n"):
            t = l.split(" ")
            if t[0] == "X" and len(t) >= 3 and t[1] == "mtpass":
                cur = int(t[2])
                jl[cur] = []
            elif t[0] == "J" and cur is not None and len(t) >= 7:
                jl[cur] += [int(t[2]), int(t[6])]
            elif t[0] == "X" and len(t) >= 7 and t[1] == "mtset":
                cur = None
                if 0 not in jl or 1 not in jl:
                    continue
                nbw, nsec, tail, lvl, small = [int(x) for x in t[2:7]]
                ops = [0, sec, 0] * nsec + [1, lvl, 0] + [0, tail, 2]
                pr = model.run([(18, [sec, -1] + ops), (18, [sec, nsec - 1] + ops)])
                relabel = lambda v: [x if k % 2 == 0 else (1 if x == 0 else x) for k, x in enumerate(v)]      # identity 0 = the initial level 1
                free, full = relabel(pr[0]), relabel(pr[1])
                ctx.cov["traces_validated_against_impl"] += 2
                ok0, ok1 = jl[0] == free, jl[1] in (free, full)
                ctx.count(("lockstep-mtparams", nsec, jl[1] == full, ok0 and ok1), nontrivial=True)
                if not (ok0 and ok1):
                    report("lockstep", g, dict(model="MtParams.prun (size, level of every posted job)", line=l,
                                               predicted=dict(never_full=free, full_at_last_section=full),
                                               observed=dict(big_output=jl[0], small_output=jl[1])))
                else:
                    n_ok += 2
                jl = {}
            elif t[0] == "X":
                cur = None
    if not cases:
        return n_ok
    for (g, l, mode, endop, e1, e2, estab, regen, bmax, n1, n2, st2, nc2, nbw), r in zip(meta, model.run(cases)):
        ctx.cov["traces_validated_against_impl"] += 1
        ncall = (2 if endop == 2 else 3) + (1 if mode == 3 else 0)
        k2 = 2 if mode == 3 else 1            # index of the call that follows the deferred one
        bad = None
        if len(r) != 5 * ncall + 1:
            bad = dict(what="model output length", got=len(r))
        else:
            acc = [r[5 * k] for k in range(ncall)]
            acc = [acc[0]] + acc[k2:]
            total = sum(r[5 * k + 2] - r[5 * k + 1] for k in range(ncall) if r[5 * k])
            if mode == 3:
                total -= 0                     # the deferred call read nothing: the frame holds the second buffer only
            m_open, m_nc = r[5 * k2 + 3], r[5 * k2 + 4]
            if r[-1] != bmax:
                bad = dict(what="ZSTD_BLOCKSIZE_MAX", model=r[-1], real=bmax)
            elif acc[0] != (1 if e1 == 0 else 0):
                bad = dict(what="first call", predicted_accepted=acc[0], error=e1)
            elif acc[1] == 0 and e2 != estab:
                bad = dict(what="the model refuses the call that ends the deferral, the code returns error code %d" % e2)
            elif acc[1] == 1 and (e2 != 0 or regen != total):
                bad = dict(what="the model accepts and hands over %d bytes; the code: error code %d, frame regenerates %d" % (total, e2, regen))
            elif acc[1] == 1 and nbw == 0 and (st2, nc2) != (m_open, m_nc):
                # single-thread path only: with workers the input is copied into the job buffers and nothing stays pending
                bad = dict(what="after the call that follows the deferred one", predicted=dict(stage_open=m_open, notConsumed=m_nc),
                           observed=dict(stage_open=st2, notConsumed=nc2))
        ctx.count(("lockstep-stablein", mode, endop, bad is None), nontrivial=True)
        if bad:
            report("lockstep", g, dict(model="StableIn.step (accepted, bytes handed to the block compressor)", line=l, detail=bad))
        else:
            n_ok += 1
    return n_ok


def judge_wsweep(g, res, report, ctx):
    rc, out, err, script = res
    n = 0
    for l in out.split("\n"):
        t = l.split(" ")
        if t[0] != "W" or len(t) < 9:
            continue
        n += 1
        o, ln, r0, nerr, ndiff, fcap, fsize, nraw = (int(x) for x in t[1:9])
        ctx.count(("r2", "capacity-sweep", ndiff == 0, nerr > 0), nontrivial=True)
        if ndiff >= 1000000:
            report("rt", g, dict(what="a frame produced under a tight capacity does not decode", off=o, len=ln))
        elif ndiff:
            report("differ", g, dict(what="ZSTD_compress2 of the same %d bytes: %d bytes with a large dst, %d bytes with dstCapacity %d "
                                          "(%d capacities of [r0, r0+48] differ, %d are refused)" % (ln, r0, fsize, fcap, ndiff, nerr),
                                     off=o, len=ln, raw_fallback=nraw, other=ndiff - nraw),
                   # the recorded finding = the first differing block is stored raw where the large-capacity output compresses it;
                   # any other capacity dependence is a plain violation
                   key=(g.r2key if nraw == ndiff else "capacity-dependence-not-raw-fallback"))
    if rc != 0 or n == 0:
        report("crash", g, dict(rc=rc, stderr=err[-600:], last=out[-300:]))

# --------------------------------------------------------------------------------------------

def run(ctx):
    # a private scratch directory: core removes build/scratch/C07 whenever another ./check C07 starts
    priv = ctx.scratch + ".%d" % os.getpid()
    os.makedirs(priv, exist_ok=True)
    shared = ctx.scratch
    ctx.scratch = priv
    try:
        return run_(ctx)
    finally:
        ctx.scratch = shared
        import shutil
        shutil.rmtree(priv, ignore_errors=True)


def run_(ctx):
    t_start = time.time()
    quick = ctx.quick
    r = ctx.prove()
    log("proof step done at %.1fs" % (time.time() - t_start))
    exe = core.build_harness("c07_det", ["c07_det.c"], extra_flags=["-w"])
    model = Model()
    log("harness + extracted model ready at %.1fs" % (time.time() - t_start))
    rng = random.Random(ctx.seed)
    blob, inputs, dicts, bigs = build_pool(rng, quick)
    # exact multiple of the minimal job size for the MT finding
    mtsrc = blob.add(codec.gen_input(random.Random(ctx.seed + 77), "text", 5 * (512 << 10))) + ("text",)
    # a dozen sections for the rsyncable groups
    rsrcs = [blob.add(codec.gen_input(random.Random(ctx.seed + 78 + i), kind, 6000000)) + ("rsync-" + kind,)
             for i, kind in enumerate(["random", "mixed"] if quick else ["random", "mixed", "text", "lowent"])]
    r2rng = random.Random(ctx.seed * 7919 + 5)
    tiny = r2_tiny_inputs(r2rng, blob, 150 if quick else 2500)
    blob_path = os.path.join(ctx.scratch, "blob.bin")
    with open(blob_path, "wb") as f:
        f.write(bytes(blob.b))

    only = None
    if ctx.replay_file:
        ro = json.load(open(ctx.replay_file))
        rep = ro.get("replay", {})
        only = rep.get("gid")
        if ro.get("seed") != ctx.seed or ro.get("tier") != ctx.tier:
            log("replay recorded with seed=%s tier=%s: re-run with VERIF_SEED=%s --tier %s for the same case" % (
                ro.get("seed"), ro.get("tier"), ro.get("seed"), ro.get("tier")))

    n_groups = 100 if quick else 4000
    n_mt = 8 if quick else 200
    groups = []
    for gid in range(n_groups):
        grng = random.Random(ctx.seed * 1000003 + gid)
        t = gen_target(grng, inputs, dicts)
        g = build_group(grng, gid, t, inputs, dicts, want_hex=(gid % 25 == 3 and t.src[1] <= 70000), trace=True)
        g.mt = False
        groups.append(g)
    for k in range(n_mt):
        gid = n_groups + k
        grng = random.Random(ctx.seed * 1000003 + gid)
        g = build_mt_group(grng, gid, bigs, inputs, dicts)
        g.mt = True
        groups.append(g)
    n_rs = 2 if quick else 16
    for k in range(n_rs):
        gid = 100000 + k
        g = build_rsync_group(random.Random(ctx.seed * 1000003 + gid), gid, rsrcs[k % len(rsrcs)])
        g.mt = True
        groups.append(g)
    fg = finding_groups(rng, n_groups + n_mt, inputs, bigs, blob)
    for g in fg:
        g.mt = False
    groups += fg
    groups.append(mt_finding_group(n_groups + n_mt + len(fg), bigs, mtsrc))
    groups += r2_groups(r2rng, 200000, inputs, dicts, tiny, quick)
    groups += r3_groups(random.Random(ctx.seed * 104729 + 3), 300000, inputs, quick)
    if only is not None:
        groups = [g for g in groups if g.gid == only]

    viol = []

    def report(kind, g, detail, key=None):
        if key is None and kind == "differ" and g is not None:
            hist = (detail.get("info") or {}).get("hist", []) if isinstance(detail, dict) else []
            if getattr(g, "r2key", None) and detail.get("label") != "det-pair":
                key = g.r2key
            elif "genseq" in hist:
                key = KEY_GENSEQ
            elif detail.get("label") == "copy2":
                key = KEY_COPYPARAMS
        viol.append((kind, g, detail, key))

    known_hits = {}

    def known(key, g, detail):
        known_hits.setdefault(key, (g, detail))

    t0 = time.time()
    results = run_groups(exe, blob_path, groups, ctx.seed)
    log("ran %d groups in %.1fs" % (len(groups), time.time() - t0))
    per_group = []
    totals = {}
    hexes = []
    hist_kinds = {}
    for g, res in results:
        if g.mt:
            st, frames, dumps = judge_mt_group(g, res, report, known)
            try:
                mt_checks(ctx, model, g, frames, dumps, report)
            except Exception as e:
                report("crash", g, dict(what="mt lock-step failed", error=repr(e)))
        elif getattr(g, "wsweep", False):
            judge_wsweep(g, res, report, ctx)
            st, frames, dumps = {}, {}, []
        elif getattr(g, "r3", False):
            judge_r3(g, res, report, ctx)
            st, frames, dumps = {}, {}, []
        else:
            if getattr(g, "narrow", None):
                # the recorded finding is accepted only with its signature; otherwise the difference is reported without a key
                fr0 = parse_output(res[1])[0]
                fa, fb = fr0.get(g.narrow[1]), fr0.get(g.narrow[2])
                if g.narrow[0] == "same-as":
                    ok = fa is not None and fb is not None and same_frame(fa, fb)
                else:
                    # the frame was compressed with the cParams of the context that still has the first frame's parameters,
                    # i.e. with the CDict's (cdsame), and not with those of the reference
                    def cp(f):
                        d = (f or {}).get("dump") or {}
                        return tuple(d.get(k) for k in ("cl", "hl", "sl", "mm", "tl", "strat", "row", "cdsame"))
                    fc = fr0.get(g.narrow[3])
                    ok = None not in cp(fa) and cp(fa) == cp(fb) and cp(fa)[-1] == 1 and cp(fa) != cp(fc)
                if not ok:
                    g.r2key = g.r2key + "-unexpected-shape"
            st, frames, dumps = judge_group(g, res, report)
            if getattr(g, "det_pair", None):
                fa, fb = frames.get(g.det_pair[0]), frames.get(g.det_pair[1])
                if fa is None or fb is None or not same_frame(fa, fb):
                    report("differ", g, dict(label="det-pair", what="ZSTD_c_deterministicRefPrefix=1: prefix elsewhere vs adjacent to the input",
                                             ref=strip(fa) if fa else None, got=strip(fb) if fb else None))
            if not getattr(g, "r2key", None):
                per_group.append((g, dumps, frames))
            if st.get("shortcut_diff") and getattr(g, "shortcut_witness", None):
                known(KEY_SHORTCUT, g, g.shortcut_witness)
        for k, v in st.items():
            totals[k] = totals.get(k, 0) + v
        ref = None
        for fid, label, cls, info in g.variants:
            f = frames.get(fid)
            if f is None:
                continue
            if label == "ref":
                ref = f
                if f.get("hex"):
                    hexes.append((g, f))
                continue
            sig = (g.t.api, g.t.strategy_class(), g.t.bias, bool(g.t.dct), bool(g.t.cdict), info.get("ctx"), label.rstrip("0123456789"),
                   tuple(sorted(set(info.get("hist", [])))), f["err"] is None)
            ctx.count(sig, nontrivial=f["err"] is None and (g.t.src[1] > 64))
            for hk in info.get("hist", []):
                hist_kinds[hk] = hist_kinds.get(hk, 0) + 1
        if len(ctx.cov["samples"]) < 6 and g.gid % 17 == 0:
            ctx.sample(dict(target=g.t.describe(), variants=[(l, i) for _, l, _, i in g.variants][:4],
                            result="all outputs byte-identical to the fresh-context output" if not any(v[1] is g for v in viol) else "see violations"))
    if not quick and only is None:
        # supporting run: the first groups again under ASan + UBSan (garbage indices, reads outside the workspace)
        try:
            exe_asan = core.build_harness("c07_det", ["c07_det.c"], variant="asan", extra_flags=["-w"])
            sub = [g for g in groups if not g.mt][:1000]
            t1 = time.time()
            for g, res in run_groups(exe_asan, blob_path, sub, ctx.seed):
                rc, out, err, script = res
                ctx.count(("asan", g.t.api, rc == 0), nontrivial=True)
                if rc != 0:
                    report("crash", g, dict(variant="asan+ubsan", rc=rc, stderr=err[-1500:], last=out[-200:]))
            log("asan run of %d groups in %.1fs" % (len(sub), time.time() - t1))
        except Exception as e:
            viol.append(("crash", None, dict(what="asan run failed to start", error=repr(e)), None))
    try:
        n_ok = run_lockstep(ctx, model, per_group, report)
        n_ok2 = extra_lockstep(ctx, model, per_group, report)
        n_ok3 = r2_lockstep(ctx, model, results, report, rng)
        n_ok4 = r3_lockstep(ctx, model, results, report)
        log("lock-step: %d + %d + %d (round 2: API state, block emission) + %d (round 3: stable input) model predictions matched" % (n_ok, n_ok2, n_ok3, n_ok4))
    except Exception as e:
        viol.append(("crash", None, dict(what="lock-step failed to run", error=repr(e)), None))

    def report_simple(kind, detail):
        viol.append((kind, None, detail, None))
    log("lock-step done at %.1fs" % (time.time() - t_start))
    if only is None:
        try:
            opt_and_hash_tie(ctx, model, rng, report_simple, ctx.scratch, inputs, blob)
        except Exception as e:
            viol.append(("crash", None, dict(what="opt/hash tie failed to run", error=repr(e)), None))
        log("opt / hash tie done at %.1fs" % (time.time() - t_start))
        # a sample of the frames through the Coq reference decoder R
        try:
            cd = codec.Codec(ctx)
            cases = []
            if quick:       # R costs ~0.5 s per 100 kB alone, several times that on a busy machine
                hexes = sorted([h for h in hexes if h[0].t.src[1] <= 40000], key=lambda h: h[0].t.src[1])[-4:]
            for g, f in hexes[:4 if quick else 30]:
                dct = None
                if g.t.dct:
                    dct = bytes(blob.b[g.t.dct[1]:g.t.dct[1] + g.t.dct[2]])
                elif g.t.cdict:
                    dct = bytes(blob.b[g.t.cdict[1]:g.t.cdict[1] + g.t.cdict[2]])
                fl = "rawdict" if (dct is not None and dct[:4] != bytes.fromhex("37a430ec")) else None
                cases.append(("g%d" % g.gid, fl, dct, bytes.fromhex(f["hex"])))
            log("R sample: %d frames, %d input bytes" % (len(cases), sum(h[0].t.src[1] for h in hexes[:len(cases)])))
            if cases:
                rr = cd.model(cases)
                for (cid, fl, dct, fr), (g, f) in zip(cases, hexes):
                    m = rr.get(cid)
                    src = bytes(blob.b[g.t.src[0]:g.t.src[0] + g.t.src[1]])
                    ctx.count(("R", g.t.api, m is not None and m[0] == "OK"), nontrivial=True)
                    if m is None or m[0] != "OK" or m[1] != src:
                        report("rt", g, dict(what="the Coq reference decoder R does not return the input", result=m[:2] if m else None))
        except Exception as e:
            log("R sample skipped: %r" % (e,))

    # ---- verdicts
    def search(broken):
        found = []
        for kind, g, detail, key in viol:
            if kind in ("differ", "crash", "rt", "observer") and g is not None:
                found.append((dict(kind=kind, gid=g.gid, target=g.t.describe(), detail=detail, script=g.lines[:400]),
                              "paired executions disagree while a proof obligation is broken: %s" % kind))
        return found[:3]
    ctx.proof_verdict(search)

    nrep = 0
    seen_keys = set()
    for kind, g, detail, key in viol:
        if key is not None:
            if key in seen_keys:
                continue        # one report per recorded finding
            seen_keys.add(key)
        nrep += 1
        if nrep > 12:
            break
        concrete = kind in ("differ", "crash", "rt", "observer")
        what = {"differ": "same calls, different bytes: the output depends on the execution context",
                "crash": "the harness crashed / could not run",
                "rt": "a produced frame does not decode to its input",
                "observer": "stale table entries are reachable / not bounded on the real context",
                "lockstep": "the real code disagrees with the model the theorems are about"}[kind]
        rep = dict(kind=kind, gid=g.gid if g is not None else None, target=g.t.describe() if g is not None else None,
                   detail=detail, script=(g.lines[:600] if g is not None else None))
        if key in R2_WHAT:
            what = R2_WHAT[key]
        ctx.violation(rep, what="%s (%s)" % (what, json.dumps(detail, default=str)[:300]), no_input=not concrete, key=key)
    for key, (g, detail) in known_hits.items():
        what = {KEY_SHORTCUT: "ZSTD_compressStream2(ZSTD_e_end) output bytes depend on the output capacity (direct ZSTD_compressEnd shortcut vs buffered path)",
                KEY_MTLAST: "ZSTDMT: a full jobs table at a section boundary followed by e_end makes the pending section the last job (3-byte difference)"}[key]
        ctx.violation(dict(kind="finding", key=key, gid=g.gid, target=g.t.describe(), detail=detail, script=g.lines[:100]), what=what, key=key)

    ctx.cov["rule"] = (
        "groups = one target call sequence (api x parameters x dictionary x input x pieces, seeded) executed under 5-10 execution "
        "contexts (fresh zeroed / garbage heap / static memory, histories of other frames, aborted frames + resets, copyCCtx, "
        "130-frame bursts, a frame whose buffers overwrite the area of the target's tables, src/dst offsets 0..63 and contiguous "
        "placement, output capacities, other cuts of the e_continue input, parameters through ZSTD_CCtx_params, dictionary by copy / "
        "by reference, nbWorkers 1/2/4 x lock jitter x refused "
        "posts); one evaluation = one byte-compare of a variant against the fresh reference, or one model prediction compared with "
        "the real struct / real function. A case is non-trivial when it produced a frame (no error) from more than 64 input bytes, "
        "or when the model step started from a used context; distinct = distinct (api, strategy, bias, dictionary, memory kind, "
        "variant, history kinds) signature.")
    ctx.notes["pairs"] = totals
    ctx.notes["history_kinds"] = hist_kinds
    ctx.notes["apis"] = {}
    for g in groups:
        ctx.notes["apis"][g.t.api] = ctx.notes["apis"].get(g.t.api, 0) + 1
    ctx.notes["known_findings_seen"] = sorted(known_hits.keys())
    ctx.notes["labels"] = ("theorems: coq/Props/Properties_C07.v; everything counted here is differential testing / model validation; "
                           "the finder contract (never use an index < lowLimit) is covered by the paired executions only")
    log("done in %.1fs: %s" % (time.time() - t_start, totals))
