"""C15 - correctness does not wear out (index rebasing, unbounded stream length, context reuse).

proof      : coq/Props/Properties_C15.v (models in coq/Index/*.v)
tie (1)    : harness/c15_window.c calls the REAL static-inline window functions / ZSTD_reduceTable_internal /
             ZSTD_overflowCorrectIfNeeded / ZSTD_ldm_reduceTable on case lines that the extracted model
             (ml/c15_driver.ml) also evaluates; every output integer is compared.  Two builds: default and
             -DZSTD_WINDOW_OVERFLOW_CORRECT_FREQUENTLY=1.
tie (2)    : harness/c15_ctx.c drives REAL contexts (one reused context vs fresh contexts) through long
             multi-frame histories; the window of the real context is compared with the model's prediction,
             each frame must round-trip and be byte-equal to the fresh-context output.
Everything below the proof is differential testing; it validates the model, it does not replace a theorem.
"""
import json
import os
import random
import re
import time

from .. import core

U32 = 1 << 32
GIB = 1 << 30


def consts():
    """The regenerated constants (coq/Gen/Gen_Sizes.v) - generators only aim at them, the oracle is the model."""
    import re
    txt = open(os.path.join(core.COQ, "Gen", "Gen_Sizes.v")).read()
    c = {}
    for m in re.finditer(r"Definition c_(\w+) : N := (\d+)%N\.", txt):
        c[m.group(1)] = int(m.group(2))
    return c


class Gen:
    """Case generator for the function-level tie.  Each case is (opcode, [ints], signature)."""

    def __init__(self, rng, K):
        self.r = rng
        self.K = K
        self.START = K["ZSTD_WINDOW_START_INDEX"]
        self.CMAX = K["ZSTD_CURRENT_MAX"]
        self.CHUNK = K["ZSTD_CHUNKSIZE_MAX"]
        self.MARGIN = K["ZSTD_INDEXOVERFLOW_MARGIN"]
        self.cases = []

    # --- helpers
    def near(self, v, d=2):
        return v + self.r.randint(-d, d)

    def pick_index(self):
        r = self.r
        k = r.random()
        C = self.CMAX
        pts = [0, 1, 2, 3, 7, 8, 9, 1 << 10, 1 << 17, 1 << 27, 1 << 30, 1 << 31, (1 << 31) + (1 << 30), C - self.MARGIN, C, C - 131072,
               C + 131072, U32 - 1 - 131072, U32 - 1]
        if k < 0.45:
            return max(0, self.near(r.choice(pts)))
        if k < 0.55:
            return r.choice([U32, U32 + 1, U32 + 5, U32 + C, 5 * GIB])
        if k < 0.8:
            return r.randint(0, U32 - 1)
        return r.randint(0, 1 << r.randint(1, 32))

    def window(self, c=None, ext=None):
        """Returns [nextSrc, base, dictBase, dictLimit, lowLimit, nbOvf] (addresses = offsets in the reservation)."""
        r = self.r
        if c is None:
            c = self.pick_index()
        base = r.randint(4 * GIB, 6 * GIB)
        nxt = base + c
        cc = min(c, U32 - 1)
        k = r.random()
        if k < 0.3:
            dl = ll = cc
        elif k < 0.6:
            dl = r.randint(0, cc)
            ll = r.randint(0, dl)
        elif k < 0.8:
            dl = max(0, cc - r.randint(0, 20))
            ll = max(0, dl - r.choice([0, 1, 7, 8, 9, 100, 1 << 20]))
        else:  # not well-formed on purpose (the model is total)
            dl = r.randint(0, U32 - 1)
            ll = r.randint(0, U32 - 1)
        if ext is None:
            ext = r.random() < 0.4
        db = r.randint(4 * GIB, 6 * GIB) if ext else base
        nb = r.choice([0, 0, 0, 1, 2, 3, 5, 1000, U32 - 1, r.randint(0, U32 - 1)])
        return [nxt, base, db, dl, ll, nb]

    def add(self, opc, args, sig):
        self.cases.append((opc, [int(a) for a in args], sig))

    # python replica of the correction arithmetic, ONLY to aim the generator at its thresholds
    def corr_guess(self, cl, md, curr):
        cs = (1 << cl) % U32
        mask = (cs - 1) % U32
        cyc = curr & mask
        ccc = max(cs, self.START) if cyc < self.START else 0
        nc = (cyc + ccc + max(md, cs)) % U32
        return (curr - nc) % U32, nc

    # --- families
    def g_simple(self, n):
        r = self.r
        for _ in range(n):
            self.add(1, [r.randint(0, 8 * GIB)], ("init",))
            w = self.window()
            self.add(2, w, ("clear", w[0] - w[1] >= U32))
            w = self.window(c=r.choice([0, 1, 2, 3, U32 + 2, self.pick_index()]))
            if r.random() < 0.5:
                w[3] = r.choice([2, 2, 3]); w[4] = r.choice([2, 2, 1])
            self.add(3, w, ("isempty", w[3] == 2, w[4] == 2, w[0] - w[1] == 2))
            w = self.window()
            self.add(4, w, ("hasext", w[4] < w[3]))
            w = self.window()
            self.add(13, w, ("tooclose", (w[0] - w[1]) > self.CMAX - self.MARGIN, (w[0] - w[1]) >= U32))
            s = r.choice([0, 1, self.near(self.CHUNK), self.near(self.CMAX), self.near(U32), r.randint(0, 1 << 40)])
            self.add(14, [max(0, s)], ("dicttoobig", s > self.CHUNK))
            a = r.randint(0, U32 - 1); b = r.choice([a, (a - 1) % U32, (a - 2) % U32, (a - 3) % U32, (a - 4) % U32, (a - 5) % U32, (a + 1) % U32, r.randint(0, U32 - 1)])
            self.add(9, [a, b], ("overlap", (a - 1 - b) % U32 >= 3))

    def g_update(self, n):
        r = self.r
        for _ in range(n):
            w = self.window(c=min(self.pick_index(), U32 - 1) if r.random() < 0.9 else None)
            nxt, base, db, dl, ll, nb = w
            k = r.random()
            size = r.choice([0, 1, 7, 8, 9, 100, 1 << 17, r.randint(1, 1 << 30), self.near(self.CHUNK, 1)])
            if k < 0.35:
                src = nxt
            elif k < 0.7 and dl > ll:
                # aim at the overlap conditions with the extDict [db+ll, db+dl)
                lo, hi = db + ll, db + dl
                e = r.choice([lo - 1, lo, lo + 1, hi - 1, hi, hi + 1, r.randint(lo, hi)])
                if r.random() < 0.5:
                    src = e - size + r.choice([-1, 0, 1])
                else:
                    src = e
            else:
                src = r.randint(4 * GIB, 12 * GIB)
            force = 1 if r.random() < 0.15 else 0
            self.add(5, w + [src, max(0, size), force],
                     ("update", size == 0, src == nxt, force, min(9, max(0, (dl - ll))), src + size > db + ll, src < db + dl))

    def g_enforce(self, n):
        r = self.r
        for _ in range(n):
            w = self.window(c=min(self.pick_index(), U32 - 1))
            wl = r.randint(0, 31)
            md = (1 << wl) if r.random() < 0.9 else r.randint(1, U32 - 1)
            lde = r.choice([-1, 0, 0, w[3], r.randint(0, U32 - 1), max(0, (w[0] - w[1]) - md + r.randint(-2, 2)), U32 - md + r.randint(-2, 2)])
            if lde >= U32: lde = U32 - 1
            if lde < -1: lde = 0
            dms = r.choice([-1, 0, 1])
            be = w[1] + max(0, self.near(r.choice([(w[0] - w[1]), md + max(lde, 0), md, r.randint(0, U32 - 1)])))
            bidx = (be - w[1]) % U32
            thr = (md + max(lde, 0)) % U32
            self.add(6, w + [be, md, lde, dms], ("enforce", bidx > thr, lde < 0, dms, w[4] < (bidx - md) % U32, md + max(lde, 0) >= U32))
            lde2 = max(lde, 0)
            if r.random() < 0.5: lde2 = w[3]
            self.add(7, w + [be, md, lde2, 1 if dms else 0], ("checkdict", bidx > (lde2 + md) % U32, lde2 == w[3], lde2 == 0))
            curr = r.choice([bidx, r.randint(0, U32 - 1)])
            wl2 = r.randint(10, 31)
            if r.random() < 0.6:
                lim = r.choice([w[3], w[4]])
                curr = (lim + (1 << wl2) + r.randint(-2, 2)) % U32
            self.add(8, w + [r.choice([0, 0, lde2]), curr, wl2],
                     ("lowest", (curr - w[4]) % U32 > (1 << wl2), (curr - w[3]) % U32 > (1 << wl2)))

    def g_overflow(self, n):
        r = self.r
        for _ in range(n):
            cl = r.choice([0, 1, 2, 5, 10, 17, 24, 29, 30, r.randint(0, 30), r.randint(0, 31)])
            wl = r.choice([0, 10, 17, 20, 27, 30, 31, r.randint(0, 31)])
            md = (1 << wl) if r.random() < 0.9 else r.randint(1, U32 - 1)
            cs = 1 << cl
            minidx = (cs + max(md, cs) + self.START) % U32
            nb = r.choice([0, 0, 1, 2, 3, 7, U32 - 1, r.randint(0, U32 - 1)])
            adj = max((minidx * ((nb + 1) % U32)) % U32, minidx)
            k = r.random()
            if k < 0.3:
                curr = self.near(adj)
            elif k < 0.5:
                curr = self.near(minidx)
            elif k < 0.7:
                curr = self.near(self.CMAX, 3)
            elif k < 0.85:
                q = r.randint(0, max(0, (U32 - 1) // cs))
                curr = q * cs + r.choice([0, 1, 2, 3, cs - 1])
            else:
                curr = r.randint(0, U32 - 1)
            curr = max(0, min(U32 - 1, curr))
            w = self.window(c=curr)
            w[5] = nb
            corr, nc = self.corr_guess(cl, md, curr)
            for i in (3, 4):
                if r.random() < 0.5:
                    w[i] = max(0, min(U32 - 1, r.choice([(corr + self.START) % U32 + r.randint(-2, 2), curr - md + r.randint(-2, 2), 0, 1, 2, 3])))
            src = w[1] + curr
            lde = r.choice([0, 0, max(0, curr - md + r.randint(-2, 2)), r.randint(0, U32 - 1)])
            if lde >= U32: lde = U32 - 1
            self.add(10, w + [cl, md, lde, src], ("canovf", curr > adj, curr > (md + lde) % U32, (minidx * (nb + 1)) >= U32))
            n_ = r.choice([0, 1, 131072, self.near(self.CMAX - curr + 1), self.CHUNK, r.randint(0, self.CHUNK), U32 - curr + r.randint(-2, 2)])
            n_ = max(0, n_)
            self.add(11, w + [cl, md, lde, src, src + n_],
                     ("need", (curr + n_) % U32 > self.CMAX, curr + n_ >= U32, curr > adj and curr > (md + lde) % U32))
            self.add(12, w + [cl, md, src],
                     ("correct", min(cl, 31), min(wl, 31), curr & (cs - 1) < self.START, w[4] < (corr + self.START) % U32, w[3] < (corr + self.START) % U32,
                      curr >= nc))

    def table(self, n, reducer, marks=True):
        r = self.r
        pts = [0, 1, 2, 3, reducer - 1, reducer, reducer + 1, reducer + 2, reducer + 3, reducer + self.START - 1, reducer + self.START,
               reducer + self.START + 1, U32 - 1, U32 - 2]
        t = []
        for _ in range(n):
            k = r.random()
            if k < 0.5:
                e = r.choice(pts)
            elif k < 0.6 and marks:
                e = 1
            else:
                e = r.randint(0, U32 - 1)
            t.append(e % U32)
        return t

    def g_reduce(self, n):
        r = self.r
        for _ in range(n):
            red = r.choice([0, 1, 2, 1 << 28, 3 << 29, self.CMAX - (1 << 27), U32 - 3, U32 - 2, U32 - 1, r.randint(0, U32 - 1)])
            ln = r.choice([0, 16, 32, 64, 15, 17, 33, 48, 128])
            size = r.choice([ln, ln, ln, max(0, ln - 16), ln - ln % 16, max(0, ln - 1)])
            pm = r.randint(0, 1)
            t = self.table(ln, red)
            self.add(15, [pm, red, size] + t, ("reduce", pm, size == ln, ln % 16 == 0, (red + self.START) >= U32, 1 in t))
            t = self.table(r.choice([0, 1, 8, 33]), red, marks=False)
            self.add(16, [red] + t, ("ldmreduce", len(t) > 0))

    def g_ms(self, n):
        r = self.r
        for _ in range(n):
            strat = r.randint(1, 9)
            useRow = r.randint(0, 1)
            dds = 1 if r.random() < 0.1 else 0
            alloc = dds or (strat != 1 and not (3 <= strat <= 5 and useRow))
            hlog = r.randint(4, 6)
            clog = r.randint(4, 6) if alloc else r.choice([6, 17, 24, 29, 30, r.randint(6, 30)])
            wl = r.choice([10, 17, 20, 27, 30, 31, r.randint(10, 31)])
            h3 = r.choice([0, 0, 4, 5])
            cl = clog - (1 if strat >= 6 else 0)
            md = 1 << wl
            cs = 1 << cl
            minidx = cs + max(md, cs) + self.START
            k = r.random()
            bs = r.choice([1, 1000, 131072, r.randint(1, 131072)])
            if k < 0.4:
                curr = self.CMAX - bs + r.randint(-2, 2)
            elif k < 0.7:
                curr = self.near(minidx * r.choice([1, 1, 2, 3]), 3)
            else:
                curr = r.randint(0, U32 - 1 - bs)
            curr = max(0, min(U32 - 1 - bs, curr))
            w = self.window(c=curr + bs, ext=r.random() < 0.3)
            corr, nc = self.corr_guess(cl, md, curr)
            w[5] = r.choice([0, 0, 1, 2, 5])
            for i in (3, 4):
                if r.random() < 0.5:
                    w[i] = max(0, min(curr, r.choice([corr + self.START + r.randint(-2, 2), curr - md + r.randint(-2, 2), 0, 2])))
            if w[4] > w[3]: w[4] = w[3]
            lde = r.choice([0, 0, w[3], r.randint(0, curr)])
            ntu = max(0, min(U32 - 1, r.choice([corr - 1, corr, corr + 1, curr, r.randint(0, curr), 0])))
            th = self.table(1 << hlog, corr)
            tc = self.table((1 << clog) if alloc else r.choice([0, 16]), corr)
            t3 = self.table((1 << h3) if h3 else r.choice([0, 16]), corr)
            ip = w[1] + curr
            self.add(17, w + [lde, ntu, r.randint(0, 1), h3, dds, wl, clog, hlog, strat, useRow, ip, ip + bs, len(th), len(tc), len(t3)] + th + tc + t3,
                     ("ovfms", strat, useRow, dds, h3 != 0, curr + bs > self.CMAX, curr > minidx, ntu < corr))
            # LDM chunk step (cycleLog 0)
            tl = self.table(r.choice([0, 8, 32]), (curr - (2 + md)) % U32, marks=False)
            w2 = self.window(c=curr + bs)
            lde2 = r.choice([0, 0, r.randint(0, curr)])
            self.add(18, w2 + [lde2, wl, w2[1] + curr, w2[1] + curr + bs] + tl, ("ldmstep", curr + bs > self.CMAX, curr + bs > md + lde2))


def gen_function_cases(rng, K, scale):
    g = Gen(rng, K)
    g.g_simple(40 * scale)
    g.g_update(250 * scale)
    g.g_enforce(250 * scale)
    g.g_overflow(400 * scale)
    g.g_reduce(150 * scale)
    g.g_ms(250 * scale)
    return g.cases


# ------------------------------------------------------------------------------------------------
# histories on the fake match state (opcodes >= 100)

class HistGen:
    def __init__(self, rng, K, freq):
        self.r = rng
        self.K = K
        self.freq = freq
        self.CMAX = K["ZSTD_CURRENT_MAX"]
        self.CHUNK = K["ZSTD_CHUNKSIZE_MAX"]
        self.lines = []
        self.nxt = None        # tracked nextSrc of the match-state window (None = unknown)
        self.tabs = (16, 16, 16)
        self.ldm = 0
        self.cursor = 4 * GIB  # allocation cursor inside the reservation [4 GiB, 12 GiB)

    def alloc(self, size):
        if self.cursor + size > 12 * GIB:
            self.cursor = 4 * GIB + self.r.randint(0, 1 << 20)
        a = self.cursor
        self.cursor += size + self.r.choice([0, 0, 1, 8, 4096])
        return a

    def begin(self, big_dict=False, params=None):
        r = self.r
        if params is None:
            strat = r.randint(1, 9)
            useRow = r.randint(0, 1)
            alloc = strat != 1 and not (3 <= strat <= 5 and useRow)
            hlog = r.randint(4, 5)
            clog = r.randint(4, 5) if alloc else r.choice([6, 17, 24, 29, 30])
            wl = r.choice([10, 10, 14, 17, 20, 24, 27, 30, 31])
            h3 = r.choice([0, 4])
            params = (wl, clog, hlog, strat, useRow, h3)
        wl, clog, hlog, strat, useRow, h3 = params
        self.params = params
        alloc = strat != 1 and not (3 <= strat <= 5 and useRow)
        self.tabs = (1 << hlog, (1 << clog) if alloc else 0, (1 << h3) if h3 else 0)
        self.finder(ldm=False)   # the tables are (re)carved for the new parameters before the reset logic runs
        ldm = 1 if r.random() < 0.3 else 0
        forced = 1 if r.random() < 0.1 else 0
        lit = r.randint(0, 1 << 20)
        ldmlit = r.randint(0, 1 << 20)
        has = 1 if (big_dict or r.random() < 0.4) else 0
        dsz = 0
        dsrc = 0
        lds = 0
        if has:
            if big_dict:
                dsz = r.choice([self.CMAX - 2 + r.randint(-3, 3), self.CHUNK + r.randint(-2, 2), self.CMAX - r.randint(0, 1 << 20), r.randint(1 << 28, self.CMAX + (1 << 20))])
            else:
                dsz = r.choice([0, 1, 8, 9, 100, 1 << 20, r.randint(1, 1 << 28), self.CHUNK + r.randint(-2, 0)])
            dsz = max(0, dsz)
            dsrc = self.alloc(dsz)
            lds = dsz + r.choice([0, 0, 100])
        self.lines.append((101, [wl, clog, hlog, strat, useRow, h3, ldm, forced, lit, ldmlit, lds, has, dsrc, dsz, 1 if r.random() < 0.1 else 0, 1 if r.random() < 0.2 else 0],
                           ("begin", has, big_dict, ldm, forced)))
        self.ldm = ldm
        self.nxt = (dsrc + dsz) if (has and dsz > 0) else None
        self.finder()

    def finder(self, ldm=True):
        r = self.r
        nh, nc, n3 = self.tabs
        hi = self.CMAX
        def tab(n):
            return [r.choice([0, 1, 2, r.randint(0, hi), r.randint(0, U32 - 1)]) for _ in range(n)]
        self.lines.append((105, [r.randint(0, hi), nh, nc, n3] + tab(nh) + tab(nc) + tab(n3), ("finder",)))
        if self.ldm and ldm:
            self.lines.append((106, tab(r.choice([8, 16])), ("ldmfinder",)))

    def cont(self, nblocks, bs_max=131072, contiguous=None):
        r = self.r
        k = r.random()
        if k < 0.6:
            blocks = [bs_max] * nblocks
        elif k < 0.8:
            blocks = [r.randint(1, bs_max) for _ in range(nblocks)]
        else:
            blocks = [r.choice([1, 6, 7, 8, 1000, bs_max]) for _ in range(nblocks)]
        total = sum(blocks)
        if contiguous is None:
            contiguous = r.random() < 0.7
        if contiguous and self.nxt is not None and self.nxt + total < 12 * GIB:
            src = self.nxt
        else:
            src = self.alloc(total)
        self.lines.append((103, [src] + blocks, ("continue", src == self.nxt, min(nblocks, 3))))
        self.nxt = src + total

    def blockmode(self, size):
        r = self.r
        if r.random() < 0.7 and self.nxt is not None and self.nxt + size < 12 * GIB:
            src = self.nxt
        else:
            src = self.alloc(size)
        self.lines.append((104, [src, size], ("blockmode", src == self.nxt)))
        self.nxt = src + size

    def attach(self):
        r = self.r
        end = r.choice([2, 3, 100, 1 << 20, r.randint(2, self.CMAX), self.CMAX])
        self.lines.append((102, [end, r.choice([2, 2, end])], ("attach",)))
        self.nxt = None


def gen_history(rng, K, freq, kind, steps):
    h = HistGen(rng, K, freq)
    h.lines.append((100, [], ("reset",)))
    r = rng
    if kind == "frames":
        # multi-frame life of a context: begins (with / without dictionary, with parameter changes), chunks of blocks
        h.begin(big_dict=r.random() < 0.5)
        n = 0
        while n < steps:
            k = r.random()
            if k < 0.08:
                h.begin(big_dict=r.random() < 0.3)
            elif k < 0.11:
                h.begin(params=h.params)
                h.attach()
            elif k < 0.2:
                h.finder()
            else:
                nb = r.choice([1, 2, 5, 50, 400, 2000])
                h.cont(nb, bs_max=r.choice([131072, 131072, 1024, 1 << (h.params[0] if h.params[0] < 17 else 17)]))
                n += 1
    elif kind == "chunks":
        # chunk machine: ZSTD_window_update + ZSTD_overflowCorrectIfNeeded with chunks up to ZSTD_CHUNKSIZE_MAX
        strat = r.choice([1, 3, 4, 5])
        wl = r.choice([10, 20, 27, 30, 31])
        clog = r.choice([6, 17, 24, 29, 30])
        h.begin(params=(wl, clog, 4, strat, 1, 0))
        for _ in range(steps):
            k = r.random()
            if k < 0.02:
                h.begin(params=h.params)
            elif k < 0.05:
                h.finder()
            else:
                h.blockmode(r.choice([h.CHUNK, h.CHUNK, r.randint(1, h.CHUNK), r.randint(1, 1 << 20)]))
    return h.lines


# ------------------------------------------------------------------------------------------------

def run_lines(exe, args, lines, timeout):
    inp = "\n".join(" ".join([str(opc)] + [str(a) for a in a_]) for opc, a_, _ in lines) + "\n"
    # the extracted reduce_rows recurses 2^hashLog / 16 deep whatever the table holds (level-derived hashLog 21 of the R3
    # block-mode sessions: 131072 frames): give the model process a large stack
    import shlex
    cmd = "ulimit -s 1000000 2>/dev/null; exec " + " ".join(shlex.quote(x) for x in [exe] + list(args))
    rc, out, err = core.sh(cmd, inp=inp.encode(), timeout=timeout)
    return rc, out.split("\n")[:-1] if out.endswith("\n") else out.split("\n"), err


def diff_runs(ctx, name, freq, lines, cexe, mexe, timeout=600):
    """Run the same case lines through the real code and the extracted model; returns the list of mismatches
    (index, line, model, real)."""
    t0 = time.time()
    rc1, o1, e1 = run_lines(cexe, [], lines, timeout)
    rc2, o2, e2 = run_lines(mexe, [str(freq)], lines, timeout)
    mism = []
    if rc1 != 0 or rc2 != 0 or len(o1) != len(lines) or len(o2) != len(lines):
        mism.append((-1, None, "rc=%d n=%d %s" % (rc2, len(o2), e2[-300:]), "rc=%d n=%d %s" % (rc1, len(o1), e1[-300:])))
        return mism
    for i, (ln, a, b) in enumerate(zip(lines, o2, o1)):
        if a != b:
            mism.append((i, ln, a, b))
    core.log("C15 %s freq=%d: %d lines, %d mismatches, %.1fs" % (name, freq, len(lines), len(mism), time.time() - t0))
    return mism


def first_divergence(m, r):
    a, b = m.split(), r.split()
    for i, (x, y) in enumerate(zip(a, b)):
        if x != y:
            return i, x, y
    return min(len(a), len(b)), None, None


# ------------------------------------------------------------------------------------------------
# tie (2): real contexts (harness/c15_ctx.c), window predicted by the model, direct oracles rt / fresh

P_WLOG, P_HLOG, P_CLOG, P_SLOG, P_MML, P_TLEN, P_STRAT = 101, 102, 103, 104, 105, 106, 107
P_LDM, P_LDMHLOG, P_LDMMML, P_CHECKSUM = 160, 161, 162, 201
P_NBWORKERS, P_JOBSIZE = 400, 401
P_FORCEWIN, P_ATTACH, P_ROW, P_DETREF, P_MAXBLOCK, P_LEVEL = 1000, 1001, 1011, 1012, 1015, 100


class Scenario:
    def __init__(self, rng, K, arena_mb, quick):
        self.r = rng
        self.K = K
        self.arena = arena_mb << 20
        self.quick = quick
        self.cmds = []       # command strings
        self.meta = []       # per command: dict (params in force, kind)
        self.params = {}
        self.CMAX = K["ZSTD_CURRENT_MAX"]
        self.MARGIN = K["ZSTD_INDEXOVERFLOW_MARGIN"]

    def emit(self, s, **m):
        self.cmds.append(s)
        m["params"] = dict(self.params)
        self.meta.append(m)

    def set_params(self, strat=None, wlog=None, ldm=None):
        r = self.r
        self.emit("resetparams")
        self.params = {}
        if strat is None:
            strat = r.randint(1, 9)
        if wlog is None:
            wlog = r.choice([10, 10, 11, 12, 14, 16, 17, 18, 20])
        p = {P_WLOG: wlog, P_STRAT: strat, P_HLOG: r.randint(6, 13), P_CLOG: r.randint(6, 13), P_SLOG: r.randint(1, 3),
             P_MML: r.randint(3, 6), P_TLEN: r.choice([0, 4, 16, 48]), P_CHECKSUM: r.randint(0, 1)}
        if 3 <= strat <= 5:
            p[P_ROW] = r.choice([1, 2])          # ZSTD_ps_enable / ZSTD_ps_disable
        if ldm is None:
            ldm = r.random() < 0.3
        if ldm:
            p[P_LDM] = 1
            p[P_LDMHLOG] = r.randint(6, 12)
            p[P_LDMMML] = r.choice([4, 16, 64])
        if r.random() < 0.25:
            p[P_MAXBLOCK] = r.choice([1024, 4096, 1 << 16])
        if r.random() < 0.1:
            p[P_FORCEWIN] = 1
        if r.random() < 0.3:
            p[P_DETREF] = 1
        for k, v in p.items():
            self.emit("param %d %d" % (k, v))
            self.params[k] = v

    def slice(self, size):
        off = self.r.randint(0, self.arena - size - 1)
        return off

    def dict_cmd(self):
        r = self.r
        k = r.random()
        if k < 0.45:
            self.emit("nodict")
            self.params.pop(P_ATTACH, None)
            return
        size = r.choice([0, 4, 7, 8, 9, 100, 4096, 1 << 16, r.randint(1, 1 << 18)])
        off = self.slice(max(size, 1))
        if k < 0.75:
            self.emit("prefix %d %d" % (off, size))
        else:
            pref = r.choice([1, 2, 3])
            self.emit("param %d %d" % (P_ATTACH, pref))
            self.params[P_ATTACH] = pref
            self.emit("dict %d %d" % (off, size))

    def oneshot(self, predicted=True):
        r = self.r
        size = r.choice([0, 1, 6, 7, 8, 9, 100, 1000, 1 << 16, 131072, r.randint(1, 131072)]) if predicted else r.randint(131073, 1 << 21)
        self.emit("oneshot %d %d" % (self.slice(max(size, 1)), size), kind="oneshot")

    def stream(self, big=False):
        r = self.r
        size = r.randint(1 << 16, (24 << 20) if big else (2 << 20))
        cin = r.choice([1, 7, 100, 1000, 4096, 1 << 16, 1 << 17, (1 << 17) + 1]) if not big else r.choice([4096, 1 << 16, 1 << 17])
        if size // cin > 200000:
            cin = 1000
        cout = r.choice([1, 64, 1000, 1 << 17]) if not big else 1 << 17
        if size // cout > 400000:
            cout = 4096
        self.emit("stream %d %d %d %d %d" % (self.slice(size), size, cin, cout, r.choice([0, 0, 3, 10])), kind="stream")

    def bufferless(self, nch=None, strat=None, wlog=None, total=None):
        r = self.r
        if strat is None:
            strat = r.randint(1, 9)
        if wlog is None:
            wlog = r.choice([10, 12, 14, 17, 20, 24, 27, 30, 31]) if strat < 7 else r.choice([10, 12, 14, 17, 20, 27])
        hlog = r.randint(6, 14)
        clog = r.randint(6, 14) if not (strat == 1) else r.choice([6, 17, 24, 29, 30])
        if 3 <= strat <= 5 and wlog > 14:      # the row match finder is chosen: the chain table is not allocated
            clog = r.choice([6, 12, 17, 24, 29, 30])
        if nch is None:
            nch = r.choice([1, 2, 3, 8, 30])
        chunks = []
        pos = self.r.randint(0, self.arena // 2)
        for i in range(nch):
            n = r.choice([131071, 100000, 1, 6, 7, 8, 9, 1000, r.randint(1, 131071)]) if total is None else min(131071, max(1, total // nch))
            if r.random() < 0.25 or pos + n >= self.arena:
                pos = self.slice(n)
            chunks += [pos, n]
            pos += n
        if r.random() < 0.3:
            size = r.choice([8, 100, 1 << 16, 1 << 20])
            self.emit("prefix %d %d" % (self.slice(size), size))
        else:
            self.emit("nodict")
        self.emit("bufferless %d %d %d %d %d %d %d %d %d %s" % (wlog, clog, hlog, r.randint(1, 3), r.randint(3, 6), r.choice([0, 8, 32]), strat,
                                                                 r.randint(0, 1), nch, " ".join(map(str, chunks))), kind="bufferless")

    def bufferless_seq(self, strat, wlog, sizes):
        r = self.r
        pos = r.randint(0, self.arena // 2)
        chunks = []
        for n in sizes:
            chunks += [pos, n]
            pos += n
        self.emit("nodict")
        self.emit("bufferless %d %d %d %d %d %d %d %d %d %s" % (wlog, r.randint(6, 12), r.randint(6, 12), 1, r.randint(4, 6), 0, strat, 0, len(sizes),
                                                                 " ".join(map(str, chunks))), kind="bufferless")

    def blockapi(self, regression=None):
        """R3: a block-level session (ZSTD_compressBlock) on the reused context: begin with a raw dictionary loaded into the
        context / with an attached by-reference CDict / without, then blocks that are contiguous, at a new address, or cover
        the previous block's addresses (a caller re-using its input buffer), some of them pieces of the dictionary itself."""
        r = self.r
        if regression is not None:
            mode, level, doff, dsz, chunks = regression
        else:
            mode = r.choice([0, 1, 1, 2, 3, 3])     # 2 / 3: frame mode (ZSTD_compressContinue) after the same begins
            level = r.choice([1, 2, 3, 4, 5, 6, 7, 9, 12, 13, 16, 19])
            dsz = r.choice([0, 8, 100, 4096, 4096, 1 << 16, r.randint(8, 1 << 17)])
            doff = self.slice(max(dsz, 1) + (1 << 15))
            n = r.choice([2, 3, 5, 12])
            chunks = []
            pos = self.slice(1 << 18)
            prev = None
            for i in range(n):
                size = r.choice([1, 6, 7, 9, 500, 1000, 1024, 3000, r.randint(1, 8192)])
                k = r.random()
                if prev is not None and k < 0.3:
                    pos = prev[0] - r.choice([0, 0, 1, 100]) if prev[0] >= 100 else prev[0]      # covers the previous block
                    size = prev[1] + r.choice([0, 1, 1000])
                elif k < 0.5 and dsz >= 2048:
                    pos = doff + r.randint(0, dsz // 2)                                       # a piece of the dictionary
                elif k < 0.65:
                    pos = self.slice(1 << 18)
                chunks += [pos, size]
                prev = (pos, size)
                pos += size
        self.emit("blockapi %d %d %d %d %d %s" % (mode, level, doff, dsz, len(chunks) // 2, " ".join(map(str, chunks))), kind="blockapi")

    def build(self):
        r = self.r
        n_rounds = 10 if self.quick else 40
        # R3 regression scenarios of finding 6.5 (repaired in /repo 00d59f3): attached CDict, second block covers the first
        d0 = self.slice(1 << 16)
        self.blockapi(regression=(1, 3, d0, 4096, [d0 + 1000, 1000, d0 + 1000, 2000]))
        self.blockapi(regression=(0, 3, d0, 4096, [d0 + 1000, 1000, d0 + 1000, 2000]))
        self.blockapi(regression=(3, 3, d0, 4096, [d0 + 1000, 1000, d0 + 1000, 2000, d0 + 1000, 3000]))
        order = list(range(1, 10))
        r.shuffle(order)
        for i in range(n_rounds):
            strat = order[i % 9]
            self.set_params(strat=strat)
            for _ in range(r.randint(2, 4)):
                self.dict_cmd()
                k = r.random()
                if k < 0.5:
                    self.oneshot()
                elif k < 0.6:
                    self.oneshot(predicted=False)
                else:
                    self.stream()
            self.bufferless(strat=strat)
            if r.random() < 0.6:
                self.blockapi()
            if i % 3 == 0:
                # a match finder that never moves nextToUpdate (fast / dfast), a window smaller than a block, searched blocks
                # followed by unsearched ones: the clamp of nextToUpdate to lowLimit is the only thing that moves it
                self.bufferless_seq(strat=r.choice([1, 2]), wlog=r.choice([10, 11, 12]), sizes=[r.choice([100000, 5000, 131071]), 6, 1, r.choice([3000, 100000]), 6, 6])
            # time travel: index near the reset threshold / near ZSTD_CURRENT_MAX
            k = r.random()
            edge = self.CMAX - self.MARGIN
            if k < 0.3:
                self.emit("warpto %d" % (edge + r.randint(-3, 3)))
                self.oneshot()
            elif k < 0.55:
                # no reset at begin, the frame itself crosses ZSTD_CURRENT_MAX: real correction in the default build
                self.emit("warpto %d" % (edge - r.randint(0, 1 << 20)))
                self.bufferless(nch=r.choice([180, 200]), strat=r.choice([1, 2, 3, 4, 5, 6]), wlog=r.choice([10, 14, 17, 20, 24, 27, 30, 31]), total=19 << 20)
            elif k < 0.7:
                self.emit("warpto %d" % (edge - r.randint(0, 1 << 20)))
                self.set_params(strat=r.choice([1, 2, 3, 4, 5, 6, 7]), wlog=r.choice([10, 14, 17, 20]))
                self.emit("nodict")
                self.stream(big=True)
            elif k < 0.78:
                # R3: a block-level session (128 KiB blocks, no dictionary) that crosses ZSTD_CURRENT_MAX: the correction of the
                # block-mode branch of ZSTD_compressContinue_internal runs for real in the default build
                self.emit("warpto %d" % (edge - r.randint(0, 1 << 20)))
                pos = r.randint(0, self.arena // 4)
                chunks = []
                for _ in range(150):
                    n = 131072
                    if pos + n >= self.arena or r.random() < 0.05:
                        pos = r.randint(0, self.arena // 4)
                    chunks += [pos, n]
                    pos += n
                self.emit("blockapi 0 %d 0 0 %d %s" % (r.choice([3, 5, 9]), len(chunks) // 2, " ".join(map(str, chunks))), kind="blockapi")
            elif k < 0.86:
                # a dictionary load that crosses ZSTD_CURRENT_MAX
                self.emit("warpto %d" % (edge - r.randint(0, 1000)))
                size = (17 << 20) + r.randint(0, 1 << 16)
                if size < self.arena:
                    self.emit("prefix %d %d" % (self.slice(size), size))
                    self.oneshot()
            if r.random() < 0.1:
                self.emit("newctx")
        return self


def parse_ctx_line(ln):
    toks = ln.split()
    d = {"_t": toks[0]}
    for t in toks[1:]:
        if "=" in t:
            k, v = t.split("=", 1)
            d[k] = v
    return d


def ints(s):
    return [int(x) for x in s.split(",")]


def predict_frames(sc, out_lines, freq, K):
    """Build the model case lines for every predictable transition of the real context.
    Returns (model_lines, expectations): expectations[i] = (model line index, expected fields dict, description)."""
    model = [(100, [], ("reset",))]
    expect = []
    prev = None          # last observed state of the reused context
    it = iter(out_lines)
    cmd_i = 0
    frames = [m for m in sc.meta]
    # map F/B lines to the meta of their command, in order
    fmeta = [m for m in sc.meta if m.get("kind")]
    fi = 0
    cur = None
    for ln in out_lines:
        d = parse_ctx_line(ln)
        t = d["_t"]
        if t == "N":
            prev = None
            continue
        if t == "X":
            if prev is not None:
                prev = dict(prev); prev["W"] = d["W"]
            continue
        if t == "B" or (t == "F" and d.get("api") in ("oneshot", "stream")):
            meta = fmeta[fi]; fi += 1
            cur = meta
        if t == "F" and d.get("api") in ("bufferless", "blockapi"):
            continue
        if not all(k in d for k in ("W", "lde", "dms", "fnc", "ntu", "ofs", "ap", "bsmax")):
            continue      # truncated line (the harness died) or a line without state
        predictable = False
        if t == "F" and d.get("api") == "oneshot" and "cerr" not in d:
            size = int(d["size"]); bsmax = int(d["bsmax"])
            predictable = size <= 131072 or bsmax < 131072
        if t == "B" and d.get("err") == "0":
            predictable = True
        if t == "C":
            predictable = cur is not None and cur.get("ok", False)
        if predictable:
            ap = ints(d["ap"])    # wlog clog hlog strat row ldm h3
            if t in ("F", "B"):
                params = cur["params"]
                if prev is not None:
                    model.append((108, ints(prev["W"]) + [int(prev["lde"]), int(prev["dms"]), int(prev["fnc"]), int(prev["ntu"]), int(prev.get("ofs", 1))], ("inject",)))
                dm, doff, dsz = ints(d["dict"])
                fw = params.get(P_FORCEWIN, 0) if t == "F" else 0
                drp = params.get(P_DETREF, 0) if t == "F" else 0
                pref = params.get(P_ATTACH, 0)
                if cur.get("kind") == "blockapi":
                    # ZSTD_compressBegin_usingCDict / _usingDict build their own parameters: a CDict is attached (size unknown)
                    pref = 1 if dm == 2 else 0
                lds, has = 0, 0
                post = None
                if dm == 1 or (dm == 2 and pref == 3):
                    lds = dsz
                    has = 1 if dsz >= 8 else 0
                elif dm == 2 and dsz > 0 and "CD" in d:
                    cd = ints(d["CD"])
                    if pref == 1 and not fw:
                        post = (102, [(cd[0] - cd[1]) % U32, cd[3]])
                    elif pref == 2 or (pref == 1 and fw):
                        post = (107, cd + [int(d["cdl"]), int(d["cdn"])])
                    else:
                        predictable = False
                if predictable:
                    lit = int(d["lit"])
                    model.append((101, [ap[0], ap[1], ap[2], ap[3], ap[4], ap[6], ap[5], int(d["forced"]), lit, lit, lds, has, doff, dsz, fw, drp], ("rbegin", dm, pref)))
                    if post:
                        model.append((post[0], post[1], ("rdict", post[0])))
                    if t == "F":
                        size = int(d["size"]); bsmax = max(1, int(d["bsmax"]))
                        blocks = [bsmax] * (size // bsmax) + ([size % bsmax] if size % bsmax else [])
                        model.append((103, [int(d["off"])] + blocks, ("roneshot", len(blocks) > 1)))
                    else:
                        cur["ok"] = True
                    expect.append((len(model) - 1, d, "%s %s" % (t, d.get("api"))))
            else:  # C
                if prev is not None and "ntu" in prev:
                    model.append((109, [int(prev["ntu"])], ("ntu",)))     # what the match finder left
                size = int(d["size"]); bsmax = max(1, int(d["bsmax"]))
                blocks = [bsmax] * (size // bsmax) + ([size % bsmax] if size % bsmax else [])
                if d.get("api") == "block":
                    model.append((104, [int(d["off"]), size], ("rblock", size < 7)))      # OpBlockMode on the real context (R3)
                else:
                    model.append((103, [int(d["off"])] + blocks, ("rcontinue", len(blocks) > 1)))
                expect.append((len(model) - 1, d, "C %s" % d.get("api")))
        else:
            if cur is not None and t in ("B", "C"):
                cur["ok"] = False
        prev = d
    return model, expect


def compare_prediction(mout, expect, tiny=7):
    """mout: model output lines; returns mismatches [(desc, field, model, real)]."""
    bad = []
    for idx, d, desc in expect:
        m = [int(x) for x in mout[idx].split()]
        # layout of h_out: W(6) lde ntu dms fnc ck ck ck ldmflag [W(6) lde ck] ok
        real_w = ints(d["W"])
        if m[0:6] != real_w:
            bad.append((desc, "window", m[0:6], real_w)); continue
        if m[6] != int(d["lde"]):
            bad.append((desc, "loadedDictEnd", m[6], int(d["lde"]))); continue
        if m[8] != int(d["dms"]):
            bad.append((desc, "dictMatchState", m[8], int(d["dms"]))); continue
        if m[9] != int(d["fnc"]):
            bad.append((desc, "forceNonContiguous", m[9], int(d["fnc"]))); continue
        # nextToUpdate is the match finder's business, except when the whole call was one block below 7 bytes: that block is
        # not searched, so the value is exactly what the index code (correction, clamp to lowLimit) left
        if d.get("_t") == "C" and d.get("size", "").isdigit() and 0 < int(d["size"]) < tiny and m[7] != int(d["ntu"]):
            bad.append((desc, "nextToUpdate after an unsearched block", m[7], int(d["ntu"]))); continue
        # the chunk loop of ZSTD_ldm_generateSequences is guarded by `sequences->size < sequences->capacity`; the model has no
        # sequence store, so frames whose LDM store has capacity 0 (blockSize < ldm minMatchLength: tiny pledged sizes) are
        # not compared on the LDM window (documented tie restriction, docs/C15.md section 7)
        if "LW" in d and d.get("lcap", "1") != "0":
            if m[13] != 1 or m[14:20] != ints(d["LW"]) or m[20] != int(d["llde"]):
                bad.append((desc, "ldm window", m[13:21], ints(d["LW"]) + [int(d["llde"])])); continue
        if m[-2] != int(d["ofs"]):
            bad.append((desc, "opt.litLengthSum == 0", m[-2], int(d["ofs"]))); continue
        if m[-1] != 1:
            bad.append((desc, "model observer: an index wrapped", m[-1], 1))
    return bad


KEY_DICT_DROPPED = "C15-dict-dropped-by-index-correction"


def oracle_failures(out_lines, K):
    """Direct oracles on the real run: every frame round-trips, equals the fresh-context output, index bounded,
    no table cell above the current index.  Returns (number of frames, [(line number, why, key or None)]).

    key KEY_DICT_DROPPED (finding, see docs/C15.md): ZSTD_overflowCorrectIfNeeded invalidates the dictionary; a frame
    that (a) uses a dictionary / prefix, (b) did not re-create its index referential at frame start and (c) crossed
    ZSTD_CURRENT_MAX inside the frame (dictionary load included) round-trips but may differ from the fresh-context
    output.  Only a reused != fresh difference of exactly such a frame carries the key."""
    fails = []
    nf = 0
    CMAX = K["ZSTD_CURRENT_MAX"]
    limit = CMAX + K["ZSTD_CHUNKSIZE_MAX"]
    idx_now = 0          # (nextSrc - base) of the reused context after the last line that showed it
    idx_begin = 0        # the same, before the frame in progress started
    frame = None         # dict(mode, dsz, forced) of the bufferless frame in progress
    for i, ln in enumerate(out_lines):
        d = parse_ctx_line(ln)
        t = d["_t"]
        if t == "E":
            fails.append((i, "harness/library error: " + ln[:200], None))
        if t == "N":
            idx_now = 0
        if t == "B":
            idx_begin = idx_now
            try:
                dm, _, dsz = ints(d.get("dict", "0,0,0"))
            except ValueError:
                dm, dsz = 0, 0
            frame = dict(mode=dm, dsz=dsz, forced=d.get("forced"))
        if t == "F":
            nf += 1
            api = d.get("api")
            if api in ("oneshot", "stream"):
                idx_begin = idx_now
                try:
                    dm, _, dsz = ints(d.get("dict", "0,0,0"))
                except ValueError:
                    dm, dsz = 0, 0
                frame = dict(mode=dm, dsz=dsz, forced=d.get("forced"))
            if d.get("rt") != "1":
                fails.append((i, "frame does not round-trip: " + ln[:300], None))
            elif d.get("fresh") != "1" and api == "blockapi" and (d.get("rnb", "0") != "0" or d.get("fnb", "0") != "0"):
                pass      # block mode does not enforce the window: an index correction is visible in the output (docs/C15.md 6.6)
            elif d.get("fresh") != "1":
                key = None
                try:
                    size = int(d.get("size", "0"))
                    if (frame and frame["mode"] != 0 and frame["dsz"] > 0 and frame["forced"] == "0"
                            and idx_begin <= CMAX - K["ZSTD_INDEXOVERFLOW_MARGIN"]
                            and idx_begin + frame["dsz"] + size > CMAX):
                        key = KEY_DICT_DROPPED
                except ValueError:
                    pass
                fails.append((i, "reused context output differs from fresh context output: " + ln[:300], key))
            frame = None if api not in ("bufferless", "blockapi") else frame
        if t == "G":
            if d.get("rt") != "1":
                fails.append((i, "long stream does not round-trip: " + ln[:300], None))
            elif d.get("fresh", "1") != "1":
                fails.append((i, "reused (multi-threaded) context output differs from fresh context output: " + ln[:300], None))
            if d.get("wtbad", "0") != "0":
                fails.append((i, "a worker context's table holds an index above its current index: " + ln[:300], None))
        if t == "M":
            if d.get("exact") != "1" or d.get("jexact") != "1":
                fails.append((i, "the 32-bit index of the serial LDM window of ZSTDMT wrapped: " + ln[:300], None))
        if t == "T" and d.get("api") == "mtjobwrap":
            if d.get("hang") == "1":
                fails.append((i, "multithreaded frame stuck (a flush call never returns): " + ln[:300], "C15-zstdmt-job-counter-wraps"))
            elif d.get("rt") != "1":
                fails.append((i, "multithreaded frame does not round-trip: " + ln[:300], None))
        if "idx" in d and d["idx"].lstrip("-").isdigit():
            if not (0 <= int(d["idx"]) <= limit):
                fails.append((i, "index out of the 32-bit range: " + ln[:300], None))
            idx_now = int(d["idx"])
        elif "W" in d:
            try:
                w = ints(d["W"])
                idx_now = w[0] - w[1]
            except ValueError:
                pass
        for fld, what in (("tbad", "a match-state table holds an index above the current index"),
                          ("ltbad", "the LDM hash table holds an index above the LDM window's current index"),
                          ("ntubad", "nextToUpdate is above the current index")):
            if fld in d and d[fld] != "0":
                fails.append((i, what + ": " + ln[:300], None))
    return nf, fails


def run_scenario(exe, arena_mb, cmds, timeout=900):
    rc, out, err = core.sh([exe, str(arena_mb)], inp=("\n".join(cmds) + "\n").encode(), timeout=timeout)
    lines = [l for l in out.split("\n") if l]
    return rc, lines, err


# ------------------------------------------------------------------------------------------------
# the check

def shrink_scenario(exe, arena_mb, cmds, K, budget=25, key=None, wall=75):
    """Best-effort reduction of a failing real-context scenario: cut after the first failing frame, then drop
    earlier frame commands one at a time while a failure of the same class (same finding key) persists.
    Bounded by [budget] trials and [wall] seconds."""
    t_end = time.time() + wall
    def failing(c):
        rc, lines, err = run_scenario(exe, arena_mb, c, timeout=600)
        nf, fails = oracle_failures(lines, K)
        fails = [f for f in fails if f[2] == key]
        return (rc != 0) or bool(fails), lines, (fails[0][1] if fails else ("rc=%d %s" % (rc, err[-200:]))), (fails[0][0] if fails else len(lines))
    bad, lines, why, at = failing(cmds)
    if not bad:
        return cmds, None
    # cut: how many frame commands had been executed when the first failure showed
    frames_seen = sum(1 for l in lines[:at + 1] if l.startswith("F ") or l.startswith("G "))
    cut, k = [], 0
    for c in cmds:
        cut.append(c)
        if c.split()[0] in ("oneshot", "stream", "bufferless", "blockapi", "bigstream", "mtstream"):
            k += 1
            if k >= max(frames_seen, 1):
                break
    if len(cut) < len(cmds) and failing(cut)[0]:
        cmds = cut
    n = 0
    i = 0
    while i < len(cmds) - 1 and n < budget and time.time() < t_end:
        if cmds[i].split()[0] in ("oneshot", "stream", "bufferless", "blockapi", "bigstream", "mtstream"):
            trial = cmds[:i] + cmds[i + 1:]
            n += 1
            if failing(trial)[0]:
                cmds = trial
                continue
        i += 1
    return cmds, why


def ctx_job(exe, mexe, freq, K, seed, arena_mb, quick, extra_cmds=None):
    rng = random.Random(seed)
    sc = Scenario(rng, K, arena_mb, quick).build()
    if extra_cmds:
        for c in extra_cmds:
            t = c.split()
            if t[0] == "resetparams":
                sc.params = {}
            if t[0] == "param":
                sc.params[int(t[1])] = int(t[2])
            if t[0] in ("oneshot", "stream", "bufferless", "blockapi"):
                sc.emit(c, kind=t[0])
            else:
                sc.emit(c)
    t0 = time.time()
    rc, lines, err = run_scenario(exe, arena_mb, sc.cmds, timeout=1500)
    res = dict(freq=freq, seed=seed, rc=rc, err=err[-300:], cmds=sc.cmds, nlines=len(lines), wall=time.time() - t0)
    nf, fails = oracle_failures(lines, K)
    res["frames"] = nf
    res["fails"] = fails
    res["big"] = [parse_ctx_line(l) for l in lines if l.startswith("G ")]
    def _safe(f, l):
        try:
            return f(parse_ctx_line(l))
        except (KeyError, ValueError, IndexError):
            return 0
    res["max_nbovf"] = max([_safe(lambda d: ints(d["W"])[5], l) for l in lines if " W=" in l] or [0])
    res["max_idx"] = max([_safe(lambda d: int(d["idx"]), l) for l in lines if " idx=" in l] or [0])
    model, expect = predict_frames(sc, lines, freq, K)
    rc2, mout, e2 = run_lines(mexe, [str(freq)], model, 900)
    if rc2 != 0 or len(mout) != len(model):
        res["pred_bad"] = [("model run", "rc", rc2, e2[-200:])]
    else:
        res["pred_bad"] = compare_prediction(mout, expect, tiny=K.get("MIN_CBLOCK_SIZE", 2) + K.get("ZSTD_blockHeaderSize", 3) + 2)
    res["predicted"] = len(expect)
    res["sigs"] = [tuple(l[2]) for l in model] + [("ctx", parse_ctx_line(l).get("api"), parse_ctx_line(l).get("ap", "").split(",")[3:6] and tuple(parse_ctx_line(l).get("ap", "0,0,0,0,0,0").split(",")[3:6])) for l in lines if l[:2] in ("F ", "C ")]
    res["sample"] = [l[:260] for l in lines if l.startswith("F ")][:2]
    return res


KEY_LDM_TINY = "C15-ldm-window-not-corrected-on-tiny-blocks"


def ldm_probe_job(exe, freq, ncalls, tail, warp_idx, timeout=1500):
    """Finding probe (docs/C15.md, Findings): LDM on, one frame fed through ZSTD_compressStream2 + ZSTD_e_flush in 6-byte
    pieces (blocks below 7 bytes never reach ZSTD_ldm_generateSequences, the only place where the LDM window is overflow
    corrected), then 64 KiB pieces.  warp_idx = 0: pure public API (ncalls must exceed 2^32 / 6); otherwise the LDM window
    is moved to index warp_idx half way (test device).  Oracle: the LDM index stays an exact U32 and the frame round-trips."""
    cmds = ["resetparams", "param %d 1" % P_LEVEL, "param %d 17" % P_WLOG, "param %d 1" % P_LDM, "nodict",
            "ldmtiny %d %d %d" % (ncalls, tail, warp_idx)]
    t0 = time.time()
    rc, lines, err = run_scenario(exe, 8, cmds, timeout=timeout)
    tl = [parse_ctx_line(l) for l in lines if l.startswith("T ")]
    gl = [parse_ctx_line(l) for l in lines if l.startswith("G ")]
    res = dict(freq=freq, cmds=cmds, rc=rc, ncalls=ncalls, warp_idx=warp_idx, wall=time.time() - t0,
               ldmidx=int(tl[0]["ldmidx"]) if tl else None, exact=(tl[0].get("ldmexact") == "1") if tl else None,
               lnbovf=int(tl[0]["lnbovf"]) if tl else None, rt=(gl[0].get("rt") == "1") if gl else None,
               errors=[l[:200] for l in lines if l.startswith("E ")])
    return res


KEY_MT_JOBS = "C15-zstdmt-job-counter-wraps"


def mt_job_probe_job(exe, mexe, freq, nbw, start, nflush, chunk=1000):
    """Finding probe (docs/C15.md 6.3): the per-frame job counters of ZSTDMT are 32 bits wide.  One multithreaded frame fed
    through ZSTD_compressStream2 + ZSTD_e_flush (one job per call); after the first flush the counters are moved to
    `start` (test device; 0 = pure public API).  The extracted model (MtJobs.v, opcode 19) predicts how many flush calls
    return and the counters at that point; the watchdog of the harness reports a call that never returns."""
    cmds = ["resetparams", "param %d 1" % P_LEVEL, "param %d %d" % (P_NBWORKERS, nbw), "nodict",
            "mtjobwrap %d %d %d" % (start, nflush, chunk)]
    t0 = time.time()
    rc, lines, err = run_scenario(exe, 8, cmds, timeout=120)
    tl = [parse_ctx_line(l) for l in lines if l.startswith("T ")]
    res = dict(freq=freq, cmds=cmds, rc=rc, nbw=nbw, start=start, nflush=nflush, wall=time.time() - t0,
               errors=[l[:200] for l in lines if l.startswith("E ")], real=None, model=None)
    if tl:
        d = tl[0]
        res["real"] = dict(flushes=int(d["flushes"]), hang=int(d["hang"]), next=int(d["next"]), done=int(d["done"]), mask=int(d["mask"]), rt=int(d["rt"]))
        s0 = start if start else 1          # counters when the observed flush calls begin (one job is done by then)
        rc2, mout, e2 = run_lines(mexe, [str(freq)], [(19, [s0, s0, res["real"]["mask"], nflush], ())], 60)
        if rc2 == 0 and len(mout) == 1:
            m = ints(mout[0].replace(" ", ","))
            res["model"] = dict(flushes=m[0], hang=int(m[0] < nflush), next=m[1], done=m[2], table_full=m[3], first_job=m[4])
    return res


def mt_ldm_load_job(exe, mexe, freq, cases):
    """Unit-level tie of ZSTDMT_serialState_reset (+ the window update of the first job): the LDM window of the serial
    state after loading a raw-content prefix of the given size (sparse zero mapping) is compared field by field with
    mt_serial_ldm_load / mt_serial_ldm_job of the model (opcode 20), and its current index must be exact."""
    cmds = ["resetparams", "param %d 1" % P_LEVEL, "param %d 1" % P_LDM, "nodict"]
    cmds += ["mtldmload %d %d %d %d" % c for c in cases]
    t0 = time.time()
    rc, lines, err = run_scenario(exe, 8, cmds, timeout=600)
    ml = [parse_ctx_line(l) for l in lines if l.startswith("M ")]
    res = dict(freq=freq, cmds=cmds, rc=rc, wall=time.time() - t0, n=len(ml), mism=[], inexact=[],
               errors=[l[:200] for l in lines if l.startswith("E ")])
    if rc != 0 or len(ml) != len(cases):
        res["mism"].append(("harness", "rc=%d lines=%d %s" % (rc, len(ml), err[-200:]), ""))
        return res
    model = []
    for d, (dsz, fw, soff, ssz) in zip(ml, cases):
        model.append((20, [int(d["lit"]), int(d["dict"]), dsz, fw, soff, ssz], ()))
    rc2, mout, e2 = run_lines(mexe, [str(freq)], model, 120)
    if rc2 != 0 or len(mout) != len(model):
        res["mism"].append(("model", "rc=%d %s" % (rc2, e2[-200:]), ""))
        return res
    for d, mo, c in zip(ml, mout, cases):
        real = ints(d["LW"]) + [int(d["llde"]), int(d["exact"])] + ints(d["JW"]) + [int(d["jexact"])]
        mod = ints(mo.replace(" ", ","))
        if real != mod:
            res["mism"].append((c, mod, real))
        if d["exact"] != "1" or d["jexact"] != "1":
            res["inexact"].append((c, d["LW"], d["JW"]))
    return res


def bigprefix_job(exe, nbw, prefix_mib, ldm):
    """The real thing for 6.4 (thorough): raw-content prefix of more than 4 GiB, LDM, nbWorkers, pure public API."""
    t0 = time.time()
    rc, out, err = core.sh([exe, str(nbw), str(prefix_mib), str(ldm)], timeout=1500)
    return dict(rc=rc, out=out[-600:], err=err[-300:], nbw=nbw, prefix_mib=prefix_mib, ldm=ldm, wall=time.time() - t0,
                ok=(rc == 0 and "equal=1" in out))


def fuzz_job(exe, freq, seed, nscen, warp, first=0, nframes=25, timeout=1500):
    """R3: the reuse fuzzer harness/c15_explore.c (direct oracles only: round trip, reused == fresh)."""
    t0 = time.time()
    args = [str(seed), str(nscen), str(warp), "1", str(nframes), str(first)]
    rc, out, err = core.sh([exe] + args, timeout=timeout)
    lines = out.split("\n")
    fails = []
    for i, l in enumerate(lines):
        if l.startswith("FAIL"):
            fails.append((l[:300], lines[i + 1][:600] if i + 1 < len(lines) else ""))
    done = any(l.startswith("DONE") for l in lines)
    return dict(freq=freq, seed=seed, nscen=nscen, warp=warp, first=first, nframes=nframes, rc=rc, err=err[-300:], fails=fails, done=done, wall=time.time() - t0)


def tie_job(name, freq, lines, cexe, mexe):
    mism = diff_runs(None, name, freq, lines, cexe, mexe, timeout=900)
    return dict(name=name, freq=freq, lines=lines, mism=mism)


def run(ctx):
    from concurrent.futures import ThreadPoolExecutor
    rng = random.Random(ctx.seed * 7919 + 15)
    K = consts()
    if ctx.replay_file:
        return replay(ctx, K)
    mexe = core.build_extracted("c15model", "Extract/Extract_C15.v", "c15_driver.ml")
    cexe = {0: core.build_harness("c15_window", ["c15_window.c"], variant="o1", extra_flags=["-w"]),
            1: core.build_harness("c15_window", ["c15_window.c"], variant="ovf", extra_flags=["-w"])}
    xexe = {0: core.build_harness("c15_ctx", ["c15_ctx.c"], variant="o1", extra_flags=["-w"]),
            1: core.build_harness("c15_ctx", ["c15_ctx.c"], variant="ovf", extra_flags=["-w"])}
    fexe = {0: core.build_harness("c15_explore", ["c15_explore.c"], variant="o1", extra_flags=["-w"]),
            1: core.build_harness("c15_explore", ["c15_explore.c"], variant="ovf", extra_flags=["-w"])}
    scale = 1 if ctx.quick else 6
    arena_mb = 48 if ctx.quick else 128

    pool = ThreadPoolExecutor(max_workers=max(4, core.NCPU - 2))
    futs = []
    # ---- tie (1a): function level
    cases = gen_function_cases(rng, K, scale)
    for freq in (0, 1):
        futs.append(("tie", pool.submit(tie_job, "functions", freq, cases, cexe[freq], mexe)))
    # ---- tie (1b): histories on the fake match state
    n_frames = 8 if ctx.quick else 30
    for rep in range(n_frames):
        for freq in (0, 1):
            lines = gen_history(rng, K, freq, "frames", rng.choice([40, 300] if ctx.quick else [100, 1500]))
            futs.append(("tie", pool.submit(tie_job, "history-frames", freq, lines, cexe[freq], mexe)))
    n_chunk_hist, chunk_steps = (4, 20000) if ctx.quick else (12, 60000)   # quick: 2 builds x 4 x 20000 = 1.6*10^5 chunk steps
    for rep in range(n_chunk_hist):
        for freq in (0, 1):
            lines = gen_history(rng, K, freq, "chunks", chunk_steps)
            futs.append(("tie", pool.submit(tie_job, "history-chunks", freq, lines, cexe[freq], mexe)))
    # ---- tie (2): real contexts
    n_sc = 2 if ctx.quick else 6
    for k in range(n_sc):
        for freq in (0, 1):
            extra = None
            if k == 0:
                # one long stream through the reused context: the frequent-correction build must correct (nbovf > 0)
                extra = ["resetparams", "param %d 1" % P_LEVEL, "param %d %d" % (P_WLOG, rng.choice([17, 18, 19, 20])), "nodict",
                         "bigstream %d %d" % ((96 << 20) if ctx.quick else (1 << 30), rng.randint(1, 1 << 30)), "oneshot 7 5000"]
                # multi-threaded: worker contexts are reused from job to job (continue mode, prefix = overlap), the serial
                # LDM state has its own window; second stream: workers moved just below the reset threshold, so that the
                # jobs cross ZSTD_CURRENT_MAX in the default build
                edge = K["ZSTD_CURRENT_MAX"] - K["ZSTD_INDEXOVERFLOW_MARGIN"]
                extra += ["resetparams", "param %d %d" % (P_LEVEL, rng.choice([1, 1, 3, 5])), "param %d %d" % (P_WLOG, rng.choice([17, 18, 20])),
                          "param %d %d" % (P_NBWORKERS, rng.choice([1, 2, 3])), "param %d %d" % (P_JOBSIZE, rng.choice([1 << 19, 1 << 20])),
                          "param %d %d" % (P_LDM, rng.randint(0, 1)),
                          # a prefix / dictionary goes to the first job as a CDict and, raw, to the serial LDM state
                          rng.choice(["nodict", "prefix %d %d" % (rng.randint(0, 1 << 20), rng.choice([rng.randint(1, 64), rng.randint(1000, 4 << 20)])),
                                      "dict %d %d" % (rng.randint(0, 1 << 20), rng.randint(8, 2 << 20))]),
                          "mtstream %d %d 0" % ((24 << 20) if ctx.quick else (256 << 20), rng.randint(1, 1 << 30)), "nodict",
                          # a worker re-creates its index at every job start once it is within the margin, so only a job longer
                          # than ZSTD_INDEXOVERFLOW_MARGIN can cross ZSTD_CURRENT_MAX: 20 MiB jobs
                          "param %d %d" % (P_JOBSIZE, 20 << 20),
                          "mtstream %d %d %d" % ((72 << 20) if ctx.quick else (512 << 20), rng.randint(1, 1 << 30), edge - rng.randint(0, 1 << 16)),
                          "resetparams", "nodict", "oneshot 9 7000"]
            futs.append(("ctx", pool.submit(ctx_job, xexe[freq], mexe, freq, K, rng.randint(1, 1 << 30), arena_mb, ctx.quick, extra)))
    if not ctx.quick:
        # the real thing: > 4 GiB through ONE context of the DEFAULT build, generated and decoded on the fly;
        # then the same context compresses ordinary frames again
        for wl in (20,):
            extra = ["resetparams", "param %d 1" % P_LEVEL, "param %d %d" % (P_WLOG, wl), "nodict",
                     "bigstream %d %d" % (4608 << 20, rng.randint(1, 1 << 30)), "oneshot 7 5000", "oneshot 100 100000"]
            futs.append(("ctx", pool.submit(ctx_job, xexe[0], mexe, 0, K, rng.randint(1, 1 << 30), arena_mb, True, extra)))

    # ---- R3: reuse fuzzer on real contexts (direct oracles); the default build with the index moved next to ZSTD_CURRENT_MAX
    for rep in range(1 if ctx.quick else 4):
        futs.append(("fuzz", pool.submit(fuzz_job, fexe[0], 0, rng.randint(1, 1 << 30), 6 if ctx.quick else 30, 1)))
        futs.append(("fuzz", pool.submit(fuzz_job, fexe[1], 1, rng.randint(1, 1 << 30), 6 if ctx.quick else 30, 0)))

    # ---- finding probe: the LDM window on blocks below 7 bytes (quick: with the warp device; thorough: also pure API)
    futs.append(("ldmprobe", pool.submit(ldm_probe_job, xexe[0], 0, 2000, 8, U32 - 3000)))
    futs.append(("ldmprobe", pool.submit(ldm_probe_job, xexe[1], 1, 2000, 8, U32 - 3000)))
    if not ctx.quick:
        futs.append(("ldmprobe", pool.submit(ldm_probe_job, xexe[0], 0, U32 // 6 + 5000000, 64, 0)))

    # ---- finding probe: ZSTDMT job counters (device; start 0 = control without the device)
    futs.append(("mtjobs", pool.submit(mt_job_probe_job, xexe[0], mexe, 0, 1, 0, 24)))
    for nbw in ((1, 3) if ctx.quick else (1, 2, 3, 4)):
        nfl = 40
        futs.append(("mtjobs", pool.submit(mt_job_probe_job, xexe[0], mexe, 0, nbw, U32 - rng.randint(8, nfl - 2), nfl)))
    # ---- unit tie of the serial LDM state of ZSTDMT: prefix sizes around ZSTD_CURRENT_MAX and 2^32
    cmax = K["ZSTD_CURRENT_MAX"]
    lcases = [(rng.randint(1, 1 << 20), 0, rng.randint(0, 1 << 20), rng.randint(1, 1 << 20)),
              (rng.randint(1, 1 << 20), 1, rng.randint(0, 1 << 20), rng.randint(1, 1 << 20)),
              (rng.randint(1, 9), rng.randint(0, 1), rng.randint(0, 1 << 20), rng.randint(1, 9)),
              (rng.choice([cmax - 3, cmax - 2, cmax - 1, cmax]), 0, rng.randint(0, 1 << 20), rng.randint(1, 1 << 20)),
              (U32 + rng.randint(-3, 1 << 27), rng.randint(0, 1), rng.randint(0, 1 << 20), rng.randint(1, 1 << 20))]
    if not ctx.quick:
        lcases += [(U32 - 2, 0, 5, 1 << 20), (U32 - 3, 0, 5, 1 << 20), (cmax + rng.randint(1, 1 << 28), 0, 0, 70000), (3 * U32 // 2, 1, 9, 4096)]
    futs.append(("mtldm", pool.submit(mt_ldm_load_job, xexe[0], mexe, 0, lcases)))
    if not ctx.quick:
        avail = 0
        try:
            for ln_ in open("/proc/meminfo"):
                if ln_.startswith("MemAvailable:"):
                    avail = int(ln_.split()[1]) >> 20
        except (OSError, ValueError):
            pass
        if avail >= 16:
            bexe = core.build_harness("c15_bigprefix", ["c15_bigprefix.c"], variant="o1", extra_flags=["-w"])
            futs.append(("bigprefix", pool.submit(bigprefix_job, bexe, 1, 4160, 1)))
        else:
            ctx.notes["bigprefix_run"] = "skipped: MemAvailable %d GiB < 16 GiB" % avail

    # the proofs are checked while the ties run
    ctx.prove()

    problems = []     # (kind, freq, detail, concrete_replay or None)
    ldm_findings = []
    mt_findings = []
    hist_bytes = {}
    for kind, f in futs:
        r = f.result()
        if kind == "ldmprobe":
            ctx.count(("ldmprobe", r["freq"], r["warp_idx"] != 0, r["exact"], r["rt"], r["rc"] != 0))
            ctx.notes.setdefault("ldm_tiny_block_probe", []).append({k: r[k] for k in ("freq", "ncalls", "warp_idx", "ldmidx", "exact", "lnbovf", "rt", "rc", "errors", "wall")})
            if r["exact"] is False:
                what = ("LDM window index wrapped: %d six-byte flushes%s took (nextSrc - base) of ldmState.window to %s without any overflow "
                        "correction (nbOverflowCorrections=%s); then 64 KiB inputs: %s" %
                        (r["ncalls"], "" if not r["warp_idx"] else " (window moved to index %d half way: test device)" % r["warp_idx"], r["ldmidx"], r["lnbovf"],
                         "harness died rc=%s" % r["rc"] if r["rc"] != 0 else ("round trip %s %s" % (r["rt"], r["errors"][:1]))))
                ldm_findings.append((dict(kind="ldm tiny-block probe", frequently=r["freq"], detail=dict(arena_mb=8, cmds=r["cmds"], why=what, key=KEY_LDM_TINY)), what))
            elif r["exact"] is None or r["rc"] != 0 or r["rt"] is not True:
                problems.append(("ldm tiny-block probe", r["freq"], dict(arena_mb=8, cmds=r["cmds"], why="probe failed: rc=%s rt=%s %s" % (r["rc"], r["rt"], r["errors"][:2])),
                                 "LDM tiny-block probe: rc=%s round trip=%s %s" % (r["rc"], r["rt"], r["errors"][:1])))
            continue
        if kind == "mtjobs":
            real, mod = r["real"], r["model"]
            ctx.count(("mtjobs", r["nbw"], r["start"] != 0, real and real["hang"], real and real["rt"]))
            ctx.cov["traces_validated_against_impl"] += 1
            ctx.notes.setdefault("zstdmt_job_counter_probe", []).append(dict(nbWorkers=r["nbw"], start=r["start"], nflush=r["nflush"], real=real, model=mod, wall=round(r["wall"], 1)))
            det = dict(arena_mb=8, cmds=r["cmds"], key=KEY_MT_JOBS)
            if real is None or mod is None or r["rc"] != 0 or r["errors"]:
                problems.append(("zstdmt job-counter probe", 0, dict(det, why="probe failed rc=%s %s" % (r["rc"], r["errors"][:2]), key=None), "ZSTDMT job-counter probe did not run: rc=%s %s" % (r["rc"], r["errors"][:1])))
            elif (real["flushes"], real["hang"]) != (mod["flushes"], mod["hang"]) or (real["hang"] and (real["next"], real["done"]) != (mod["next"], mod["done"])):
                concrete = None
                if not real["hang"] and real["rt"] != 1:
                    concrete = ("multithreaded frame of %d flush calls with its job counters moved to %d after the first one (test device = the state after that many "
                                "ZSTD_e_flush calls of one frame) does not round-trip" % (r["nflush"], r["start"]))
                problems.append(("zstdmt job-counter tie", 0, dict(det, model=mod, real=real, key=None, why=concrete or "model and code disagree"), concrete))
            elif real["hang"]:
                what = ("multithreaded frame stuck: nbWorkers=%d, job counters at %d after the first flush (test device = the state after that many "
                        "ZSTD_e_flush calls of one frame), flush call number %d never returns: nextJobID = doneJobID = %d, jobIDMask = %d, the empty jobs "
                        "table is declared full (nextJobID > (U32)(doneJobID + jobIDMask))" % (r["nbw"], r["start"], real["flushes"] + 1, real["next"], real["mask"]))
                mt_findings.append((dict(kind="zstdmt job-counter probe", frequently=0, detail=dict(det, why=what)), what))
            elif real["rt"] != 1:
                problems.append(("zstdmt job-counter probe", 0, dict(det, why="frame does not round-trip", real=real, key=None),
                                 "multithreaded frame of %d flush calls (job counters moved to %d) does not round-trip" % (r["nflush"], r["start"])))
            continue
        if kind == "mtldm":
            ctx.count(("mtldm", r["n"], len(r["mism"]), len(r["inexact"])))
            ctx.cov["traces_validated_against_impl"] += r["n"]
            ctx.notes["zstdmt_serial_ldm_load_tie"] = dict(cases=r["n"], mismatches=len(r["mism"]), inexact=len(r["inexact"]), wall=round(r["wall"], 1))
            for c, lw, jw in r["inexact"][:1]:
                problems.append(("zstdmt serial LDM load", 0, dict(arena_mb=8, cmds=r["cmds"], why="index of the serial LDM window wrapped", case=list(c), LW=lw, JW=jw),
                                 "ZSTDMT_serialState_reset with a raw-content prefix of %d bytes: the 32-bit index of serial.ldmState.window wrapped (LW=%s)" % (c[0], lw)))
            for c, mod, real in r["mism"][:2]:
                problems.append(("zstdmt serial LDM load tie", 0, dict(arena_mb=8, cmds=r["cmds"], case=str(c), model=str(mod), real=str(real)), None))
            continue
        if kind == "fuzz":
            ctx.count(("fuzz", r["freq"], r["warp"], len(r["fails"]) == 0), n=r["nscen"] * r["nframes"])
            ctx.notes.setdefault("reuse_fuzzer", []).append(dict(frequently=r["freq"], seed=r["seed"], scenarios=r["nscen"], frames_per_scenario=r["nframes"],
                                                                 warp=r["warp"], failures=len(r["fails"]), rc=r["rc"], wall_s=round(r["wall"], 1)))
            for fl, fr in r["fails"][:2]:
                m_ = re.search(r"scen=(\d+)", fl)
                sc_ = int(m_.group(1)) if m_ else r["first"]
                problems.append(("reuse fuzzer", r["freq"], dict(harness="c15_explore", args=[r["seed"], 1, r["warp"], 1, r["nframes"], sc_], fail=fl, frame=fr),
                                 "reuse fuzzer (c15_explore %d 1 %d 1 %d %d): %s | %s" % (r["seed"], r["warp"], r["nframes"], sc_, fl, fr[:200])))
            if not r["done"] and not r["fails"]:
                problems.append(("reuse fuzzer", r["freq"], dict(harness="c15_explore", args=[r["seed"], r["nscen"], r["warp"], 1, r["nframes"], r["first"]], rc=r["rc"], err=r["err"]),
                                 "reuse fuzzer died: c15_explore %d %d %d 1 %d %d -> rc=%d %s" % (r["seed"], r["nscen"], r["warp"], r["nframes"], r["first"], r["rc"], r["err"][-120:])))
            continue
        if kind == "bigprefix":
            ctx.count(("bigprefix", r["nbw"], r["prefix_mib"], r["ldm"], r["ok"]))
            ctx.notes["bigprefix_run"] = {k: r[k] for k in ("rc", "nbw", "prefix_mib", "ldm", "wall", "ok", "out")}
            if not r["ok"]:
                problems.append(("zstdmt + LDM + prefix > 4 GiB", 0, dict(harness="c15_bigprefix", args=[r["nbw"], r["prefix_mib"], r["ldm"]], rc=r["rc"], out=r["out"], err=r["err"]),
                                 "nbWorkers=%d, enableLongDistanceMatching, raw-content prefix of %d MiB: rc=%d %s" % (r["nbw"], r["prefix_mib"], r["rc"], r["out"][-200:])))
            continue
        if kind == "tie":
            lines = r["lines"]
            for opc, a, sig in lines:
                ctx.count((r["name"], r["freq"]) + tuple(sig))
            ctx.cov["traces_validated_against_impl"] += len(lines) if r["name"] == "functions" else 1
            if r["name"].startswith("history"):
                hist_bytes[r["name"]] = hist_bytes.get(r["name"], 0) + sum(sum(a[1:]) for opc, a, _ in lines if opc in (103, 104))
            for i, ln, m, rr in r["mism"][:2]:
                det = dict(tie=r["name"], frequently=r["freq"], model=m, real=rr)
                if ln is not None:
                    k, mv, rv = first_divergence(m, rr)
                    det.update(opcode=ln[0], args=ln[1][:60], first_differing_field=k, model_value=mv, real_value=rv)
                    if r["name"].startswith("history"):
                        det["history_prefix"] = [[l[0]] + l[1] for l in lines[:i + 1]][-400:]
                        det["step"] = i
                concrete = None
                # the real side saw a wrapped index (its observer printed 0): that is a failing input by itself
                if ln is not None and r["name"].startswith("history") and rr.split()[-1:] == ["0"]:
                    concrete = "a U32 index of the real window functions wrapped (exactness observer = 0) at step %d of this history" % i
                problems.append(("%s tie" % r["name"], r["freq"], det, concrete))
        else:
            ctx.cov["traces_validated_against_impl"] += r["predicted"]
            for sg in r["sigs"]:
                ctx.count(("ctx", r["freq"]) + tuple(str(x) for x in sg))
            ctx.notes.setdefault("real_context_runs", []).append(dict(frequently=r["freq"], frames=r["frames"], predicted_transitions=r["predicted"],
                                                                      max_nbOverflowCorrections=r["max_nbovf"], max_index=r["max_idx"], wall_s=round(r["wall"], 1),
                                                                      bigstream=[dict(api=g.get("api"), size=int(g["size"]), csize=int(g["csize"]), rt=int(g["rt"]), nbovf=int(g["nbovf"]), maxidx=int(g["maxidx"]),
                                                                                      workers=int(g.get("workers", "0")), serial_ldm_nbovf=int(g.get("serialnbovf", "0"))) for g in r["big"]]))
            for s_ in r["sample"][:1]:
                ctx.sample(dict(real_context_frame=s_))
            if r["rc"] != 0:
                problems.append(("real-context run crashed", r["freq"], dict(rc=r["rc"], err=r["err"], cmds=r["cmds"][-60:]),
                                 "the harness driving the real context died (rc=%d)" % r["rc"]))
            seen_keys = set()
            for i, why, key in r["fails"]:
                if key in seen_keys or len(seen_keys) >= 3:
                    continue
                seen_keys.add(key)
                problems.append(("real-context oracle", r["freq"], dict(arena_mb=arena_mb, cmds=r["cmds"], failing_line=i, why=why, key=key), why))
            for b in r["pred_bad"][:2]:
                problems.append(("real-context window prediction", r["freq"], dict(arena_mb=arena_mb, cmds=r["cmds"], mismatch=[str(x) for x in b]), None))
            for g in r["big"]:
                if r["freq"] == 1 and int(g["nbovf"]) == 0:
                    problems.append(("frequent-correction build never corrected", 1, dict(line=g), None))
                if r["freq"] == 0 and g.get("api") == "bigstream" and int(g["size"]) > K["ZSTD_CURRENT_MAX"] + (1 << 27) and int(g["nbovf"]) == 0:
                    problems.append(("default build never corrected on a > 3.5 GiB stream", 0, dict(line=g), None))
                if r["freq"] == 0 and g.get("api") == "mtstream" and int(g.get("warped", "0")) > 0 and int(g["nbovf"]) == 0:
                    problems.append(("default build: no worker context crossed ZSTD_CURRENT_MAX although moved next to it", 0, dict(line=g), None))
    pool.shutdown()
    ctx.notes["history_bytes_simulated"] = hist_bytes
    for opc, a, sig in cases[:2] + [c for c in cases if c[0] == 12][:2] + [c for c in cases if c[0] == 15][:1] + [c for c in cases if c[0] == 17][:1]:
        ctx.sample(dict(opcode=opc, args=a[:28], signature=list(map(str, sig))))
    ctx.cov["rule"] = ("(1a) function-level cases aimed at every comparison of the modelled functions (index thresholds +-2, U32 wrap points, power-of-two "
                       "cycle boundaries, reducer thresholds, unsorted marks), both builds; (1b) random lives of a match state on unreadable memory: begin / "
                       "dictionary / attach / copy / chunks of blocks / finder writes, and chunk machines with chunks up to ZSTD_CHUNKSIZE_MAX; (2) real contexts: "
                       "one context reused over ~50 frames per scenario (all 9 strategies, row finder, LDM, prefixes, CDict attach/copy/load, parameter changes, "
                       "time-warped indices near the reset threshold and ZSTD_CURRENT_MAX), every transition predicted by the model, every frame decoded and "
                       "compared with a fresh context; R3: block-level sessions (ZSTD_compressBlock) and bufferless frames with an attached CDict whose segments "
                       "are contiguous / at a new address / cover the previous one, predicted block by block; (3) reuse fuzzer c15_explore (direct oracles only): "
                       "25 frames per scenario on one reused context + one ZSTD_copyCCtx destination, every entry point and table-carrying feature switched "
                       "between frames. A case's signature = (tie, build knob, opcode / op kind, which branch conditions held); "
                       "distinct_nontrivial = number of distinct signatures.")

    # ---- verdict
    def search(broken):
        # direct oracle on the implementation: real contexts over fresh scenarios (round trip, fresh-context equality, index range)
        found = []
        for freq in (0, 1):
            r = ctx_job(xexe[freq], mexe, freq, K, rng.randint(1, 1 << 30), arena_mb, True)
            for i, why, key in [f for f in r["fails"] if f[2] is None][:1]:
                cmds, why2 = shrink_scenario(xexe[freq], arena_mb, r["cmds"], K)
                found.append((dict(kind="real-context oracle", frequently=freq, arena_mb=arena_mb, cmds=cmds, why=why2 or why), why2 or why))
        return found

    ctx.proof_verdict(search)
    known_keys = set(k.get("key") for k in core.known_findings().get("known", []) if k.get("property") == "C15")
    keyed = [p_ for p_ in problems if p_[0] == "real-context oracle" and p_[2].get("key")]
    problems = [p_ for p_ in problems if not (p_[0] == "real-context oracle" and p_[2].get("key"))]
    done_keys = set()
    for kind, freq, det, concrete in keyed:
        key = det["key"]
        if (key, freq) in done_keys:
            continue
        done_keys.add((key, freq))
        if key not in known_keys:      # not (yet) accepted as a known finding: give a reduced replay
            cmds, why2 = shrink_scenario(xexe[freq], det["arena_mb"], det["cmds"], K, key=key)
            det = dict(det, cmds=cmds, why=why2 or det["why"])
        ctx.notes.setdefault("known_finding_hits", []).append(dict(key=key, frequently=freq, why=det["why"][:200]))
        ctx.violation(dict(kind=kind, frequently=freq, detail=det), what="%s (build knob frequently=%d): %s" % (kind, freq, concrete), key=key)
    for rp, what in ldm_findings[:1]:
        ctx.violation(rp, what=what, key=KEY_LDM_TINY)
    for rp, what in mt_findings[:1]:
        ctx.violation(rp, what=what, key=KEY_MT_JOBS)
    concrete_seen = False
    for kind, freq, det, concrete in problems[:8]:
        if concrete and kind == "real-context oracle" and not concrete_seen:
            cmds, why2 = shrink_scenario(xexe[freq], det["arena_mb"], det["cmds"], K)
            det = dict(det, cmds=cmds, why=why2 or det["why"])
        if concrete:
            concrete_seen = True
            ctx.violation(dict(kind=kind, frequently=freq, detail=det), what="%s (build knob frequently=%d): %s" % (kind, freq, concrete))
    if not concrete_seen and problems:
        # a tie broke but no property-level failure was observed yet: look for one on the implementation
        found = search(None)
        if found:
            for rp, what in found[:2]:
                ctx.violation(rp, what="after %s broke: %s" % (problems[0][0], what))
        for kind, freq, det, concrete in problems[:4]:
            ctx.violation(dict(kind=kind, frequently=freq, detail=det),
                          what="%s: real code and model disagree (build knob frequently=%d)" % (kind, freq), no_input=not found)


def replay(ctx, K):
    """Re-execute a recorded failing case (best effort)."""
    obj = json.load(open(ctx.replay_file))
    rp = obj.get("replay", {})
    det = rp.get("detail", rp)
    freq = int(rp.get("frequently", 0))
    var = "ovf" if freq else "o1"
    mexe = core.build_extracted("c15model", "Extract/Extract_C15.v", "c15_driver.ml")
    ctx.cov["rule"] = "replay of " + os.path.basename(ctx.replay_file)
    if "cmds" in det:
        exe = core.build_harness("c15_ctx", ["c15_ctx.c"], variant=var, extra_flags=["-w"])
        rc, lines, err = run_scenario(exe, int(det.get("arena_mb", 48)), det["cmds"])
        nf, fails = oracle_failures(lines, K)
        ctx.count(("replay", "ctx"), n=max(nf, 1))
        ctx.sample(dict(replayed_scenario_lines=len(lines), failures=[f[1][:200] for f in fails[:3]]))
        seen = set()
        for f in fails:                      # one report per class: unkeyed failures first-come, known findings by key
            if f[2] in seen:
                continue
            seen.add(f[2])
            ctx.violation(rp, what="replay: " + f[1], key=f[2])
        if rc != 0 and not fails:
            ctx.violation(rp, what="replay: harness rc=%d" % rc, key=det.get("key"))
        return
    if det.get("harness") == "c15_explore":
        exe = core.build_harness("c15_explore", ["c15_explore.c"], variant=var, extra_flags=["-w"])
        a = det["args"]
        r = fuzz_job(exe, freq, a[0], a[1], a[2], first=a[5], nframes=a[4])
        ctx.count(("replay", "fuzz"), n=max(1, a[1] * a[4]))
        ctx.sample(dict(replayed_fuzz_args=a, failures=[f[0][:200] for f in r["fails"][:3]], rc=r["rc"]))
        if r["fails"]:
            ctx.violation(rp, what="replay: reuse fuzzer: %s | %s" % (r["fails"][0][0], r["fails"][0][1][:200]))
        elif not r["done"]:
            ctx.violation(rp, what="replay: reuse fuzzer died rc=%d %s" % (r["rc"], r["err"][-120:]))
        return
    lines = None
    if "history_prefix" in det:
        lines = [(100, [], ())] + [(l[0], l[1:], ()) for l in det["history_prefix"] if l[0] != 100]
    elif "opcode" in det:
        lines = [(det["opcode"], det["args"], ())]
    if lines:
        exe = core.build_harness("c15_window", ["c15_window.c"], variant=var, extra_flags=["-w"])
        mism = diff_runs(None, "replay", freq, lines, exe, mexe)
        ctx.count(("replay", "tie"), n=len(lines))
        ctx.sample(dict(replayed_lines=len(lines), mismatches=len(mism)))
        if mism:
            ctx.violation(rp, what="replay: real code and model still disagree: model=%s real=%s" % (mism[0][2][:120], mism[0][3][:120]), no_input=True)
        return
    ctx.prove()
    ctx.proof_verdict(None)
