"""C01 - lossless one-shot round trip for every input and parameter set.

Decided by: Coq theorems on the codec model (Props/Properties_C01.v) + per-run correspondence:
every frame the real one-shot compressors emit for (x, p) must be decoded to x by the extracted Gallina
reference decoder R (spec-derived, shares no code with libzstd) and by libzstd itself."""
import random

from .. import codec, core

ENTRIES = ["compress2", "compress2", "compress2", "compress2", "simple", "cctx", "advanced"]


def make_cases(ctx, rng):
    quick = ctx.quick
    n_small, n_med, n_big = (170, 60, 12) if quick else (1500, 500, 120)
    cases = []

    def add(kind, size, entry=None, params=None):
        x = codec.gen_input(rng, kind, size)
        entry = entry or rng.choice(ENTRIES)
        p = params if params is not None else codec.gen_params(rng, size)
        if entry != "compress2":
            lvl = p.get("level", 3)
            if lvl < -100:
                lvl = -5
            ent = "%s:%d" % (entry, lvl)
            p = {k: v for k, v in p.items() if k == "level"} if entry != "cctx" else p
        else:
            ent = entry
        cases.append(dict(id="c%d" % len(cases), kind=kind, x=x, entry=ent, params=p))

    # corpus of boundary cases first
    for size in [0, 1, 2, 3, 255, 256, 257, 1023, 1024, 1025]:
        for kind in ["zeros", "random", "text"]:
            add(kind, size, "compress2", {"level": 3, "checksum": 1})
    add("period", 70000, "compress2", {"level": 19, "windowLog": 10, "minMatch": 3})
    add("selfcopy", 40000, "compress2", {"level": 16, "windowLog": 11, "blockSplitter": 1})
    add("lowent", 50000, "compress2", {"level": 5, "literalMode": 1, "targetCBlockSize": 1340})
    add("text", 30000, "compress2", {"strategy": 5, "level": 7, "rowMatchFinder": 1, "searchLog": 6, "minMatch": 4})
    add("longdist", 120000, "compress2", {"level": 3, "ldm": 1, "ldmMinMatch": 16, "windowLog": 17})
    add("mixed", 131073, "compress2", {"level": 1, "maxBlockSize": 1024})
    add("text", 20000, "compress2", {"level": 3, "format": 1, "contentSize": 0})
    for lvl in (16, 17, 19, 22, 3, 13):
        add("rep3", 30000, "compress2", {"level": lvl})
    add("rep3", 60000, "compress2", {"level": 19, "blockSplitter": 1, "minMatch": 3})
    add("rep3", 20000, "compress2", {"strategy": 7, "level": 3, "windowLog": 10})
    for _ in range(n_small):
        add(rng.choice(codec.KINDS), rng.choice(codec.SIZES_SMALL))
    for _ in range(n_med):
        add(rng.choice(codec.KINDS), rng.choice(codec.SIZES_MED))
    for _ in range(n_big):
        add(rng.choice(codec.KINDS), rng.choice(codec.SIZES_BIG))
    return cases


def run_cases(ctx, cd, cases, strict_window=False):
    """compress with the real library, decode with libzstd and with R, compare with the input"""
    lines = ["C %s %s %s - - %s" % (c["id"], c["entry"], codec.params_str(c["params"]), codec.hx(c["x"])) for c in cases]
    out, errs = cd.impl(lines)
    if errs:
        ctx.violation(dict(kind="harness-crash", detail=errs[:2]), what="zv_codec crashed while compressing: %r" % (errs[0],))
    dec_lines, rcases = [], []
    for c in cases:
        r = codec.parse_ok(out.get(c["id"], "ERR missing"))
        c["cres"] = r
        if r[0] != "OK":
            # an accepted parameter vector + ZSTD_compressBound capacity must not fail
            ctx.violation(dict(kind="compress-failed", entry=c["entry"], params=c["params"], input_hex=c["x"].hex()[:20000], error=r[1]),
                          what="one-shot compression failed with %s for entry %s params %s (|x|=%d)" % (r[1], c["entry"], c["params"], len(c["x"])))
            continue
        c["frame"] = r[1]
        fmt = c["params"].get("format", 0) if c["entry"] in ("compress2",) else 0
        dflags = codec.dparams_str({"format": 1}) if fmt else "-"
        dec_lines.append("D %s dctx %s - %s %d" % (c["id"], dflags, codec.hx(r[1]), len(c["x"]) + 16))
        rfl = ",".join((["magicless"] if fmt else []) + ([] if strict_window else ["nostrict"]))
        rcases.append((c["id"], rfl, None, r[1]))
    dout, derrs = cd.impl(dec_lines)
    if derrs:
        ctx.violation(dict(kind="harness-crash", detail=derrs[:2]), what="zv_codec crashed while decompressing: %r" % (derrs[0],))
    mres = cd.model(rcases)
    hist = {}
    for c in cases:
        if "frame" not in c:
            continue
        x = c["x"]
        d = codec.parse_ok(dout.get(c["id"], "ERR missing"))
        m = mres.get(c["id"], ("ERR", "missing", -1))
        rep = dict(entry=c["entry"], params=c["params"], kind=c["kind"], input_hex=x.hex()[:200000], frame_hex=c["frame"].hex()[:200000])
        if d[0] != "OK" or d[1] != x:
            ctx.violation(dict(rep, decoder="libzstd", result=str(d[:2])[:300]),
                          what="libzstd does not decode its own output back to the input (entry %s, params %s, |x|=%d): %s" % (c["entry"], c["params"], len(x), d[1] if d[0] == "ERR" else "content differs"))
        if m[0] != "OK":
            ctx.violation(dict(rep, decoder="R", result="ERR %s site %s" % (m[1], m[2])),
                          what="reference decoder R rejects a frame emitted by the compressor (%s at site %s; entry %s, params %s, |x|=%d)" % (m[1], m[2], c["entry"], c["params"], len(x)))
            continue
        if m[1] != x:
            ctx.violation(dict(rep, decoder="R", result="content differs"),
                          what="reference decoder R decodes the compressor's output to different bytes (entry %s, params %s, |x|=%d)" % (c["entry"], c["params"], len(x)))
            continue
        frames = codec.parse_trace(m[2])
        c["trace"] = frames
        sig = codec.trace_signature(frames)
        ctx.count((sig, c["entry"].split(":")[0]), nontrivial=len(x) > 0)
        ctx.cov["traces_validated_against_impl"] += 1
        for f in frames:
            for b in f.get("blocks", []):
                k = "block type %d lit %d modes %d" % (b["type"], b["litmode"], b["modes"])
                hist[k] = hist.get(k, 0) + 1
        if len(x) < 64:
            ctx.sample(dict(entry=c["entry"], params=c["params"], input_hex=x.hex(), frame_hex=c["frame"].hex()))
    return hist


def search_tables(ctx, cd):
    """model-side witness for a broken table theorem: compress inputs that use every LL/ML/OF code and round-trip them"""
    rng = random.Random(ctx.seed + 99)
    cases = []
    for i in range(40):
        x = codec.gen_input(rng, rng.choice(["selfcopy", "longdist", "text", "zeros", "period"]), rng.choice([5000, 70000, 140000]))
        cases.append(dict(id="s%d" % i, kind="search", x=x, entry="compress2", params={"level": rng.choice([1, 3, 19])}))
    before = len(ctx.violations)
    run_cases(ctx, cd, cases)
    return len(ctx.violations) > before


def run(ctx):
    ctx.cov["rule"] = ("cases = (input kind x size clustered at 0,1,255/256,1KiB,64KiB+-1,128KiB+-1,256KiB) x (random accepted parameter "
                       "vector: level/strategy/windowLog/hashLog/chainLog/searchLog/minMatch/targetLength/LDM/splitter/rowMatchFinder/"
                       "targetCBlockSize/maxBlockSize/literalMode/checksum/contentSize/magicless) x entry point {compress2, ZSTD_compress, "
                       "compressCCtx, compress_advanced}; each frame decoded by libzstd and by the extracted Gallina decoder R and compared "
                       "with the input; distinct = distinct (trace signature: header form, block types, literal modes, sequence table modes, "
                       "nbSeq class) x entry point; non-trivial = non-empty input")
    ctx.prove()
    cd = codec.Codec(ctx)
    rng = random.Random(ctx.seed)
    if ctx.replay_file:
        import json
        rp = json.load(open(ctx.replay_file))["replay"]
        cases = [dict(id="r0", kind=rp.get("kind", "replay"), x=bytes.fromhex(rp["input_hex"]), entry=rp["entry"], params=rp["params"])]
    else:
        cases = make_cases(ctx, rng)
    hist = run_cases(ctx, cd, cases)
    ctx.notes["block_histogram"] = hist
    ctx.notes["input_kinds"] = {k: sum(1 for c in cases if c["kind"] == k) for k in set(c["kind"] for c in cases)}
    ctx.notes["entries"] = {k: sum(1 for c in cases if c["entry"].split(":")[0] == k) for k in set(c["entry"].split(":")[0] for c in cases)}

    def search(broken):
        found = search_tables(ctx, cd)
        return [] if not found else [(dict(kind="see the other replay files of this run"), "broken table theorem has a concrete failing round trip")]
    ctx.proof_verdict(search)
