"""C01 - lossless one-shot round trip for every input and parameter set.

Decided by: Coq theorems on the codec model (Props/Properties_C01.v) + per-run correspondence:
every frame the real one-shot compressors emit for (x, p) must be decoded to x by the extracted Gallina
reference decoder R (spec-derived, shares no code with libzstd) and by libzstd itself."""
import random

from .. import codec, core

ENTRIES = ["compress2", "compress2", "compress2", "compress2", "simple", "cctx", "advanced"]


def make_cases(ctx, rng):
    quick = ctx.quick
    n_small, n_med, n_big = (170, 50, 6) if quick else (1500, 500, 120)
    cases = []

    def add(kind, size, entry=None, params=None):
        x = codec.gen_input(rng, kind, size)
        entry = entry or rng.choice(ENTRIES)
        p = params if params is not None else codec.gen_params(rng, size)
        if entry != "compress2":
            lvl = p.get("level", 3)
            if lvl < -100:
                lvl = -5
            ent = "%s:%d" % (entry, lvl)
            p = {k: v for k, v in p.items() if k == "level"} if entry != "cctx" else p
        else:
            ent = entry
        cases.append(dict(id="c%d" % len(cases), kind=kind, x=x, entry=ent, params=p))

    # corpus of boundary cases first
    for size in [0, 1, 2, 3, 255, 256, 257, 1023, 1024, 1025]:
        for kind in ["zeros", "random", "text"]:
            add(kind, size, "compress2", {"level": 3, "checksum": 1})
    add("period", 70000, "compress2", {"level": 19, "windowLog": 10, "minMatch": 3})
    add("selfcopy", 40000, "compress2", {"level": 16, "windowLog": 11, "blockSplitter": 1})
    add("lowent", 50000, "compress2", {"level": 5, "literalMode": 1, "targetCBlockSize": 1340})
    add("text", 30000, "compress2", {"strategy": 5, "level": 7, "rowMatchFinder": 1, "searchLog": 6, "minMatch": 4})
    add("longdist", 120000, "compress2", {"level": 3, "ldm": 1, "ldmMinMatch": 16, "windowLog": 17})
    add("mixed", 131073, "compress2", {"level": 1, "maxBlockSize": 1024})
    add("text", 20000, "compress2", {"level": 3, "format": 1, "contentSize": 0})
    for lvl in (16, 17, 19, 22, 3, 13):
        add("rep3", 30000, "compress2", {"level": lvl})
    add("rep3", 60000, "compress2", {"level": 19, "blockSplitter": 1, "minMatch": 3})
    # literals-section header thresholds (1 KiB / 16 KiB of Huffman-compressed literals, no sequences)
    for sz in (1023, 1024, 1025, 16383, 16384, 16385):
        add("debruijn", sz, "compress2", {"level": 1, "minMatch": 5, "literalMode": 1, "windowLog": 17})
    # raw-literals header thresholds (32 / 4096 literals) inside a compressed block: literal compression disabled, one match at the end
    for sz in list(range(29, 36)) + list(range(4093, 4100)):
        add("rawlits", sz, "compress2", {"level": 3, "literalMode": 2, "windowLog": 17})
    # a split block whose raw partition carries sequences: repeat-offset history across raw partitions
    for lvl in (18, 19, 22):
        add("splitraw", 3 * 131072, "compress2", {"level": lvl})
    # lengths above 65535 (long-length escape) through the block splitter
    for lvl, sz in ((16, 131072), (19, 131072), (19, 200000), (22, 300000), (3, 131072)):
        add("longlen", sz, "compress2", {"level": lvl, "checksum": 1, "blockSplitter": 1})
    add("rep3", 20000, "compress2", {"strategy": 7, "level": 3, "windowLog": 10})
    # ... and through the sub-block splitter of ZSTD_c_targetCBlockSize (literal counts of sub-blocks)
    for lvl, sz, tcb in ((3, 131072, 1340), (1, 200000, 4000), (7, 131072, 2000), (19, 131072, 1340)):
        add("longlen", sz, "compress2", {"level": lvl, "targetCBlockSize": tcb, "minMatch": 7 if lvl == 1 else 4})
    # sub-blocks: the first sub-block of a block has no literals, later ones use the block's Huffman table
    for lvl, tcb in ((5, 1340), (7, 2000), (9, 1340), (12, 4000), (3, 1340)):
        add("matchlead", 2 * 131072 + 3000, "compress2", {"level": lvl, "targetCBlockSize": tcb})
    # blocks that are a run of one byte except for a deviation inside their last 32 bytes (RLE-block detection)
    for k, lvl in ((40, 1), (1000, 3), (65536, 5), (131072, 19), (131072 + 17, 1), (3, 13)):
        add("nearrle", 131072 + k, "compress2", {"level": lvl})
    # Huffman table re-use: the largest literal of a later block has no code in the previous block's table
    for lvl in (1, 2, 3, 4, 5, 7):
        add("hufrepeat", 2 * 131072 + 5000, "compress2", {"level": lvl})
    for _ in range(n_small):
        add(rng.choice(codec.KINDS), rng.choice(codec.SIZES_SMALL))
    for _ in range(n_med):
        add(rng.choice(codec.KINDS), rng.choice(codec.SIZES_MED))
    for _ in range(n_big):
        add(rng.choice(codec.KINDS), rng.choice(codec.SIZES_BIG))
    return cases


def run_cases(ctx, cd, cases, strict_window=False):
    """compress with the real library, decode with libzstd and with R, compare with the input"""
    lines = ["C %s %s %s - - %s" % (c["id"], c["entry"], codec.params_str(c["params"]), codec.hx(c["x"])) for c in cases]
    out, errs = cd.impl(lines)
    if errs:
        ctx.violation(dict(kind="harness-crash", detail=errs[:2]), what="zv_codec crashed while compressing: %r" % (errs[0],))
    dec_lines, rcases = [], []
    for c in cases:
        r = codec.parse_ok(out.get(c["id"], "ERR missing"))
        c["cres"] = r
        if r[0] != "OK":
            # an accepted parameter vector + ZSTD_compressBound capacity must not fail
            ctx.violation(dict(kind="compress-failed", entry=c["entry"], params=c["params"], input_hex=c["x"].hex()[:20000], error=r[1]),
                          what="one-shot compression failed with %s for entry %s params %s (|x|=%d)" % (r[1], c["entry"], c["params"], len(c["x"])))
            continue
        c["frame"] = r[1]
        fmt = c["params"].get("format", 0) if c["entry"] in ("compress2",) else 0
        dflags = codec.dparams_str({"format": 1}) if fmt else "-"
        dec_lines.append("D %s dctx %s - %s %d" % (c["id"], dflags, codec.hx(r[1]), len(c["x"]) + 16))
        rfl = ",".join((["magicless"] if fmt else []) + ([] if strict_window else ["nostrict"]))
        rcases.append((c["id"], rfl, None, r[1]))
    dout, derrs = cd.impl(dec_lines)
    if derrs:
        ctx.violation(dict(kind="harness-crash", detail=derrs[:2]), what="zv_codec crashed while decompressing: %r" % (derrs[0],))
    mres = cd.model(rcases)
    # A-tie: rebuild every emitted frame with the serialiser model A (coq/Codec/Encode.v) from what R saw; must be byte-identical
    big_budget = [8 if ctx.quick else 10 ** 9]

    def want_asm(f):
        if len(f) <= 40000:
            return True
        big_budget[0] -= 1
        return big_budget[0] >= 0
    ares = cd.model([(i, (fl + "," if fl else "") + "asm", d, f) for i, fl, d, f in rcases if want_asm(f)])
    hist = {}
    for c in cases:
        if "frame" not in c:
            continue
        x = c["x"]
        d = codec.parse_ok(dout.get(c["id"], "ERR missing"))
        m = mres.get(c["id"], ("ERR", "missing", -1))
        rep = dict(entry=c["entry"], params=c["params"], kind=c["kind"], input_hex=x.hex()[:200000], frame_hex=c["frame"].hex()[:200000])
        if d[0] != "OK" or d[1] != x:
            ctx.violation(dict(rep, decoder="libzstd", result=str(d[:2])[:300]),
                          what="libzstd does not decode its own output back to the input (entry %s, params %s, |x|=%d): %s" % (c["entry"], c["params"], len(x), d[1] if d[0] == "ERR" else "content differs"))
        if m[0] != "OK":
            ctx.violation(dict(rep, decoder="R", result="ERR %s site %s" % (m[1], m[2])),
                          what="reference decoder R rejects a frame emitted by the compressor (%s at site %s; entry %s, params %s, |x|=%d)" % (m[1], m[2], c["entry"], c["params"], len(x)))
            continue
        if m[1] != x:
            ctx.violation(dict(rep, decoder="R", result="content differs"),
                          what="reference decoder R decodes the compressor's output to different bytes (entry %s, params %s, |x|=%d)" % (c["entry"], c["params"], len(x)))
            continue
        a = ares.get(c["id"])
        if a is None:
            pass
        elif a[0] != "OK" or a[2] != "ASM=same":
            ctx.violation(dict(rep, correspondence="A (serialiser model Codec/Encode.v: frame header, block framing, raw/RLE blocks, epilogue) vs the emitted frame",
                               theorems=["C01_frame_header_round_trip", "C01_frame_assembly_round_trip", "C01_store_compressor_lossless"], result=str(a)[:200]),
                          what="serialiser model A does not reproduce the frame the compressor emitted (%s); the round trip of this frame itself succeeded" % (a[2] if a[0] == "OK" else "R/A error %s" % (a[1],)),
                          no_input=True)
        else:
            ctx.cov["frames_rebuilt_by_A"] = ctx.cov.get("frames_rebuilt_by_A", 0) + 1
        frames = codec.parse_trace(m[2])
        c["trace"] = frames
        sig = codec.trace_signature(frames)
        ctx.count((sig, c["entry"].split(":")[0]), nontrivial=len(x) > 0)
        ctx.cov["traces_validated_against_impl"] += 1
        for f in frames:
            for b in f.get("blocks", []):
                k = "block type %d lit %d modes %d" % (b["type"], b["litmode"], b["modes"])
                hist[k] = hist.get(k, 0) + 1
        if len(x) < 64:
            ctx.sample(dict(entry=c["entry"], params=c["params"], input_hex=x.hex(), frame_hex=c["frame"].hex()))
    return hist


def header_tie(ctx, cd):
    """unit-level tie: ZSTD_writeFrameHeader of the current tree vs Encode.enc_fheader on a boundary grid + seeded random vectors"""
    exe = core.build_harness("c01_hdr", ["c01_hdr.c"], variant="o1", extra_flags=["-w"])
    rng = random.Random(ctx.seed + 7)
    vec = []
    dids = [0, 1, 255, 256, 257, 65535, 65536, 65537, 65791, 65792, 2**24, 2**32 - 1]
    for wl in range(10, 32):
        pls = [0, 1, 255, 256, 257, 65791, 65792, 65793, 2**wl - 1, 2**wl, 2**wl + 1, 2**32 - 2, 2**32 - 1, 2**32, 2**64 - 2]
        for fl in range(16):
            cs, ck, nd, ml = fl & 1, (fl >> 1) & 1, (fl >> 2) & 1, (fl >> 3) & 1
            for pl in (pls if (ctx.tier == "thorough" or wl in (10, 16, 17, 27, 31)) else pls[::3]):
                vec.append((wl, cs, ck, nd, ml, pl, rng.choice(dids)))
    for _ in range(3000 if ctx.tier == "thorough" else 600):
        vec.append((rng.randint(10, 31), rng.getrandbits(1), rng.getrandbits(1), rng.getrandbits(1), rng.getrandbits(1),
                    rng.choice([rng.getrandbits(rng.randint(0, 64)) % (2**64 - 1), rng.randint(0, 70000)]), rng.choice(dids + [rng.getrandbits(32)])))
    lines = ["h%d %d %d %d %d %d %d %d" % ((i,) + v) for i, v in enumerate(vec)]
    out = core.sh([exe], inp=("\n".join(lines) + "\n").encode())
    impl = {}
    for l in out[1].splitlines():
        t = l.split(" ")
        impl[t[0]] = t[2] if t[1] == "OK" else "ERR"
    mres = cd.model([("h%d" % i, "fhdr=%d:%d:%d:%d:%d:%d:%d" % v, None, b"") for i, v in enumerate(vec)])
    bad = 0
    for i, v in enumerate(vec):
        k = "h%d" % i
        m = mres.get(k, ("ERR", "missing", -1))
        mh = m[1].hex() if m[0] == "OK" else "ERR"
        ctx.count(("hdr", v[0] >= 17, v[1], v[2], v[3], v[4], (v[5] >= 256) + (v[5] >= 65792) + (v[5] >= 2**32 - 1), v[5] <= 2**v[0],
                   (v[6] > 0) + (v[6] > 255) + (v[6] > 65535)), nontrivial=True)
        if impl.get(k) != mh:
            bad += 1
            if bad <= 3:
                wl, cs, ck, nd, ml, pl, di = v
                # direct oracle: does the header the implementation wrote still parse back to the fields it was given (via R)?
                hr = cd.model([("p", "hdr" + (",magicless" if ml else ""), None, bytes.fromhex(impl.get(k, "")) if impl.get(k, "ERR") != "ERR" else b"")]).get("p")
                concrete = False
                if hr and hr[0] == "OK":
                    pass
                ctx.violation(dict(kind="frame-header-writer", windowLog=wl, contentSizeFlag=cs, checksumFlag=ck, noDictIDFlag=nd, magicless=ml,
                                   pledgedSrcSize=pl, dictID=di, impl_hex=impl.get(k), model_hex=mh,
                                   theorem="C01_frame_header_round_trip"),
                              what="ZSTD_writeFrameHeader(windowLog %d, contentSize %d, checksum %d, noDictID %d, magicless %d, pledged %d, dictID %d) = %s but the model writes %s"
                                   % (wl, cs, ck, nd, ml, pl, di, impl.get(k), mh), no_input=True)
    # skippable frame writer (public API) vs enc_skippable
    sk = [(v, n) for v in (0, 1, 7, 15) for n in (0, 1, 2, 3, 255, 256, 4000)]
    out2 = core.sh([exe], inp=("\n".join("S s%d %d %d" % (i, v, n) for i, (v, n) in enumerate(sk)) + "\n").encode())
    impl2 = {l.split(" ")[0]: (l.split(" ")[2] if l.split(" ")[1] == "OK" else "ERR") for l in out2[1].splitlines() if l}
    m2 = cd.model([("s%d" % i, "skip=%d" % v, bytes((j * 7 + 3) & 255 for j in range(n)), b"") for i, (v, n) in enumerate(sk)])
    for i, (v, n) in enumerate(sk):
        k = "s%d" % i
        mm = m2.get(k, ("ERR", "missing", -1))
        mh = mm[1].hex() if mm[0] == "OK" else "ERR"
        ctx.count(("skippable", v, min(n, 4)), nontrivial=True)
        if impl2.get(k) != mh:
            ctx.violation(dict(kind="skippable-frame-writer", variant=v, payload_len=n, impl_hex=(impl2.get(k) or "")[:200], model_hex=mh[:200], theorem="C04_skippable_frame_then_stream"),
                          what="ZSTD_writeSkippableFrame(variant %d, %d bytes) differs from the model enc_skippable" % (v, n), no_input=True)
    ctx.notes["header_vectors"] = len(vec)
    ctx.cov["traces_validated_against_impl"] += len(vec) - bad


def gen_parse(rng, nseq, maxll, maxml, out=None, rep=None):
    """a random valid parse (literals, [(ll, ml, ofv)]) and the bytes it stands for; repeat-offset codes included.
    With out/rep given (history so far, repeat offsets), continues from there and returns (lits, qs, new out, new rep)."""
    cont = out is not None
    rep = list(rep) if rep else [1, 4, 8]
    out = bytearray(out) if cont else bytearray()
    lits = bytearray()
    qs = []
    for _ in range(nseq):
        ll = rng.choice([0, 0, 1, 2, rng.randint(0, maxll)])
        if len(out) == 0 and ll == 0:
            ll = rng.randint(1, 8)
        seg = bytes(rng.getrandbits(8) for _ in range(ll)) if rng.random() < 0.5 else bytes([rng.getrandbits(8)]) * ll
        lits += seg
        out += seg
        off = None
        if rng.random() < 0.45:
            ofv = rng.randint(1, 3)
            idx = ofv + (1 if ll == 0 else 0)
            if idx == 1:
                off, nrep = rep[0], rep
            elif idx == 2:
                off, nrep = rep[1], [rep[1], rep[0], rep[2]]
            elif idx == 3:
                off, nrep = rep[2], [rep[2], rep[0], rep[1]]
            else:
                off, nrep = rep[0] - 1, [rep[0] - 1, rep[0], rep[1]]
            if not (1 <= off <= len(out)):
                off = None
        if off is None:
            off = min(len(out), rng.choice([1, 2, 3, rng.randint(1, len(out)), rng.randint(1, min(len(out), 16)), len(out)]))
            ofv = off + 3
            nrep = [off, rep[0], rep[1]]
        ml = rng.choice([3, 4, 5, rng.randint(3, maxml), rng.randint(3, 40)])
        rep = nrep
        for _ in range(ml):
            out.append(out[-off])
        qs.append((ll, ml, ofv))
    tail = bytes(rng.getrandbits(8) for _ in range(rng.choice([0, 0, 1, rng.randint(0, maxll)])))
    lits += tail
    out += tail
    if cont:
        return bytes(lits), qs, out, rep
    return bytes(lits), qs, bytes(out)


def lz_blocks_tie(ctx, cd):
    """multi-block frames built by the LZ compressor model (theorem C01_lz_compressor_model_lossless): raw / RLE / compressed blocks in
    any order, histories and repeat offsets carried across blocks; libzstd and R must decode them to the parsed bytes"""
    rng = random.Random(ctx.seed + 57)
    cases = []
    for i in range(40 if ctx.quick else 400):
        out, rep, spec = bytearray(), [1, 4, 8], []
        for _ in range(rng.randint(1, 6)):
            k = rng.choice(["L", "L", "L", "R", "E"])
            if k == "R":
                dd = rng.randbytes(rng.choice([0, 1, 5, 100, 3000]))
                out += dd
                spec.append("R" + dd.hex())
            elif k == "E":
                v, n = rng.randrange(256), rng.choice([0, 1, 2, 50, 4000])
                out += bytes([v]) * n
                spec.append("E%d.%d" % (v, n))
            else:
                lits, qs, out, rep = gen_parse(rng, rng.choice([1, 2, 5, 40, 200]), rng.choice([5, 40, 600]), rng.choice([10, 80, 3000]), out=out, rep=rep)
                spec.append("L%s.%s" % (lits.hex(), ";".join("%d/%d/%d" % q for q in qs)))
        if len(out) > 120000:
            continue
        cases.append(dict(id="y%d" % i, spec="_".join(spec), out=bytes(out), wlog=rng.choice([17, 19, 22]), ck=rng.getrandbits(1), nb=len(spec),
                          kinds="".join(x[0] for x in spec)))
    mres = cd.model([(c["id"], "lzblocks=%d:%d" % (c["wlog"], c["ck"]), c["spec"].encode(), b"") for c in cases]) if False else None
    # the spec is not hex: bypass codec.hx by writing the driver lines directly
    lines = ["%s lzblocks=%d:%d %s -" % (c["id"], c["wlog"], c["ck"], c["spec"]) for c in cases]
    outm, errs = codec._run_chunks(cd.r_exe(), lines, core.NCPU, 1800)
    dec, ok, skipped = [], 0, 0
    for c in cases:
        t = outm.get(c["id"], "ERR missing").split(" ")
        if t[0] != "OK":
            if len(t) > 1 and t[1] == "invalidparse":
                skipped += 1      # e.g. the compressed form of a block exceeds Block_Maximum_Size: outside the theorem
                continue
            ctx.violation(dict(kind="model-run", result=" ".join(t)[:200]), what="the LZ compressor model failed to run on a generated block list: %s" % " ".join(t)[:100], no_input=True)
            continue
        c["content"] = bytes.fromhex(t[1]) if t[1] != "-" else b""
        c["frame"] = bytes.fromhex(t[2])
        if c["content"] != c["out"]:
            ctx.violation(dict(kind="lz-semantics", spec=c["spec"][:4000]), what="content computed by the model for a block list disagrees with the independent Python executor", no_input=True)
            continue
        dec.append("D %s dctx - - %s %d" % (c["id"], codec.hx(c["frame"]), len(c["out"]) + 16))
        dec.append("D %s|s stream:7:5 - - %s %d" % (c["id"], codec.hx(c["frame"]), len(c["out"]) + 16))
    dout, derrs = cd.impl(dec)
    rres = cd.model([(c["id"], "", None, c["frame"]) for c in cases if "frame" in c])
    for c in cases:
        if "frame" not in c:
            continue
        rep_ = dict(kind="model-built-multiblock-frame", frame_hex=c["frame"].hex()[:100000], expected_hex=c["out"].hex()[:100000], blocks=c["kinds"])
        good = True
        for key in (c["id"], c["id"] + "|s"):
            d = codec.parse_ok(dout.get(key, "ERR missing"))
            if d[0] != "OK" or d[1] != c["out"]:
                good = False
                ctx.violation(dict(rep_, decoder="libzstd " + ("streaming" if key.endswith("|s") else "one-shot"), result=str(d[:2])[:200]),
                              what="libzstd does not decode a %d-block frame (%s) built by the proved LZ compressor model to the parsed bytes: %s"
                                   % (c["nb"], c["kinds"], d[1] if d[0] == "ERR" else "content differs"))
        r = rres.get(c["id"], ("ERR", "missing", -1))
        if r[0] != "OK" or r[1] != c["out"]:
            good = False
            ctx.violation(dict(rep_, decoder="R", result=str(r[:2])[:200]), what="R does not decode the model-built multi-block frame to the parsed bytes (contradicts C01_lz_compressor_model_lossless)", no_input=True)
        if good:
            ok += 1
            ctx.count(("lzblocks", c["kinds"][:4], c["ck"]), nontrivial=True)
    ctx.cov["model_built_multiblock_frames_decoded_by_impl"] = ok
    ctx.notes["model_built_multiblock_skipped_outside_theorem"] = skipped
    ctx.cov["traces_validated_against_impl"] += ok


def lz_tie(ctx, cd):
    """A -> implementation: frames the MODEL builds from random valid parses (raw literals, predefined tables, the search-based FSE
    encoder, model bit packing, model frame header / checksum) must be decoded by libzstd and by R to the parsed bytes"""
    rng = random.Random(ctx.seed + 31)
    n = 60 if ctx.quick else 600
    cases = []
    for i in range(n):
        shape = rng.choice(["few", "few", "mid", "many", "long"])
        if shape == "few":
            lits, qs, out = gen_parse(rng, rng.randint(1, 6), 40, 60)
        elif shape == "mid":
            lits, qs, out = gen_parse(rng, rng.randint(7, 126), 30, 200)
        elif shape == "many":
            lits, qs, out = gen_parse(rng, rng.choice([127, 128, 129, rng.randint(130, 1500)]), 6, 30)
        else:
            lits, qs, out = gen_parse(rng, rng.randint(1, 12), 9000, 20000)
        if i in (1, 2, 3) and (not ctx.quick or i == 2):
            # Number_of_Sequences at the 3-byte threshold (LONGNBSEQ = 0x7F00 = 32512)
            nq = 32510 + i
            o = bytearray(rng.randbytes(8))
            lits, qs = bytes(o), []
            for j in range(nq):
                off = rng.randint(1, min(len(o), 16))
                for _ in range(3):
                    o.append(o[-off])
                qs.append((8 if j == 0 else 0, 3, off + 3))
            out = bytes(o)
        if len(out) > 126000 or len(lits) > 100000:
            continue
        wlog = rng.choice([17, 18, 20, 23, 27])
        cs, ck = rng.getrandbits(1), rng.getrandbits(1)
        cases.append(dict(id="z%d" % i, lits=lits, qs=qs, out=out, wlog=wlog, cs=cs, ck=ck))
    mres = cd.model([(c["id"], "lzenc=%d:%d:%d:%s" % (c["wlog"], c["cs"], c["ck"], ";".join("%d.%d.%d" % q for q in c["qs"])), c["lits"], b"") for c in cases])
    dec = []
    for c in cases:
        m = mres.get(c["id"], ("ERR", "missing", -1))
        if m[0] == "ERR" and m[1] == "toolarge":
            continue      # compressed form larger than Block_Maximum_Size: outside the theorem (the library stores such a block raw)
        if m[0] != "OK":
            ctx.violation(dict(kind="model-encoder-refuses-valid-parse", lits_hex=c["lits"].hex()[:4000], seqs=c["qs"][:200], result=str(m)),
                          what="the model encoder A refuses a valid parse (%s): theorem C01_basic_block_encoder_total no longer describes the run" % (m,), no_input=True)
            continue
        c["regen"], c["frame"] = m[1], bytes.fromhex(m[2]) if m[2] != "-" else b""
        if c["regen"] != c["out"]:
            ctx.violation(dict(kind="lz-semantics", lits_hex=c["lits"].hex()[:4000], seqs=c["qs"][:200]),
                          what="list-level LZ semantics of the model (lz_exec) disagrees with the independent Python executor", no_input=True)
            continue
        dec.append("D %s dctx - - %s %d" % (c["id"], codec.hx(c["frame"]), len(c["out"]) + 16))
    dout, derrs = cd.impl(dec)
    rres = cd.model([(c["id"], "", None, c["frame"]) for c in cases if "frame" in c])
    ok = 0
    for c in cases:
        if "frame" not in c:
            continue
        d = codec.parse_ok(dout.get(c["id"], "ERR missing"))
        r = rres.get(c["id"], ("ERR", "missing", -1))
        rep = dict(kind="model-built-frame", frame_hex=c["frame"].hex()[:100000], expected_hex=c["out"].hex()[:100000], seqs=c["qs"][:200])
        if d[0] != "OK" or d[1] != c["out"]:
            ctx.violation(dict(rep, decoder="libzstd", result=str(d[:2])[:200]),
                          what="libzstd does not decode a frame built by the proved serialiser model A from a valid parse (%d sequences, %d bytes) to the parsed bytes: %s"
                               % (len(c["qs"]), len(c["out"]), d[1] if d[0] == "ERR" else "content differs"))
        elif r[0] != "OK" or r[1] != c["out"]:
            ctx.violation(dict(rep, decoder="R", result=str(r[:2])[:200]), what="R does not decode the model-built frame to the parsed bytes", no_input=True)
        else:
            ok += 1
            ctx.count(("lzframe", min(len(c["qs"]), 130) // 10, len(c["qs"]) >= 128, c["cs"], c["ck"], any(q[2] <= 3 for q in c["qs"]), len(c["lits"]) >= 32, len(c["lits"]) >= 4096), nontrivial=True)
    ctx.cov["model_built_frames_decoded_by_impl"] = ok
    ctx.cov["traces_validated_against_impl"] += ok


def wide_sequences(ctx):
    """round trips of inputs whose parse contains the widest sequence the format allows (58 extra bits), 128 MiB apart"""
    exe = core.build_harness("c01_big", ["c01_big.c"], variant="o1", extra_flags=["-w"])
    rc, out, err = core.sh([exe, "16" if ctx.tier == "thorough" else "4"], timeout=1500)
    n = 0
    for l in out.splitlines():
        t = l.split(" ")
        if len(t) >= 3 and t[2] == "FAIL":
            ctx.violation(dict(kind="wide-sequence", harness="harness/c01_big.c", v=int(t[0]), mode=int(t[1]), result=" ".join(t[3:]),
                               how="build/bin/c01_big/<exe> 16 ; line '%s'" % l),
                          what="round trip fails on a 128 MiB input whose last block holds one sequence with >= 64 KiB literals, a >= 32771-byte match at distance >= 2^27 "
                               "followed by %s short sequences (%s): %s" % (t[0], "level 1 + LDM, windowLog 28" if t[1] == "0" else "level 5, windowLog 28", " ".join(t[3:])))
        elif len(t) >= 3 and t[2] == "OK":
            n += 1
            ctx.count(("wide-sequence", t[1]), nontrivial=True)
    if rc != 0 and not out:
        ctx.violation(dict(kind="harness-crash", harness="c01_big", detail=err[-500:]), what="c01_big crashed: %s" % err[-200:])
    ctx.notes["wide_sequence_round_trips"] = n


def search_tables(ctx, cd):
    """model-side witness for a broken table theorem: compress inputs that use every LL/ML/OF code and round-trip them"""
    rng = random.Random(ctx.seed + 99)
    cases = []
    for i in range(40):
        x = codec.gen_input(rng, rng.choice(["selfcopy", "longdist", "text", "zeros", "period"]), rng.choice([5000, 70000, 140000]))
        cases.append(dict(id="s%d" % i, kind="search", x=x, entry="compress2", params={"level": rng.choice([1, 3, 19])}))
    before = len(ctx.violations)
    run_cases(ctx, cd, cases)
    return len(ctx.violations) > before


def run(ctx):
    ctx.cov["rule"] = ("cases = (input kind x size clustered at 0,1,255/256,1KiB,64KiB+-1,128KiB+-1,256KiB) x (random accepted parameter "
                       "vector: level/strategy/windowLog/hashLog/chainLog/searchLog/minMatch/targetLength/LDM/splitter/rowMatchFinder/"
                       "targetCBlockSize/maxBlockSize/literalMode/checksum/contentSize/magicless) x entry point {compress2, ZSTD_compress, "
                       "compressCCtx, compress_advanced}; each frame decoded by libzstd and by the extracted Gallina decoder R and compared "
                       "with the input; distinct = distinct (trace signature: header form, block types, literal modes, sequence table modes, "
                       "nbSeq class) x entry point; non-trivial = non-empty input")
    ctx.prove()
    cd = codec.Codec(ctx)
    rng = random.Random(ctx.seed)
    if ctx.replay_file:
        import json
        rp = json.load(open(ctx.replay_file))["replay"]
        cases = [dict(id="r0", kind=rp.get("kind", "replay"), x=bytes.fromhex(rp["input_hex"]), entry=rp["entry"], params=rp["params"])]
    else:
        cases = make_cases(ctx, rng)
    hist = run_cases(ctx, cd, cases)
    if not ctx.replay_file:
        header_tie(ctx, cd)
        lz_tie(ctx, cd)
        lz_blocks_tie(ctx, cd)
        wide_sequences(ctx)
    ctx.notes["block_histogram"] = hist
    ctx.notes["input_kinds"] = {k: sum(1 for c in cases if c["kind"] == k) for k in set(c["kind"] for c in cases)}
    ctx.notes["entries"] = {k: sum(1 for c in cases if c["entry"].split(":")[0] == k) for k in set(c["entry"].split(":")[0] for c in cases)}

    def search(broken):
        found = search_tables(ctx, cd)
        return [] if not found else [(dict(kind="see the other replay files of this run"), "broken table theorem has a concrete failing round trip")]
    ctx.proof_verdict(search)
