"""C03 - decoding untrusted bytes is memory-safe, bounded and terminating (PARTIAL, see docs/C03.md).

Decided by: Coq theorems (coq/Props/Properties_C03.v) on the Gallina reference decoder R (fuel never decides a
result, output bounded by what the stream declares, every copy of an accepted sequence stays inside the history,
necessity witnesses for every bound check), on a model of the multi-DDict hash set and on a model of the
no-forward-progress watchdog; tied to the current sources by regenerated constants (coq/Gen/Gen_C03.v,
Gen_Tables.v) and by differential runs of the extracted models against the real code.
Supporting tests (labelled as such): the whole decoder surface run under ASan+UBSan on witnesses, structure-aware
mutations of real frames, truncations, random bytes, hostile dictionaries and legacy frames; agreement
"libzstd success => R success with the same bytes"."""
import json
import os
import random
import re
import subprocess
import time
from concurrent.futures import ThreadPoolExecutor

from .. import codec, core

MAGIC = bytes.fromhex("28b52ffd")
SKIPMAGIC = bytes.fromhex("502a4d18")

# R sites at which libzstd's ONE-SHOT path is documented to be more permissive than the format (see docs/C03.md)
PERMISSIVE = {
    342: "P1 block regenerates more than Block_Maximum_Size (sequence): one-shot decoder bounds by capacity only",
    361: "P1 block regenerates more than Block_Maximum_Size (trailing literals): one-shot decoder bounds by capacity only",
    422: "P1 raw block larger than Block_Maximum_Size: one-shot decoder bounds by capacity only",
    424: "P1 RLE block larger than Block_Maximum_Size: one-shot decoder bounds by capacity only",
    213: "P2 Huffman weight 12: libzstd accepts table log 12 (HUF_TABLELOG_MAX), the format text says 11",
    216: "P2 Huffman table log 12: libzstd accepts table log 12 (HUF_TABLELOG_MAX), the format text says 11",
    220: "P3 Huffman literal stream without end mark: the 4-stream fast decoder (HUF_initFastDStream) tolerates a zero last byte",
    221: "P3 Huffman literal stream exhausted early: the 4-stream fast decoder does not verify exact consumption",
    222: "P3 Huffman literal stream not consumed exactly: the 4-stream fast decoder does not verify exact consumption",
}


# --------------------------------------------------------------------------------------------------------------
# running things

def gen_const(name):
    txt = open(os.path.join(core.COQ, "Gen", "Gen_C03.v")).read()
    m = re.search(r"Definition %s : N := (\d+)%%N" % name, txt)
    return int(m.group(1))


def run_lines(exe, lines, nproc=core.NCPU, timeout=900, out_id_index=0):
    """Run an in-process line harness over `lines` in parallel chunks.  A chunk whose process dies (sanitizer trap,
    signal) is resumed after the culprit.  Returns ({id: rest}, [(culprit_line, rc, stderr_tail)])."""
    if not lines:
        return {}, []
    nproc = max(1, min(nproc, (len(lines) + 7) // 8))
    chunks = [lines[i::nproc] for i in range(nproc)]

    def one(ch):
        out, crashes = {}, []
        todo = list(ch)
        while todo:
            try:
                p = subprocess.run([exe], input=("\n".join(todo) + "\n").encode(), stdout=subprocess.PIPE,
                                   stderr=subprocess.PIPE, timeout=timeout)
                rc, so, se = p.returncode, p.stdout, p.stderr
            except subprocess.TimeoutExpired as e:
                rc, so, se = 124, e.stdout or b"", e.stderr or b""
            done = 0
            for l in so.decode("utf-8", "replace").split("\n"):
                if not l or " " not in l:
                    continue
                if out_id_index:
                    tt = l.split(" ", 2)
                    if len(tt) == 3:
                        out[tt[1]] = tt[2]
                    continue
                i = l.find(" ")
                out[l[:i]] = l[i + 1:]
            ids = [t.split(" ")[1] for t in todo]
            while done < len(ids) and ids[done] in out:
                done += 1
            if rc == 0 and done == len(ids):
                break
            if done >= len(todo):
                crashes.append(("(after the last case)", rc, se.decode("utf-8", "replace")[-3000:]))
                break
            crashes.append((todo[done], rc, se.decode("utf-8", "replace")[-3000:]))
            todo = todo[done + 1:]
        return out, crashes
    with ThreadPoolExecutor(nproc) as ex:
        res = list(ex.map(one, chunks))
    out, crashes = {}, []
    for o, c in res:
        out.update(o)
        crashes += c
    return out, crashes


def run_model(exe, lines, timeout=600):
    p = subprocess.run([exe], input=("\n".join(lines) + "\n").encode(), stdout=subprocess.PIPE, stderr=subprocess.PIPE, timeout=timeout)
    if p.returncode != 0:
        raise RuntimeError("extracted C03 model failed: rc=%d %s" % (p.returncode, p.stderr.decode()[-500:]))
    return [l for l in p.stdout.decode().split("\n") if l]


# --------------------------------------------------------------------------------------------------------------
# frame structure (of VALID frames, for structure-aware mutation)

def parse_structure(f):
    """-> dict(hs=header size, regions=[(name, start, end)], blocks=[(hdr_off, type, content_off, content_len)], cksum) or None"""
    try:
        if f[:4] != MAGIC:
            return None
        fhd = f[4]
        single = (fhd >> 5) & 1
        did = fhd & 3
        fcsf = fhd >> 6
        p = 5 + (0 if single else 1) + [0, 1, 2, 4][did] + ([1, 2, 4, 8][fcsf] if (fcsf or single) else 0)
        regions = [("fhdr", 4, p)]
        blocks = []
        while True:
            hv = f[p] | (f[p + 1] << 8) | (f[p + 2] << 16)
            last, bt, bs = hv & 1, (hv >> 1) & 3, hv >> 3
            clen = 1 if bt == 1 else bs
            regions.append(("bhdr", p, p + 3))
            c = p + 3
            blocks.append((p, bt, c, clen))
            if bt == 2 and clen >= 2:
                b0 = f[c]
                lt, sf = b0 & 3, (b0 >> 2) & 3
                if lt < 2:
                    hsz = 1 if sf in (0, 2) else (2 if sf == 1 else 3)
                    hv2 = int.from_bytes(f[c:c + hsz], "little")
                    n = hv2 >> 3 if sf in (0, 2) else hv2 >> 4
                    lsec = hsz + (n if lt == 0 else 1)
                else:
                    hsz = 3 if sf < 2 else (4 if sf == 2 else 5)
                    nb = 10 if sf < 2 else (14 if sf == 2 else 18)
                    hv2 = int.from_bytes(f[c:c + hsz], "little")
                    csz = (hv2 >> (4 + nb)) & ((1 << nb) - 1)
                    lsec = hsz + csz
                    regions.append(("huf", c + hsz, min(c + hsz + 40, c + lsec)))
                    regions.append(("litend", max(c + hsz, c + lsec - 2), c + lsec))
                regions.append(("lhdr", c, c + hsz))
                s = c + lsec
                if s < c + clen:
                    regions.append(("seqh", s, min(s + 4, c + clen)))
                    regions.append(("fse", min(s + 2, c + clen), min(s + 40, c + clen)))
                regions.append(("bsend", max(c, c + clen - 3), c + clen))
            p = c + clen
            if last:
                break
        ck = None
        if (fhd >> 2) & 1:
            regions.append(("cksum", p, p + 4))
            ck = p
            p += 4
        return dict(hs=regions[0][2], regions=[r for r in regions if r[2] > r[1]], blocks=blocks, end=p, cksum=ck)
    except IndexError:
        return None


def mut_byte(rng, b):
    k = rng.randrange(7)
    if k == 0:
        return b ^ (1 << rng.randrange(8))
    if k == 1:
        return 0
    if k == 2:
        return 0xFF
    if k == 3:
        return (b + 1) & 255
    if k == 4:
        return (b - 1) & 255
    if k == 5:
        return b ^ 0x80
    return rng.randrange(256)


def mutate(rng, f, st, others):
    """one structure-aware mutation of the valid frame f; returns (bytes, tag)"""
    f = bytearray(f)
    names = sorted(set(r[0] for r in st["regions"])) if st else []
    k = rng.random()
    if st and k < 0.72:
        name = rng.choice(names)
        reg = rng.choice([r for r in st["regions"] if r[0] == name])
        for _ in range(rng.choice([1, 1, 1, 2, 3])):
            i = rng.randrange(reg[1], reg[2])
            if i < len(f):
                f[i] = mut_byte(rng, f[i])
        return bytes(f), name
    if k < 0.80:
        return bytes(f[:rng.randrange(len(f))]), "trunc"
    if k < 0.84:
        return bytes(f) + rng.randbytes(rng.choice([1, 3, 8, 30])), "extend"
    if st and others and k < 0.92:
        # splice: replace the content of one block with the content of a block of another frame (header size patched)
        g, gst = rng.choice(others)
        if gst and gst["blocks"] and st["blocks"]:
            bo, bt, co, cl = rng.choice(st["blocks"])
            go, gbt, gco, gcl = rng.choice(gst["blocks"])
            hv = f[bo] | (f[bo + 1] << 8) | (f[bo + 2] << 16)
            newsize = gcl if gbt != 1 else ((g[go] | (g[go + 1] << 8) | (g[go + 2] << 16)) >> 3)
            hv = (hv & 1) | (gbt << 1) | ((newsize & 0x1FFFFF) << 3)
            out = bytes(f[:bo]) + bytes([hv & 255, (hv >> 8) & 255, (hv >> 16) & 255]) + bytes(g[gco:gco + gcl]) + bytes(f[co + cl:])
            return out, "splice"
    for _ in range(rng.choice([1, 2, 4])):
        i = rng.randrange(len(f))
        f[i] = mut_byte(rng, f[i])
    return bytes(f), "anybyte"


def legacy_frames():
    """valid v0.5/v0.6/v0.7 frames embedded in tests/legacy.c"""
    try:
        src = open(os.path.join(core.REPO, "tests", "legacy.c")).read()
        i = src.index("const char* const COMPRESSED =")
        lit = src[i:src.index(";", i)]
        b = bytearray()
        for p in re.findall(r'"((?:[^"\\]|\\.)*)"', lit):
            k = 0
            while k < len(p):
                if p[k] == "\\" and p[k + 1] == "x":
                    b.append(int(p[k + 2:k + 4], 16))
                    k += 4
                elif p[k] == "\\":
                    k += 2
                else:
                    b.append(ord(p[k]))
                    k += 1
        pos = [m.start() for m in re.finditer(rb"[\x24-\x28]\xb5\x2f\xfd", bytes(b))] + [len(b)]
        out = []
        for a, z in zip(pos, pos[1:]):
            if b[a] in (0x25, 0x26, 0x27):
                out.append(bytes(b[a:z]))
        return out
    except (OSError, ValueError):
        return []


# --------------------------------------------------------------------------------------------------------------
# case generation

def make_cases(ctx, rng, cd, witnesses, gdict):
    """-> list of dict(id, cmd, flags, dict, data, cap, seed, origin, base)"""
    quick = ctx.quick
    cases = []

    def add(cmd, data, origin, dict_=None, cap=None, flags="-", base=None):
        if cap is None:
            cap = min(max(4 * len(data) + 2048, 8192), 400000)
        cases.append(dict(id="k%d" % len(cases), cmd=cmd, flags=flags, dict=dict_, data=data, cap=cap,
                          seed=rng.randrange(1 << 30), origin=origin, base=base))

    # (2) the necessity witnesses first: the corpus
    for name, cls, site, b in witnesses:
        add("F", b, "witness:" + name, cap=4096)
        for cap in (7, 40, 140000, rng.choice([0, 1, 3, 12, 1024, 1030, 1031])):      # near-end-of-buffer code paths (execSequenceEnd, split literals)
            add("F", b, "witness:" + name, cap=cap)
    # (1) mostly valid: real frames + structure-aware mutations
    nvalid = 46 if quick else 260
    clines, meta = [], {}
    sizes = [0, 1, 5, 17, 64, 200, 300, 1000, 1025, 3000, 5000] + ([20000, 40000, 70000] if quick else [20000, 40000, 70000, 131073, 200000])
    for i in range(nvalid):
        kind = rng.choice(codec.KINDS)
        size = rng.choice(sizes[:11] if rng.random() < 0.8 else sizes)
        x = codec.gen_input(rng, kind, size)
        p = codec.gen_params(rng, size)
        p.pop("format", None)
        if rng.random() < 0.3:
            p["windowLog"] = rng.choice([10, 10, 11, 12])
        usedict = rng.random() < 0.2
        if rng.random() < 0.25:
            # streaming compression with flushes: several blocks, some raw / RLE
            ops = ";".join("%d:%d:%d" % (rng.choice([1, 50, 700, 5000]), 1 << 20, rng.choice([0, 1, 1, 0])) for _ in range(8)) + ";%d:%d:2" % (size, 1 << 20)
            clines.append("S v%d %s %s %s %s %s" % (i, codec.params_str(p), "load" if usedict else "-", codec.hx(gdict["dict"]) if usedict else "-", ops, codec.hx(x)))
        else:
            clines.append("C v%d compress2 %s %s %s %s" % (i, codec.params_str(p), "load" if usedict else "-", codec.hx(gdict["dict"]) if usedict else "-", codec.hx(x)))
        meta["v%d" % i] = (x, usedict, kind)
    out, errs = cd.impl(clines)
    if errs:
        raise RuntimeError("zv_codec crashed while producing the valid frames: %r" % (errs[:1],))
    valid = []
    for vid, (x, usedict, kind) in meta.items():
        r = codec.parse_ok(out.get(vid, "ERR missing"))
        if r[0] != "OK":
            continue
        fr = r[1]
        valid.append((fr, parse_structure(fr), gdict["dict"] if usedict else None, x))
    valid.append((gdict["frame"], parse_structure(gdict["frame"]), gdict["dict"], gdict["plain"]))
    # a two-frame stream with a skippable frame in between
    nodict = [v for v in valid if v[2] is None]
    if len(nodict) >= 2:
        valid.append((nodict[0][0] + SKIPMAGIC + bytes([5, 0, 0, 0]) + b"hello" + nodict[1][0], None, None, nodict[0][3] + nodict[1][3]))
    ctx.notes["valid_frames"] = len(valid)
    others = [(fr, st) for fr, st, d, x in valid if st]
    for fr, st, d, x in valid:
        add("F", fr, "valid", dict_=d, cap=len(x) + rng.choice([0, 0, 1, 100]), base=x)
        if len(x) > 0 and rng.random() < 0.3:
            add("F", fr, "valid-smallcap", dict_=d, cap=rng.randrange(len(x)), base=None)
    nmut = 1700 if quick else 16000
    pool = [v for v in valid if len(v[0]) <= 6000] or valid
    for i in range(nmut):
        fr, st, d, x = rng.choice(pool if rng.random() < 0.9 else valid)
        m, tag = mutate(rng, fr, st, others)
        if rng.random() < 0.15:
            m, tag2 = mutate(rng, m, st if len(m) == len(fr) else None, others) if m else (m, "none")
            tag += "+" + tag2
        add("F", m, "mut:" + tag, dict_=d)
    # truncations at every byte for small frames
    small = sorted([v for v in valid if len(v[0]) <= 120], key=lambda v: len(v[0]))[:(6 if quick else 30)]
    for fr, st, d, x in small:
        for k in range(len(fr)):
            add("F", fr[:k], "truncate-every-byte", dict_=d, cap=len(x) + 16)
    # (3) random bytes behind a valid magic / semi-structured random frames
    for i in range(160 if quick else 1500):
        r = rng.random()
        if r < 0.4:
            add("F", MAGIC + rng.randbytes(rng.choice([0, 1, 2, 5, 9, 20, 60, 300])), "random-after-magic")
        elif r < 0.8:
            fhd = rng.choice([0x00, 0x20, 0x24, 0x04, 0x60, 0xA0, 0xE0, 0x21, 0x23, 0x40, 0x08])
            hdr = bytes([fhd]) + rng.randbytes(rng.choice([1, 2, 3, 5, 9]))
            body = b""
            for _ in range(rng.choice([1, 1, 2, 3])):
                bs = rng.choice([0, 1, 2, 3, 10, 30, 100, 1000, 131072, 131073, 2097151])
                bt = rng.choice([0, 1, 2, 2, 2, 3])
                last = rng.choice([0, 1])
                hv = last | (bt << 1) | (bs << 3)
                body += bytes([hv & 255, (hv >> 8) & 255, hv >> 16]) + rng.randbytes(min(bs, rng.choice([0, 1, 3, 10, 40, 120])))
            add("F", MAGIC + hdr + body, "random-structured")
        elif r < 0.9:
            add("F", bytes([0x50 + rng.randrange(16)]) + SKIPMAGIC[1:] + rng.choice([bytes([0, 0, 0, 0]), bytes([3, 0, 0, 0]), bytes([0xff, 0xff, 0xff, 0xff]), bytes([0xf8, 0xff, 0xff, 0xff]), rng.randbytes(4), rng.randbytes(2)]) + rng.randbytes(rng.choice([0, 3, 8])), "random-skippable")
        else:
            add("F", rng.randbytes(rng.choice([0, 1, 3, 4, 5, 8, 18, 40])), "random-raw")
    # magicless format
    for fr, st, d, x in valid[:(6 if quick else 40)]:
        if fr[:4] == MAGIC and d is None:
            add("F", fr[4:], "valid-magicless", flags="ml", cap=len(x) + 8, base=x)
            m, tag = mutate(rng, fr, st, others)
            add("F", m[4:], "mut-magicless:" + tag, flags="ml")
    # block-level API on bare block bodies (valid ones and mutations)
    for fr, st, d, x in valid[:(25 if quick else 150)]:
        if not st or d is not None:
            continue
        for bo, bt, co, cl in st["blocks"][:3]:
            if bt == 2:
                body = fr[co:co + cl]
                add("B", body, "block-valid", cap=131072 + 64)
                mb = bytearray(body)
                if mb:
                    for _ in range(rng.choice([1, 2])):
                        i = rng.randrange(min(len(mb), 48)) if rng.random() < 0.7 else rng.randrange(len(mb))
                        mb[i] = mut_byte(rng, mb[i])
                add("B", bytes(mb), "block-mut", cap=rng.choice([131072 + 64, 1000, 10]))
    # (4) dictionaries: arbitrary bytes, valid header with hostile tables
    gd, gf = gdict["dict"], gdict["frame"]
    nd = 140 if quick else 1500
    for i in range(nd):
        r = rng.random()
        if r < 0.15:
            dct, tag = rng.randbytes(rng.choice([0, 1, 7, 8, 9, 40, 300])), "dict-random"
        elif r < 0.3:
            dct, tag = bytes.fromhex("37a430ec") + rng.randbytes(rng.choice([0, 3, 4, 5, 30, 200])), "dict-magic-random"
        else:
            b = bytearray(gd)
            ent_end = max(9, len(gd) - len(gdict["content"]) - 12)
            for _ in range(rng.choice([1, 1, 2, 3])):
                j = rng.randrange(8, ent_end + 12) if rng.random() < 0.85 else rng.randrange(len(b))
                b[j] = mut_byte(rng, b[j])
            if rng.random() < 0.15:
                b = b[:rng.randrange(8, len(b))]
            dct, tag = bytes(b), "dict-hostile-tables"
        add("D", gf, tag, dict_=dct, cap=len(gdict["plain"]) + 64)
        if rng.random() < 0.35:
            add("F", gf, tag + "/frame-paths", dict_=dct, cap=len(gdict["plain"]) + 64)
    add("D", gf, "dict-valid", dict_=gd, cap=len(gdict["plain"]) + 64, base=gdict["plain"])
    # (5) legacy frames v0.5 - v0.7 (sanitizer only)
    leg = legacy_frames()
    ctx.notes["legacy_frames"] = len(leg)
    for fr in leg:
        add("L", fr, "legacy-valid", cap=4096)
        for i in range(60 if quick else 600):
            b = bytearray(fr)
            r = rng.random()
            if r < 0.15:
                b = b[:rng.randrange(len(b))]
            else:
                for _ in range(rng.choice([1, 1, 2, 4])):
                    j = rng.randrange(4, min(len(b), 40)) if rng.random() < 0.5 else rng.randrange(4, len(b))
                    b[j] = mut_byte(rng, b[j])
            add("L", bytes(b), "legacy-mut", cap=rng.choice([4096, 4096, 100, 0]))
    return cases


def case_line(c):
    return "%s %s %s %s %s %d %d" % (c["cmd"], c["id"], c["flags"], codec.hx(c["dict"]) if c["dict"] else "-",
                                     codec.hx(c["data"]), c["cap"], c["seed"])


def fields(rest):
    d = {}
    for t in rest.split(" "):
        if "=" in t:
            k, v = t.split("=", 1)
            d[k] = v
    return d


# --------------------------------------------------------------------------------------------------------------
# the watchdog tie

def expand_wd(wd):
    """'P0x3;E1x1;' -> [(cls, counter)] with long progress runs shortened"""
    out = []
    if wd in ("-", ""):
        return out
    for t in wd.split(";"):
        if not t:
            continue
        m = re.match(r"([A-Za-z])(-?\d+)x(\d+)$", t)
        cls, cnt, run = m.group(1), int(m.group(2)), int(m.group(3))
        out += [(cls, cnt)] * (min(run, 40) if cls in "PH" else run)
    return out


def check_watchdog(ctx, model_exe, items, npmax):
    """items: [(case, key, wd string)].  The extracted watchdog model must predict the counter after every call and the
    call at which the error is raised."""
    lines, exp = [], {}
    for c, key, wd in items:
        calls = expand_wd(wd)
        if not calls:
            continue
        obs, want, prev, bad = [], [], 0, None
        for cls, cnt in calls:
            if cls in "HL":
                if cnt != prev:
                    bad = "counter changed from %d to %d on a call that returns before the accounting code (%s)" % (prev, cnt, cls)
                continue
            if cls == "x":
                break
            if cls in "fe":
                obs.append("F" if cls == "f" else "E")
                want.append("ERRF" if cls == "f" else "ERRE")
                break
            obs.append(cls)
            want.append(str(cnt))
            prev = cnt
        mid = "%s.%s" % (c["id"], key)
        if bad:
            ctx.violation(replay_of(c, what=bad), what="no-forward-progress counter: " + bad)
        if obs:
            lines.append("N %s check %s" % (mid, "".join(obs)))
            exp[mid] = (c, want, wd)
    res = run_model(model_exe, lines) if lines else []
    n = 0
    for l in res:
        t = l.split(" ")
        mid, got = t[1], [x for x in t[2].split(",") if x]
        c, want, wd = exp[mid]
        n += 1
        if got[:len(want)] != want:
            ctx.violation(replay_of(c, what="watchdog", model=got[:40], observed=want[:40], trace=wd[:400]),
                          what="ZSTD_decompressStream no-forward-progress accounting differs from the model (limit %d): observed %s, model %s"
                               % (npmax, ",".join(want[-20:]), ",".join(got[-20:])))
        stalled = 0
        for w in want:
            if w not in ("0", "ERRF", "ERRE"):
                stalled += 1
        sig = ("wd", tuple(sorted(set(re.sub(r"\d+x\d+", "", t) for t in wd.split(";") if t))))
        ctx.count(sig, nontrivial=stalled > 0)
    ctx.cov["traces_validated_against_impl"] += n
    return n


def replay_of(c, **kw):
    d = dict(kind="fuzz", line=case_line(c)[:1200000], origin=c["origin"])
    d.update(kw)
    return d


# --------------------------------------------------------------------------------------------------------------
# evaluation of the fuzz results

def evaluate(ctx, cd, model_exe, cases, out, crashes, npmax, variant):
    byid = {c["id"]: c for c in cases}
    for line, rc, err in crashes:
        cid = line.split(" ")[1] if " " in line else "?"
        c = byid.get(cid)
        summ = " ".join(re.findall(r"(ERROR: AddressSanitizer[^\n]*|SUMMARY:[^\n]*|runtime error:[^\n]*)", err)[:3]) or err[-300:]
        ctx.violation(dict(kind="fuzz", line=line[:1200000], origin=c["origin"] if c else "?", rc=rc, variant=variant, report=err[-2500:]),
                      what="decoder harness (%s build) died on a %s input (rc=%d): %s" % (variant, c["origin"] if c else "?", rc, summ[:400]))
    # reference decoder on every frame-level case
    fcases = [c for c in cases if c["cmd"] == "F" and c["id"] in out]
    rin = []
    for c in fcases:
        fl = "nostrict" + (",magicless" if "ml" in c["flags"] else "")
        rin.append((c["id"], fl, c["dict"], c["data"]))
    t0 = time.time()
    mres = cd.model(rin) if variant == "asan" else {}
    core.log("R on %d frame-level cases: %.1fs" % (len(rin), time.time() - t0))
    hist, perm, wd_items = {}, {}, []
    stricter, sites, stricter_ex, okmut = 0, {}, {}, 0
    for c in cases:
        if c["id"] not in out:
            continue
        fd = fields(out[c["id"]])
        fl = fd.get("flags", "-")
        if fl != "-":
            ctx.violation(replay_of(c, flags=fl, result=out[c["id"]][:600], variant=variant),
                          what="decoder oracle failed on a %s input (%s build): %s" % (c["origin"], variant, fl))
        o = c["origin"].split(":")[0]
        hist[o] = hist.get(o, 0) + 1
        if c["cmd"] != "F":
            one = fd.get("one", fd.get("blk", ""))
            ctx.count((c["cmd"], c["origin"].split("/")[0], one[:2], fd.get("ddict", "")[:8], fd.get("c3", "")[:4]), nontrivial=True)
            if c["cmd"] == "D" and c.get("base") is not None and not one.startswith("OK:" + c["base"].hex()):
                ctx.violation(replay_of(c, result=out[c["id"]][:300]), what="a valid dictionary + its frame no longer decode")
            continue
        one = fd.get("one", "")
        for k in ("strm", "strm1"):
            if variant == "asan":
                wd_items.append((c, k, fd.get("wd" if k == "strm" else "wd1", "-")))
        m = mres.get(c["id"])
        if c.get("base") is not None:
            if one != "OK:" + (c["base"].hex() if c["base"] else "-"):
                ctx.violation(replay_of(c, result=one[:200], variant=variant), what="a valid frame is not decoded to its content by ZSTD_decompress (%s build): %s" % (variant, one[:80]))
            if m is not None and (m[0] != "OK" or m[1] != c["base"]):
                ctx.violation(replay_of(c, model=str(m[:1]) + str(m[2:3])), what="reference decoder R does not decode a valid frame: %r" % (m[0:1] + m[2:3],))
        if m is None:
            continue
        if one.startswith("OK:"):
            got = codec.unhx(one[3:])
            if c["origin"].startswith(("mut", "rand", "trunc")):
                okmut += 1
            if m[0] == "OK":
                if m[1] != got:
                    ctx.violation(replay_of(c, libzstd=one[:400], model=m[1].hex()[:400]),
                                  what="libzstd returns success with bytes that differ from the reference decoder's on a %s input" % c["origin"])
                sig = ("ok", codec.trace_signature(codec.parse_trace(m[2])), o)
                ctx.count(sig, nontrivial=len(got) > 0)
                bm = re.search(r"bound:(\d+)", fd.get("insp", ""))
                if bm and int(bm.group(1)) < len(got) and "ml" not in c["flags"]:
                    ctx.violation(replay_of(c, bound=bm.group(1), decoded=len(got)),
                                  what="ZSTD_decompressBound (%s) is smaller than the decoded size (%d) of a frame the reference decoder accepts" % (bm.group(1), len(got)))
            else:
                site = m[2]
                if site in PERMISSIVE and m[1] in ("safety", "format"):
                    perm[PERMISSIVE[site][:2]] = perm.get(PERMISSIVE[site][:2], 0) + 1
                    ctx.count(("permissive", site, o), nontrivial=True)
                else:
                    ctx.violation(replay_of(c, libzstd=one[:300], model="ERR %s %s" % (m[1], m[2])),
                                  what="libzstd accepts (ZSTD_decompress returns %d bytes) a %s input that the reference decoder rejects as %s at site %s - not one of the documented permissive cases"
                                       % (len(got), c["origin"], m[1], m[2]), key="accept-%s-%s" % (m[1], m[2]))
        else:
            if m[0] == "OK":
                stricter += 1
                k = one[2:40] + ("/cap<n" if len(m[1]) > c["cap"] else "")
                stricter_ex[k] = stricter_ex.get(k, 0) + 1
                ctx.count(("libzstd-stricter", one[:30], o), nontrivial=True)
            else:
                sites["%s/%s" % (m[1], m[2])] = sites.get("%s/%s" % (m[1], m[2]), 0) + 1
                ctx.count(("rej", m[1], m[2], one[2:22], o), nontrivial=True)
        if len(c["data"]) <= 40 and c["origin"].startswith(("mut", "witness")):
            ctx.sample(dict(origin=c["origin"], data_hex=c["data"].hex(), libzstd=one[:60], R=(m[0], m[1] if m[0] == "ERR" else len(m[1]), m[2] if m[0] == "ERR" else "")))
        ctx.cov["traces_validated_against_impl"] += 1
    if variant == "asan":
        check_watchdog(ctx, model_exe, wd_items, npmax)
        ctx.notes["origins"] = hist
        ctx.notes["permissive_cases"] = perm
        ctx.notes["R_accepts_libzstd_rejects"] = stricter
        ctx.notes["R_accepts_libzstd_rejects_by_error"] = stricter_ex
        ctx.notes["R_reject_sites"] = dict(sorted(sites.items(), key=lambda kv: -kv[1]))
        ctx.notes["libzstd_success_on_mutated_or_random"] = okmut


# --------------------------------------------------------------------------------------------------------------
# hash set tie

COLLIDE64 = [3, 47, 118, 150, 169, 295]     # XXH64(id) & 63 == 63 ; [47,118,150,169,295,453,535,596] also & 127 == 127
COLLIDE128 = [47, 118, 150, 169, 295, 453, 535, 596]


def hashset_cases(ctx, rng):
    ops = []
    ops.append(("hs-last-slot", "a3:0,a47:1,g3,g47,g5"))
    ops.append(("hs-last-slot-many", ",".join("a%d:%d" % (d, i) for i, d in enumerate(COLLIDE64)) + "," + ",".join("g%d" % d for d in COLLIDE64)))
    ops.append(("hs-grow-last-slot", ",".join("a%d:%d" % (d, i) for i, d in enumerate(list(range(1000, 1017)) + COLLIDE128)) + "," + ",".join("g%d" % d for d in COLLIDE128 + [1000, 1016, 9])))
    ops.append(("hs-id0", "a0:7,a26:1,g26,g0,g21"))
    ops.append(("hs-replace", "a5:0,a5:1,a5:2,g5"))
    n = 60 if ctx.quick else 600
    for i in range(n):
        pool = rng.choice([COLLIDE64, COLLIDE128, list(range(1, 40)), [rng.randrange(1, 1 << 32) for _ in range(300)], COLLIDE64 + [0, 21, 26] + list(range(1, 30))])
        k = rng.choice([1, 2, 5, 15, 16, 17, 31, 33, 64, 65, 130, 260] if not ctx.quick else [1, 2, 5, 15, 16, 17, 33, 65, 130])
        seq = []
        for j in range(k):
            d = rng.choice(pool) if rng.random() < 0.8 else rng.randrange(1, 1 << 32)
            seq.append("a%d:%d" % (d, j))
            if rng.random() < 0.2:
                seq.append("g%d" % rng.choice(pool))
        seq += ["g%d" % rng.choice(pool) for _ in range(6)]
        ops.append(("hs-rand%d" % i, ",".join(seq)))
    return ops


def hashset_tie(ctx, model_exe):
    exe = core.build_harness("c03_ddict", ["c03_ddict.c"], variant="asan", extra_flags=["-w"])
    rng = random.Random(ctx.seed * 7919 + 3)
    ops = hashset_cases(ctx, rng)
    cout, crashes = run_lines(exe, ["H %s %s" % (i, o) for i, o in ops], nproc=8, out_id_index=1)
    mout = {l.split(" ")[1]: l for l in run_model(model_exe, ["H %s fixed %s" % (i, o) for i, o in ops])}
    for line, rc, err in crashes:
        summ = " ".join(re.findall(r"(ERROR: AddressSanitizer[^\n]*|SUMMARY:[^\n]*)", err)[:2]) or err[-300:]
        ctx.violation(dict(kind="hashset", line=line, rc=rc, report=err[-2500:]),
                      what="multi-DDict hash set: sanitizer trap / crash on insertion sequence %s: %s" % (line[:120], summ[:300]))
    for i, o in ops:
        c = cout.get(i)
        if c is None:
            continue
        c = "H %s %s" % (i, c.split(" sel=")[0])
        m = mout.get(i, "missing")
        nadd = o.count("a")
        ctx.count(("hs", m.split(" ")[2], re.search(r"size=(\d+)", m).group(1) if "size=" in m else "-", min(nadd, 20)), nontrivial=nadd >= 2)
        ctx.cov["traces_validated_against_impl"] += 1
        if c != m:
            ctx.violation(dict(kind="hashset", line="H %s %s" % (i, o), impl=c[:1500], model=m[:1500]),
                          what="multi-DDict hash set: table / lookups of the real code differ from the model after %d insertions (%s)" % (nadd, i))
    # the model-side refutation of the pre-fix probing, replayed on the model (documentation of what the mutation does)
    pre = run_model(model_exe, ["H pre prefix a3:0,a47:1"])
    ctx.notes["prefix_probing_model"] = pre[0] if pre else "?"
    # insertion sequences on which the MODEL of the current code leaves the table / does not terminate (used by SEARCH
    # when a hash-set theorem no longer checks, e.g. after a change of the regenerated constants)
    ctx.hs_model_bad = [("H %s %s" % (i, o), mout.get(i, "")) for i, o in ops if " OK " not in mout.get(i, " OK ")]
    return ops


# --------------------------------------------------------------------------------------------------------------

def get_witnesses(ctx, model_exe):
    ws = []
    for l in run_model(model_exe, ["W"]):
        t = l.split(" ")
        if t[0] != "W":
            continue
        name, cls, site, hx = t[1], t[2], int(t[3]), t[4]
        r = t[5].split("=")[1]
        if r != "%s/%d" % (cls, site):
            ctx.violation(dict(kind="witness", name=name), what="extracted R does not reject witness %s at its site: %s" % (name, r), no_input=True)
        ws.append((name, cls, site, codec.unhx(hx)))
    return ws


def get_gdict(exe):
    p = subprocess.run([exe], input=b"G g 20250\n", stdout=subprocess.PIPE, stderr=subprocess.PIPE, timeout=120)
    fd = fields(p.stdout.decode().strip().split(" ", 1)[1])
    d = codec.unhx(fd["dict"])
    content = d[-600:]
    return dict(dict=d, frame=codec.unhx(fd["frame"]), plain=codec.unhx(fd["plain"]), content=content)


def run(ctx):
    ctx.cov["rule"] = (
        "inputs = (a) the Coq necessity witnesses (one byte string per bound check of R, exported by extraction), (b) frames emitted by the real "
        "compressor (input kind x size x random parameter vector, one-shot and streaming-with-flushes, with/without dictionary) under structure-aware "
        "mutation: bytes of frame header / block headers / literals header / Huffman description + jump table / last literal bytes / nbSeq + modes / "
        "FSE descriptions / last bitstream bytes / checksum, truncation (every byte for small frames), extension, block splicing between frames, "
        "(c) random bytes behind a valid magic, random structured headers, skippable frames, (d) dictionaries: random bytes, valid header with "
        "mutated entropy tables, on the DDict/DCtx and CDict sides, (e) legacy v0.5-v0.7 frames from tests/legacy.c mutated (sanitizer only), "
        "(f) multi-DDict insertion sequences with dictIDs colliding in the last slot, dictID 0, replacement, growth; every input goes through "
        "one-shot, DCtx, DDict, multi-DDict, streaming under two segmentations (incl. byte-by-byte), buffer-less, block-level, and the inspectors in "
        "an ASan+UBSan build; distinct = (R's verdict: trace signature or (class, site)) x libzstd verdict x origin, watchdog trace shapes, hash-set "
        "shapes; non-trivial = not an empty success")
    ctx.prove()
    npmax = gen_const("NO_FORWARD_PROGRESS_MAX")
    model_exe = core.build_extracted("c03model", "Extract/Extract_C03.v", "c03_driver.ml")
    defs = ["-DZSTD_NO_FORWARD_PROGRESS_MAX_FOR_HARNESS=%d" % npmax]
    exe = core.build_harness("c03_fuzz", ["c03_fuzz.c"], variant="asan", extra_flags=defs)
    cd = codec.Codec(ctx, variant="o1")

    if ctx.replay_file:
        rp = json.load(open(ctx.replay_file))["replay"]
        if rp.get("kind") == "hashset":
            dd = core.build_harness("c03_ddict", ["c03_ddict.c"], variant="asan", extra_flags=["-w"])
            cout, crashes = run_lines(dd, [rp["line"]], nproc=1, out_id_index=1)
            t = rp["line"].split(" ")
            mout = run_model(model_exe, ["H %s fixed %s" % (t[1], t[2])])
            core.log("impl :", cout, crashes)
            core.log("model:", mout)
            i = rp["line"].split(" ")[1]
            if crashes or "H %s %s" % (i, cout.get(i, "").split(" sel=")[0]) != (mout[0] if mout else ""):
                ctx.violation(rp, what="replay: multi-DDict hash set still differs from the model / traps")
        else:
            line = rp["line"]
            t = line.split(" ")
            c = dict(id=t[1], cmd=t[0], flags=t[2], dict=codec.unhx(t[3]) if t[3] != "-" else None, data=codec.unhx(t[4]),
                     cap=int(t[5]), seed=int(t[6]), origin=rp.get("origin", "replay"), base=None)
            out, crashes = run_lines(exe, [line], nproc=1)
            core.log("impl :", {k: v[:300] for k, v in out.items()}, [x[1:] for x in crashes])
            evaluate(ctx, cd, model_exe, [c], out, crashes, npmax, "asan")
        ctx.count(("replay",), nontrivial=True)
        ctx.proof_verdict(None)
        return

    witnesses = get_witnesses(ctx, model_exe)
    ctx.notes["witnesses"] = len(witnesses)
    t0 = time.time()
    ops = hashset_tie(ctx, model_exe)
    core.log("hash set tie: %d sequences in %.1fs" % (len(ops), time.time() - t0))

    rng = random.Random(ctx.seed)
    gdict = get_gdict(exe)
    cases = make_cases(ctx, rng, cd, witnesses, gdict)
    t0 = time.time()
    out, crashes = run_lines(exe, [case_line(c) for c in cases])
    core.log("asan harness: %d cases in %.1fs (%d crashes)" % (len(cases), time.time() - t0, len(crashes)))
    evaluate(ctx, cd, model_exe, cases, out, crashes, npmax, "asan")
    ctx.notes["cases"] = len(cases)

    # the witnesses must be rejected by every decoding path of the real code, except the documented one-shot cases
    for c in cases:
        if c["origin"].startswith("witness:") and c["id"] in out and c["cap"] == 4096:
            fd = fields(out[c["id"]])
            site = [w[2] for w in witnesses if "witness:" + w[0] == c["origin"]][0]
            acc = [k for k in ("one", "dctx", "strm", "strm1", "cont") if fd.get(k, "").startswith("OK")]
            allowed = ("one", "dctx", "strm1", "cont") if site in PERMISSIVE else ()
            bad = [k for k in acc if k not in allowed]
            if bad:
                ctx.violation(replay_of(c, accepted_by=bad, result=out[c["id"]][:400]),
                              what="necessity witness %s (R rejects it at site %d) is accepted by libzstd path(s) %s" % (c["origin"][8:], site, ",".join(bad)))
            if site in PERMISSIVE and fd.get("strm", "").startswith("OK"):
                ctx.violation(replay_of(c, result=out[c["id"]][:400]),
                              what="witness %s: the buffered streaming decoder no longer enforces Block_Maximum_Size" % c["origin"][8:])

    if not ctx.quick:
        # other decoder build variants: same inputs, same oracles except the sanitizer; outputs must equal the asan build's
        for variant in ("noasm", "x1", "x2"):
            vexe = core.build_harness("c03_fuzz", ["c03_fuzz.c"], variant=variant, extra_flags=defs)
            sub = [c for c in cases if c["cmd"] in ("F", "B")]
            vout, vcr = run_lines(vexe, [case_line(c) for c in sub])
            evaluate(ctx, cd, model_exe, sub, vout, vcr, npmax, variant)
            for c in sub:
                a, b = out.get(c["id"]), vout.get(c["id"])
                if a is None or b is None:
                    continue
                fa, fb = fields(a), fields(b)
                ka = fa.get("one", fa.get("blk"))
                kb = fb.get("one", fb.get("blk"))
                if ka != kb:
                    ctx.violation(replay_of(c, asan=ka[:200], other=kb[:200], variant=variant),
                                  what="decoder build variant %s gives a different result than the default build on a %s input" % (variant, c["origin"]))

    def search(broken):
        # a hash-set theorem that no longer checks: the model (which follows the regenerated constants) names the
        # insertion sequences that leave the table; they are replayable on the real code under ASan
        found = []
        for line, res in getattr(ctx, "hs_model_bad", [])[:3]:
            found.append((dict(kind="hashset", line=line, model=res[:300]),
                          "multi-DDict hash set: the model of the current code leaves the table on %s: %s" % (line[:80], res[:80])))
        return found
    ctx.proof_verdict(search)
