"""C03 - decoding untrusted bytes is memory-safe, bounded and terminating (PARTIAL, see docs/C03.md).

Decided by: Coq theorems (coq/Props/Properties_C03.v) on the Gallina reference decoder R (fuel never decides a
result, output bounded by what the stream declares, every copy of an accepted sequence stays inside the history,
necessity witnesses for every bound check), on a model of the multi-DDict hash set and on a model of the
no-forward-progress watchdog; tied to the current sources by regenerated constants (coq/Gen/Gen_C03.v,
Gen_Tables.v) and by differential runs of the extracted models against the real code.
Supporting tests (labelled as such): the whole decoder surface run under ASan+UBSan on witnesses, structure-aware
mutations of real frames, truncations, random bytes, hostile dictionaries and legacy frames; agreement
"libzstd success => R success with the same bytes"."""
import glob
import hashlib
import json
import os
import random
import re
import subprocess
import time
from concurrent.futures import ThreadPoolExecutor

from .. import codec, core

MAGIC = bytes.fromhex("28b52ffd")
SKIPMAGIC = bytes.fromhex("502a4d18")

# R sites at which libzstd's ONE-SHOT path is documented to be more permissive than the format (see docs/C03.md)
PERMISSIVE = {
    # (P1 - the one-shot decoder bounded what a block regenerates by the capacity only, sites 342 / 361 / 422 / 424 - is gone since fix 4bb0500:
    #  ZSTD_decompressFrame applies Block_Maximum_Size like the streaming and buffer-less paths; an acceptance there is a disagreement again)
    213: "P2 Huffman weight 12: libzstd accepts table log 12 (HUF_TABLELOG_MAX), the format text says 11",
    216: "P2 Huffman table log 12: libzstd accepts table log 12 (HUF_TABLELOG_MAX), the format text says 11",
    220: "P3 Huffman literal stream without end mark: the 4-stream fast decoder (HUF_initFastDStream) tolerates a zero last byte",
    221: "P3 Huffman literal stream exhausted early: the 4-stream fast decoder does not verify exact consumption",
    222: "P3 Huffman literal stream not consumed exactly: the 4-stream fast decoder does not verify exact consumption",
    106: "P4 FSE table description running past the end of its buffer: FSE_readNCount wraps its bit counter (bitCount &= 31) inside the last 4 bytes "
         "instead of failing, and decodes stale bits (reads stay inside the buffer)",
}


# --------------------------------------------------------------------------------------------------------------
# running things

def gen_const(name):
    txt = open(os.path.join(core.COQ, "Gen", "Gen_C03.v")).read()
    m = re.search(r"Definition %s : N := (\d+)%%N" % name, txt)
    return int(m.group(1))


def run_lines(exe, lines, nproc=core.NCPU, timeout=900, out_id_index=0):
    """Run an in-process line harness over `lines` in parallel chunks.  A chunk whose process dies (sanitizer trap,
    signal) is resumed after the culprit.  Returns ({id: rest}, [(culprit_line, rc, stderr_tail)])."""
    if not lines:
        return {}, []
    nproc = max(1, min(nproc, (len(lines) + 7) // 8))
    chunks = [lines[i::nproc] for i in range(nproc)]

    def one(ch):
        out, crashes = {}, []
        todo = list(ch)
        while todo:
            try:
                p = subprocess.run([exe], input=("\n".join(todo) + "\n").encode(), stdout=subprocess.PIPE,
                                   stderr=subprocess.PIPE, timeout=timeout)
                rc, so, se = p.returncode, p.stdout, p.stderr
            except subprocess.TimeoutExpired as e:
                rc, so, se = 124, e.stdout or b"", e.stderr or b""
            done = 0
            text = so.decode("utf-8", "replace")
            parts = text.split("\n")
            if not text.endswith("\n"):
                parts = parts[:-1]          # a line cut short by the trap (flushed because it outgrew the stdio buffer) is not an answer: its case is the culprit
            for l in parts:
                if not l or " " not in l:
                    continue
                if out_id_index:
                    tt = l.split(" ", 2)
                    if len(tt) == 3:
                        out[tt[1]] = tt[2]
                    continue
                i = l.find(" ")
                out[l[:i]] = l[i + 1:]
            ids = [t.split(" ")[1] for t in todo]
            while done < len(ids) and ids[done] in out:
                done += 1
            if rc == 0 and done == len(ids):
                break
            if done >= len(todo):
                crashes.append(("(after the last case)", rc, se.decode("utf-8", "replace")[-3000:]))
                break
            crashes.append((todo[done], rc, se.decode("utf-8", "replace")[-3000:]))
            todo = todo[done + 1:]
        return out, crashes
    with ThreadPoolExecutor(nproc) as ex:
        res = list(ex.map(one, chunks))
    out, crashes = {}, []
    for o, c in res:
        out.update(o)
        crashes += c
    return out, crashes


def run_model(exe, lines, timeout=600):
    p = subprocess.run([exe], input=("\n".join(lines) + "\n").encode(), stdout=subprocess.PIPE, stderr=subprocess.PIPE, timeout=timeout)
    if p.returncode != 0:
        raise RuntimeError("extracted C03 model failed: rc=%d %s" % (p.returncode, p.stderr.decode()[-500:]))
    return [l for l in p.stdout.decode().split("\n") if l]


# --------------------------------------------------------------------------------------------------------------
# frame structure (of VALID frames, for structure-aware mutation)

def parse_structure(f):
    """-> dict(hs=header size, regions=[(name, start, end)], blocks=[(hdr_off, type, content_off, content_len)], cksum) or None"""
    try:
        if f[:4] != MAGIC:
            return None
        fhd = f[4]
        single = (fhd >> 5) & 1
        did = fhd & 3
        fcsf = fhd >> 6
        p = 5 + (0 if single else 1) + [0, 1, 2, 4][did] + ([1, 2, 4, 8][fcsf] if (fcsf or single) else 0)
        regions = [("fhdr", 4, p)]
        blocks = []
        huf4 = []
        while True:
            hv = f[p] | (f[p + 1] << 8) | (f[p + 2] << 16)
            last, bt, bs = hv & 1, (hv >> 1) & 3, hv >> 3
            clen = 1 if bt == 1 else bs
            regions.append(("bhdr", p, p + 3))
            c = p + 3
            blocks.append((p, bt, c, clen))
            if bt == 2 and clen >= 2:
                b0 = f[c]
                lt, sf = b0 & 3, (b0 >> 2) & 3
                if lt < 2:
                    hsz = 1 if sf in (0, 2) else (2 if sf == 1 else 3)
                    hv2 = int.from_bytes(f[c:c + hsz], "little")
                    n = hv2 >> 3 if sf in (0, 2) else hv2 >> 4
                    lsec = hsz + (n if lt == 0 else 1)
                else:
                    hsz = 3 if sf < 2 else (4 if sf == 2 else 5)
                    nb = 10 if sf < 2 else (14 if sf == 2 else 18)
                    hv2 = int.from_bytes(f[c:c + hsz], "little")
                    csz = (hv2 >> (4 + nb)) & ((1 << nb) - 1)
                    lsec = hsz + csz
                    if sf != 0:      # 4 streams: where the jump table is, and how many bytes the four streams share
                        hb = f[c + hsz]
                        tsz = 0 if lt == 3 else ((1 + hb) if hb < 128 else (1 + ((hb - 127) + 1) // 2))
                        if csz - tsz - 6 >= 4:
                            huf4.append((c + hsz + tsz, csz - tsz - 6))
                    regions.append(("huf", c + hsz, min(c + hsz + 40, c + lsec)))
                    regions.append(("litend", max(c + hsz, c + lsec - 2), c + lsec))
                regions.append(("lhdr", c, c + hsz))
                s = c + lsec
                if s < c + clen:
                    regions.append(("seqh", s, min(s + 4, c + clen)))
                    regions.append(("fse", min(s + 2, c + clen), min(s + 40, c + clen)))
                regions.append(("bsend", max(c, c + clen - 3), c + clen))
            p = c + clen
            if last:
                break
        ck = None
        if (fhd >> 2) & 1:
            regions.append(("cksum", p, p + 4))
            ck = p
            p += 4
        return dict(hs=regions[0][2], regions=[r for r in regions if r[2] > r[1]], blocks=blocks, end=p, cksum=ck, huf4=huf4)
    except IndexError:
        return None


def mut_byte(rng, b):
    k = rng.randrange(7)
    if k == 0:
        return b ^ (1 << rng.randrange(8))
    if k == 1:
        return 0
    if k == 2:
        return 0xFF
    if k == 3:
        return (b + 1) & 255
    if k == 4:
        return (b - 1) & 255
    if k == 5:
        return b ^ 0x80
    return rng.randrange(256)


def mutate(rng, f, st, others):
    """one structure-aware mutation of the valid frame f; returns (bytes, tag)"""
    f = bytearray(f)
    names = sorted(set(r[0] for r in st["regions"])) if st else []
    k = rng.random()
    if st and st.get("huf4") and rng.random() < 0.12:
        # re-cut the four Huffman streams (jump table), total unchanged: one stream gets nearly everything, the others run dry,
        # so a stream's read position crosses into its neighbours or below the start of the section
        jo, T = rng.choice(st["huf4"])
        if jo + 6 <= len(f):
            pat = rng.choice(["0big", "1big", "3big", "tiny", "rand"])
            if pat == "0big":
                a, b, c_ = T - 3, 1, 1
            elif pat == "1big":
                a, b, c_ = 1, T - 3, 1
            elif pat == "3big":
                a, b, c_ = 1, 1, 1
            elif pat == "tiny":
                a, b, c_ = max(1, T - 40), rng.randint(1, 12), rng.randint(1, 12)
            else:
                cuts = sorted(rng.sample(range(1, max(4, T)), 3)) if T > 4 else [1, 2, 3]
                a, b, c_ = cuts[0], cuts[1] - cuts[0], cuts[2] - cuts[1]
            if min(a, b, c_) >= 1 and max(a, b, c_) < 65536:
                f[jo:jo + 6] = a.to_bytes(2, "little") + b.to_bytes(2, "little") + c_.to_bytes(2, "little")
                return bytes(f), "hufjump:" + pat
    if st and k < 0.72:
        name = rng.choice(names)
        reg = rng.choice([r for r in st["regions"] if r[0] == name])
        for _ in range(rng.choice([1, 1, 1, 2, 3])):
            i = rng.randrange(reg[1], reg[2])
            if i < len(f):
                f[i] = mut_byte(rng, f[i])
        return bytes(f), name
    if k < 0.80:
        return bytes(f[:rng.randrange(len(f))]), "trunc"
    if k < 0.84:
        return bytes(f) + rng.randbytes(rng.choice([1, 3, 8, 30])), "extend"
    if st and others and k < 0.92:
        # splice: replace the content of one block with the content of a block of another frame (header size patched)
        g, gst = rng.choice(others)
        if gst and gst["blocks"] and st["blocks"]:
            bo, bt, co, cl = rng.choice(st["blocks"])
            go, gbt, gco, gcl = rng.choice(gst["blocks"])
            hv = f[bo] | (f[bo + 1] << 8) | (f[bo + 2] << 16)
            newsize = gcl if gbt != 1 else ((g[go] | (g[go + 1] << 8) | (g[go + 2] << 16)) >> 3)
            hv = (hv & 1) | (gbt << 1) | ((newsize & 0x1FFFFF) << 3)
            out = bytes(f[:bo]) + bytes([hv & 255, (hv >> 8) & 255, (hv >> 16) & 255]) + bytes(g[gco:gco + gcl]) + bytes(f[co + cl:])
            return out, "splice"
    for _ in range(rng.choice([1, 2, 4])):
        i = rng.randrange(len(f))
        f[i] = mut_byte(rng, f[i])
    return bytes(f), "anybyte"


def legacy_frames(versions=(0x25, 0x26, 0x27)):
    """valid legacy frames embedded in tests/legacy.c (default: v0.5/v0.6/v0.7; 0x24 = the v0.4 frame)"""
    try:
        src = open(os.path.join(core.REPO, "tests", "legacy.c")).read()
        i = src.index("const char* const COMPRESSED =")
        lit = src[i:src.index(";", i)]
        b = bytearray()
        for p in re.findall(r'"((?:[^"\\]|\\.)*)"', lit):
            k = 0
            while k < len(p):
                if p[k] == "\\" and p[k + 1] == "x":
                    b.append(int(p[k + 2:k + 4], 16))
                    k += 4
                elif p[k] == "\\":
                    k += 2
                else:
                    b.append(ord(p[k]))
                    k += 1
        pos = [m.start() for m in re.finditer(rb"[\x24-\x28]\xb5\x2f\xfd", bytes(b))] + [len(b)]
        out = []
        for a, z in zip(pos, pos[1:]):
            if b[a] in versions:
                out.append(bytes(b[a:z]))
        return out
    except (OSError, ValueError):
        return []


# --------------------------------------------------------------------------------------------------------------
# case generation

def make_cases(ctx, rng, cd, witnesses, gdict):
    """-> list of dict(id, cmd, flags, dict, data, cap, seed, origin, base)"""
    quick = ctx.quick
    cases = []

    def add(cmd, data, origin, dict_=None, cap=None, flags="-", base=None):
        if cap is None:
            cap = min(max(4 * len(data) + 2048, 8192), 400000)
        cases.append(dict(id="k%d" % len(cases), cmd=cmd, flags=flags, dict=dict_, data=data, cap=cap,
                          seed=rng.randrange(1 << 30), origin=origin, base=base))

    # (2) the necessity witnesses first: the corpus
    for name, cls, site, b in witnesses:
        add("F", b, "witness:" + name, cap=4096)
        for cap in (7, 40, 140000, rng.choice([0, 1, 3, 12, 1024, 1030, 1031])):      # near-end-of-buffer code paths (execSequenceEnd, split literals)
            add("F", b, "witness:" + name, cap=cap)
    # (1) mostly valid: real frames + structure-aware mutations
    nvalid = 46 if quick else 260
    clines, meta = [], {}
    sizes = [0, 1, 5, 17, 64, 200, 300, 1000, 1025, 3000, 5000] + ([20000, 40000, 70000] if quick else [20000, 40000, 70000, 131073, 200000])
    for i in range(nvalid):
        kind = rng.choice(codec.KINDS)
        size = rng.choice(sizes[:11] if rng.random() < 0.8 else sizes)
        x = codec.gen_input(rng, kind, size)
        p = codec.gen_params(rng, size)
        p.pop("format", None)
        if rng.random() < 0.3:
            p["windowLog"] = rng.choice([10, 10, 11, 12])
        usedict = rng.random() < 0.2
        if rng.random() < 0.25:
            # streaming compression with flushes: several blocks, some raw / RLE
            ops = ";".join("%d:%d:%d" % (rng.choice([1, 50, 700, 5000]), 1 << 20, rng.choice([0, 1, 1, 0])) for _ in range(8)) + ";%d:%d:2" % (size, 1 << 20)
            clines.append("S v%d %s %s %s %s %s" % (i, codec.params_str(p), "load" if usedict else "-", codec.hx(gdict["dict"]) if usedict else "-", ops, codec.hx(x)))
        else:
            clines.append("C v%d compress2 %s %s %s %s" % (i, codec.params_str(p), "load" if usedict else "-", codec.hx(gdict["dict"]) if usedict else "-", codec.hx(x)))
        meta["v%d" % i] = (x, usedict, kind)
    # blocks whose literals section is larger than ZSTD_LITBUFFEREXTRASIZE (split literal buffer): skewed bytes without
    # matches worth taking, compressed with long minimum matches, one 128 KiB block or several smaller ones
    for j, size in enumerate([66000, 70000, 131072] if quick else [66000, 70000, 100000, 131072, 131073, 200000, 262144]):
        w = [1.0 / (1 + (k % 37)) for k in range(200)]
        x = bytes(rng.choices(range(200), weights=w, k=size))
        p = dict(level=1, minMatch=7, strategy=1, checksum=rng.randrange(2))
        if rng.random() < 0.4:
            p["windowLog"] = 17
        clines.append("C vb%d compress2 %s - - %s" % (j, codec.params_str(p), codec.hx(x)))
        meta["vb%d" % j] = (x, False, "biglit")
    # frames that make the streaming decoder's output ring buffer restart: small windows, content several times the
    # window, irregular block sizes (flushes), content size declared or not
    for j in range(6 if quick else 30):
        size = rng.choice([5000, 12000, 20000, 40000])
        x = codec.gen_input(rng, rng.choice(["text", "mixed", "selfcopy", "random", "lowent"]), size)
        p = dict(level=rng.choice([1, 3, 5]), windowLog=rng.choice([10, 10, 11, 12]), contentSize=rng.randrange(2), checksum=rng.randrange(2))
        if j % 2:
            ops = ";".join("%d:%d:%d" % (rng.choice([1, 100, 700, 1000, 1024, 3000]), 1 << 20, rng.choice([0, 1, 1])) for _ in range(14)) + ";%d:%d:2" % (size, 1 << 20)
            clines.append("S vr%d %s - - %s %s" % (j, codec.params_str(p), ops, codec.hx(x)))
        else:
            clines.append("C vr%d compress2 %s - - %s" % (j, codec.params_str(p), codec.hx(x)))
        meta["vr%d" % j] = (x, False, "ring")
    # ... and frames whose third block ends inside / next to the 2*WILDCOPY_OVERLENGTH wide band around the restart threshold
    # (window = block = 1 KiB, buffer 1024 + 2*1024 + 64: after blocks of 1024, 1024, k the next block no longer fits iff k > 64)
    for j, k in enumerate(rng.sample(range(65, 97), 3) + [64, 65, 96, 97, 128] if quick else list(range(56, 136))):
        size = 2048 + k + 3000
        x = codec.gen_input(rng, rng.choice(["text", "lowent", "random"]), size)
        p = dict(level=1, windowLog=10, contentSize=rng.randrange(2), checksum=rng.randrange(2))
        ops = "1024:1048576:1;1024:1048576:1;%d:1048576:1;1024:1048576:1;1000:1048576:1;%d:1048576:2" % (k, size)
        clines.append("S ve%d %s - - %s %s" % (j, codec.params_str(p), ops, codec.hx(x)))
        meta["ve%d" % j] = (x, False, "ring-edge")
    out, errs = cd.impl(clines)
    if errs:
        raise RuntimeError("zv_codec crashed while producing the valid frames: %r" % (errs[:1],))
    valid = []
    for vid, (x, usedict, kind) in meta.items():
        r = codec.parse_ok(out.get(vid, "ERR missing"))
        if r[0] != "OK":
            continue
        fr = r[1]
        valid.append((fr, parse_structure(fr), gdict["dict"] if usedict else None, x))
    valid.append((gdict["frame"], parse_structure(gdict["frame"]), gdict["dict"], gdict["plain"]))
    # a two-frame stream with a skippable frame in between
    nodict = [v for v in valid if v[2] is None]
    if len(nodict) >= 2:
        valid.append((nodict[0][0] + SKIPMAGIC + bytes([5, 0, 0, 0]) + b"hello" + nodict[1][0], None, None, nodict[0][3] + nodict[1][3]))
    ctx.notes["valid_frames"] = len(valid)
    ctx.c03_valid = valid
    others = [(fr, st) for fr, st, d, x in valid if st]
    for fr, st, d, x in valid:
        add("F", fr, "valid", dict_=d, cap=len(x) + rng.choice([0, 0, 1, 100]), base=x)
        if len(x) > 0 and rng.random() < 0.3:
            add("F", fr, "valid-smallcap", dict_=d, cap=rng.randrange(len(x)), base=None)
    nmut = 1700 if quick else 16000
    pool = [v for v in valid if len(v[0]) <= 6000] or valid
    mid = [v for v in valid if len(v[0]) <= 45000] or valid
    big = [v for v in valid if len(v[0]) > 45000]
    nbig = (30 if quick else 400) if big else 0        # the reference decoder costs seconds on a 128 KiB frame: few, but some
    for i in range(nmut):
        fr, st, d, x = rng.choice(big) if i < nbig else rng.choice(pool if rng.random() < 0.9 else mid)
        m, tag = mutate(rng, fr, st, others)
        if rng.random() < 0.15:
            m, tag2 = mutate(rng, m, st if len(m) == len(fr) else None, others) if m else (m, "none")
            tag += "+" + tag2
        add("F", m, "mut:" + tag, dict_=d)
    # truncations at every byte for small frames
    small = sorted([v for v in valid if len(v[0]) <= 120], key=lambda v: len(v[0]))[:(6 if quick else 30)]
    for fr, st, d, x in small:
        for k in range(len(fr)):
            add("F", fr[:k], "truncate-every-byte", dict_=d, cap=len(x) + 16)
    # the same with checksum verification switched off (ZSTD_d_forceIgnoreChecksum): the 4 checksum bytes still belong to the
    # frame and must be there; the last bytes of checksummed frames are cut one by one, and mutated frames are decoded that way too
    nck = 0
    for fr, st, d, x in sorted(valid, key=lambda v: len(v[0])):
        if fr[:4] != MAGIC or len(fr) < 12 or not (fr[4] >> 2) & 1 or len(fr) > 70000:
            continue
        nck += 1
        if nck > (14 if quick else 80):
            break
        add("F", fr, "valid-nock", dict_=d, cap=len(x) + rng.choice([0, 1, 100]), flags="nock", base=x)
        for k in range(1, 9):
            add("F", fr[:len(fr) - k], "truncate-nock", dict_=d, cap=len(x) + 16, flags="nock")
        for _ in range(3):
            m, tag = mutate(rng, fr, st, others)
            add("F", m, "mut-nock:" + tag, dict_=d, flags="nock")
    # hand-built 4-stream Huffman literals (table log 11, code lengths 1..11) whose streams consume their input at very different
    # rates: one long stream of the shortest code, three tiny streams of the longest codes (and the other way round) - a stream
    # runs dry after a few symbols and its read position walks down through its neighbours towards the start of the section
    for j in range(12 if quick else 60):
        N = rng.choice([20000, 40000, 80000, 120000])
        s0 = rng.choice([2000, 5000, 10000, 30000])
        tiny = [rng.choice([8, 8, 9, 16, 40, 2]) for _ in range(3)]         # the fast loops need 8 bytes per stream
        a, b = (0x00, 0xFF) if j % 2 == 0 else (0xFF, 0x00)
        order = 0 if j % 3 else rng.choice([1, 2, 3])          # which of the four streams is the long one (the loops' round count comes from stream 0)
        sizes = tiny[:order] + [s0] + tiny[order:]
        streams = []
        for k, sz in enumerate(sizes):
            fill = a if k == order else b
            body = bytes([fill]) * (sz - 1) + bytes([0x01 if fill == 0 else 0xFF])
            streams.append(body)
        tree = bytes([127 + 11, (11 << 4) | 10, (9 << 4) | 8, (7 << 4) | 6, (5 << 4) | 4, (3 << 4) | 2, (1 << 4) | 0])
        jump = b"".join(len(st_).to_bytes(2, "little") for st_ in streams[:3])
        payload = tree + jump + b"".join(streams)
        hv = 2 | (3 << 2) | (N << 4) | (len(payload) << 22)
        lit = hv.to_bytes(5, "little") + payload
        block = lit + b"\x00"
        bh = 1 | (2 << 1) | (len(block) << 3)
        add("F", MAGIC + bytes([0x00, 0x38]) + bh.to_bytes(3, "little") + block, "huf-overtake", cap=N + 64, flags="noasm" if j % 4 else "-")
    # ... and the phase trick: one periodic bit pattern (period 11: 00000111111) over the whole area decodes as ONE 11-bit symbol per
    # period from phase 0 and as FOUR symbols per period from phase 6 (table: 3 codes of 2 bits, one of 3, 4, 5 bits, 64 of 11 bits):
    # the long stream starts at phase 6 (slow), a tiny stream above it at phase 0 (fast), so the fast one keeps its speed all the
    # way down through its neighbour
    Pbits = [0, 0, 0, 0, 0, 1, 1, 1, 1, 1, 1]
    for j in range(6 if quick else 30):
        L1 = rng.choice([3000, 10000, 10000, 30000])
        N = rng.choice([40000, 120000, 120000])
        w = [10, 10, 10, 9, 8, 7] + [1] * 63 + [0]
        tree = bytes([127 + 69]) + bytes((w[i] << 4) | w[i + 1] for i in range(0, 70, 2))
        top = L1 - 1
        area = bytearray(L1 + 24)
        for a_ in range(L1 + 24):
            bb = 0
            for jb in range(7, -1, -1):
                g = (top - a_) * 8 + (7 - jb)
                bb |= Pbits[g % 11] << jb
            area[a_] = bb
        area[top + 8] = 0x3F if j % 2 == 0 else rng.choice([0x3F, 0x1F, 0x7F, 0x01])
        payload = tree + L1.to_bytes(2, "little") + (8).to_bytes(2, "little") + (8).to_bytes(2, "little") + bytes(area)
        hv = 2 | (3 << 2) | (N << 4) | (len(payload) << 22)
        block = hv.to_bytes(5, "little") + payload + b"\x00"
        bh = 1 | (2 << 1) | (len(block) << 3)
        add("F", MAGIC + bytes([0xA0]) + N.to_bytes(4, "little") + bh.to_bytes(3, "little") + block, "huf-overtake-phase", cap=N + 64,
            flags="noasm" if j % 3 != 2 else "-")
    # (3) random bytes behind a valid magic / semi-structured random frames
    for i in range(160 if quick else 1500):
        r = rng.random()
        if r < 0.4:
            add("F", MAGIC + rng.randbytes(rng.choice([0, 1, 2, 5, 9, 20, 60, 300])), "random-after-magic")
        elif r < 0.8:
            fhd = rng.choice([0x00, 0x20, 0x24, 0x04, 0x60, 0xA0, 0xE0, 0x21, 0x23, 0x40, 0x08])
            hdr = bytes([fhd]) + rng.randbytes(rng.choice([1, 2, 3, 5, 9]))
            body = b""
            for _ in range(rng.choice([1, 1, 2, 3])):
                bs = rng.choice([0, 1, 2, 3, 10, 30, 100, 1000, 131072, 131073, 2097151])
                bt = rng.choice([0, 1, 2, 2, 2, 3])
                last = rng.choice([0, 1])
                hv = last | (bt << 1) | (bs << 3)
                body += bytes([hv & 255, (hv >> 8) & 255, hv >> 16]) + rng.randbytes(min(bs, rng.choice([0, 1, 3, 10, 40, 120])))
            add("F", MAGIC + hdr + body, "random-structured")
        elif r < 0.9:
            add("F", bytes([0x50 + rng.randrange(16)]) + SKIPMAGIC[1:] + rng.choice([bytes([0, 0, 0, 0]), bytes([3, 0, 0, 0]), bytes([0xff, 0xff, 0xff, 0xff]), bytes([0xf8, 0xff, 0xff, 0xff]), rng.randbytes(4), rng.randbytes(2)]) + rng.randbytes(rng.choice([0, 3, 8])), "random-skippable")
        else:
            add("F", rng.randbytes(rng.choice([0, 1, 3, 4, 5, 8, 18, 40])), "random-raw")
    # magicless format
    for fr, st, d, x in valid[:(6 if quick else 40)]:
        if fr[:4] == MAGIC and d is None:
            add("F", fr[4:], "valid-magicless", flags="ml", cap=len(x) + 8, base=x)
            m, tag = mutate(rng, fr, st, others)
            add("F", m[4:], "mut-magicless:" + tag, flags="ml")
    # block-level API on bare block bodies (valid ones and mutations)
    for fr, st, d, x in valid[:(25 if quick else 150)]:
        if not st or d is not None:
            continue
        for bo, bt, co, cl in st["blocks"][:3]:
            if bt == 2:
                body = fr[co:co + cl]
                add("B", body, "block-valid", cap=131072 + 64)
                mb = bytearray(body)
                if mb:
                    for _ in range(rng.choice([1, 2])):
                        i = rng.randrange(min(len(mb), 48)) if rng.random() < 0.7 else rng.randrange(len(mb))
                        mb[i] = mut_byte(rng, mb[i])
                add("B", bytes(mb), "block-mut", cap=rng.choice([131072 + 64, 1000, 10]))
    # round 2: call histories of the block-level API on one context.  Empty operations (an empty raw block announced with
    # ZSTD_insertBlock(dst, 0), an empty compressed block decoded with capacity 0) add nothing to the history: every compressed
    # block must get the same verdict with and without them (harness anomaly EMPTYOP; an out-of-history read is an ASan trap).
    CRAFT = bytes.fromhex("000a00000000000000060008")        # 0 literals, 10 sequences, predefined tables, offsets beyond an empty history
    kprogs = ["d", "i0,d", "z,d", "i0,i0,d", "i7,i0,d", "i7,z,d", "g64,i0,d", "g300,z,d", "i64,g64,i0,d", "d,i0,d", "i0,d,z,d", "i40,d,g9,i0,d"]
    for prog in kprogs:
        add("K", CRAFT, "blockapi:" + prog, flags=prog, cap=1000)
    nk = 0
    for fr, st, d, x in valid[:(40 if quick else 150)]:
        if not st or d is not None:
            continue
        cb = [(bo, bt, co, cl) for bo, bt, co, cl in st["blocks"] if bt == 2]
        for bi, (bo, bt, co, cl) in enumerate(cb[:4]):
            body = fr[co:co + cl]
            # a later block of a frame reaches into the blocks before it: decoded alone it is (normally) refused; behind a gap + an
            # empty operation the lost prefix makes it "contiguous" with memory the history never contained
            for prog in ((rng.sample(kprogs, 3) + ["g%d,i0,d" % rng.choice([1, 8, 100, 70000]), "i%d,g%d,z,d" % (rng.choice([1, 30, 3000]), rng.choice([1, 500]))])
                         if nk < (60 if quick else 600) else []):
                mb = bytearray(body)
                if rng.random() < 0.5 and mb:
                    for _ in range(rng.choice([1, 2])):
                        j = rng.randrange(max(0, len(mb) - 12), len(mb)) if rng.random() < 0.6 else rng.randrange(len(mb))
                        mb[j] = mut_byte(rng, mb[j])
                add("K", bytes(mb), "blockapi%s:%s" % ("-later" if bi else "", prog), flags=prog, cap=rng.choice([131072 + 64, 140000 + 131072]))
                nk += 1
    # (4) dictionaries: arbitrary bytes, valid header with hostile tables
    gd, gf = gdict["dict"], gdict["frame"]
    nd = 140 if quick else 1500
    for i in range(nd):
        r = rng.random()
        if r < 0.15:
            dct, tag = rng.randbytes(rng.choice([0, 1, 7, 8, 9, 40, 300])), "dict-random"
        elif r < 0.3:
            dct, tag = bytes.fromhex("37a430ec") + rng.randbytes(rng.choice([0, 3, 4, 5, 30, 200])), "dict-magic-random"
        else:
            b = bytearray(gd)
            ent_end = max(9, len(gd) - len(gdict["content"]) - 12)
            for _ in range(rng.choice([1, 1, 2, 3])):
                j = rng.randrange(8, ent_end + 12) if rng.random() < 0.85 else rng.randrange(len(b))
                b[j] = mut_byte(rng, b[j])
            if rng.random() < 0.15:
                b = b[:rng.randrange(8, len(b))]
            dct, tag = bytes(b), "dict-hostile-tables"
        add("D", gf, tag, dict_=dct, cap=len(gdict["plain"]) + 64)
        if rng.random() < 0.35:
            add("F", gf, tag + "/frame-paths", dict_=dct, cap=len(gdict["plain"]) + 64)
    add("D", gf, "dict-valid", dict_=gd, cap=len(gdict["plain"]) + 64, base=gdict["plain"])
    # round 2: ZSTD_copyDCtx of a context prepared with the dictionary; the source left alone / freed / used for something else
    for mode in (0, 1, 2, 3):
        for _ in range(2 if quick else 12):
            add("C", b"", "copydctx:%d" % mode, dict_=gd, cap=1024, flags=str(mode))
    # round 3: skippable frames at every case split of readSkippableFrameSize / ZSTD_readSkippableFrame (size field vs input length +-1, the U32 wrap values,
    # header cut short, a frame behind it)
    for u in (0, 1, 5, 62, 63, 64, 65, 300, 0xfffffff7, 0xfffffff8, 0xfffffff9, 0xffffffff, 0x80000000):
        for have in sorted(set(x for x in (0, 1, u - 1, u, u + 1, 70) if 0 <= x <= 400)):
            add("F", bytes([0x50 + rng.randrange(16)]) + SKIPMAGIC[1:] + u.to_bytes(4, "little") + rng.randbytes(have), "skippable-edge", cap=512)
    for cut in range(0, 8):
        add("F", (bytes([0x5a]) + SKIPMAGIC[1:] + bytes([2, 0, 0, 0]))[:cut], "skippable-edge", cap=64)
    # round 3: a context recovered after a streaming error - by a reset, or by a single call (zstd.h: "implied for operations starting some new decompression job")
    for variant in (0, 1, 2, 3):
        for n in ((20000,) if quick else (0, 1, 300, 20000, 140000)):
            add("R", b"", "recover:%d" % variant, cap=n, flags=str(variant))
    # round 3: who owns the current dictionary of a context - histories of create / load / refPrefix / refDDict / clear / use / free / ZSTD_copyDCtx on
    # three contexts (model coq/Safety/DictOwner.v; finding C03-copydctx-ddict-pointer-into-source, fixed 555a48a)
    progs = ["n1,n2,l1,c21,f1,u2", "n1,n2,p1,c21,l1,u2", "n1,n2,l1,c21,u2,u1,f2,u1", "n1,n2,r10,c21,f1,u2", "n1,n2,l2,l1,c21,f1,u2,x2,u2",
             "n1,n2,n3,l1,c21,c32,f1,f2,u3", "n1,n2,p1,c21,u1,u2,u2", "n1,n2,l1,l2,c12,u1,f2,u1", "n1,n2,n3,r11,c21,l1,c31,x1,u2,u3,f1,u3"]
    for _ in range(14 if quick else 120):
        ops, live = ["n1", "n2"] + (["n3"] if rng.random() < 0.5 else []), None
        for _ in range(rng.randrange(4, 14)):
            k = rng.choice("llprxuuuufccccn")
            a, b = rng.choice("123"), rng.choice("123")
            ops.append(k + a + (b if k == "c" else rng.choice("01") if k == "r" else ""))
        ops.append("u" + rng.choice("123"))
        progs.append(",".join(ops))
    for pr in progs:
        add("O", b"", "dictowner:" + pr, dict_=gd, cap=1024, flags=pr)
    # (5) legacy frames v0.5 - v0.7 (sanitizer only)
    leg = legacy_frames()
    ctx.notes["legacy_frames"] = len(leg)
    # round 2: legacy frames whose raw / RLE blocks exceed 128 KiB (the 19-bit size field allows 524287): the one-shot decoders accept them,
    # so the inspectors must count them (fix f23db1d) - and, in assert-enabled builds, must not trip over a bound that is no multiple of 128 KiB
    for v, hdr in ((5, "00"), (6, "00"), (7, "0050")):
        mg = bytes([0x20 + v, 0xb5, 0x2f, 0xfd]) + bytes.fromhex(hdr)
        for n in (131072, 131073, 200000, 398000, 524287):
            if n in (131073, 200000):
                raw = mg + bytes([0x40 | (n >> 16), (n >> 8) & 255, n & 255]) + bytes(rng.randrange(256) for _ in range(64)) * (n // 64) + bytes(n % 64) + bytes.fromhex("c00000")
                add("L", raw, "legacy-oversize-raw", cap=n + 16)
            rle = mg + bytes([0x80 | (n >> 16), (n >> 8) & 255, n & 255, 0x41]) + bytes.fromhex("c00000")
            add("L", rle, "legacy-oversize-rle", cap=n + 16)
    add("L", bytes.fromhex("27b52ffd007aa612b07cc93b12"), "legacy-oversize-rle", cap=400000)
    # round 3: a COMPRESSED legacy block that regenerates more than 128 KiB (one sequence: match-length code 52 + 16 extra bits = 131074): the bound counted
    # 128 KiB for it and the one-shot decoders had no Block_Maximum_Size limit (fixed 39f3df0: refused now).  Oracle BOUND<OUT of the harness.
    add("L", bytes.fromhex("27b52ffd0000" "00000a" + BIGMATCH_BODY + "c00000"), "legacy-bigmatch:v0.7", cap=400000)
    add("L", bytes.fromhex("26b52ffd00" "00000a" + BIGMATCH_BODY + "c00000"), "legacy-bigmatch:v0.6", cap=400000)
    add("L", bytes.fromhex("27b52ffd0000" "00000a" + "c141" "0154010234" "fcff04" + "c00000"), "legacy-bigmatch-exact128k:v0.7", cap=400000)    # 1 + 131071 bytes: the limit itself, accepted
    # round 3: hand-made v0.5 - v0.7 frames at every case split of the frame walkers (header forms, empty raw block, end mark only, truncations):
    # ZSTD_findFrameCompressedSize / ZSTD_decompressBound are compared with the extracted walker (check_legacy_walk)
    body = bytes.fromhex("400003") + b"abc" + bytes.fromhex("c00000")
    hand = [("25b52ffd00", body), ("26b52ffd00", body), ("26b52ffd4003", body), ("26b52ffd800300", body), ("26b52ffdc00300000000000000", body),
            ("27b52ffd0000", body), ("27b52ffd2003", body), ("27b52ffd400003", body), ("27b52ffd60" "0300", body), ("27b52ffd8000" "03000000", body),
            ("27b52ffdc000" "0300000000000000", body), ("27b52ffd0100aa", body), ("27b52ffd0200aabb", body), ("27b52ffd0300aabbccdd", body), ("27b52ffde3aabbccdd" "0300000000000000", body)]
    for h, bd in hand:
        fr = bytes.fromhex(h) + bd
        add("L", fr, "legacy-hdr", cap=64)
        add("L", bytes.fromhex(h) + bytes.fromhex("400000") + bd, "legacy-emptyraw", cap=64)
        add("L", bytes.fromhex(h) + bytes.fromhex("000000") + bd, "legacy-emptycompressed", cap=64)
        add("L", bytes.fromhex(h) + bytes.fromhex("c00000"), "legacy-endonly", cap=64)
        add("L", fr + fr, "legacy-twoframes", cap=64)
        for cut in (len(fr) - 1, len(fr) - 3, len(fr) - 4, len(h) // 2 + 2, len(h) // 2, 5, 4):
            add("L", fr[:cut], "legacy-hdr-trunc", cap=64)
    for fr in leg:
        add("L", fr, "legacy-valid", cap=4096)
        # round 2: legacy frames decoded with a dictionary (any bytes, any length: shorter than a magic number, shorter than the
        # magic + dictID, a legacy dictionary magic followed by nothing / by hostile tables, raw content)
        lmagic = {0x25: "35a430ec", 0x26: "36a430ec", 0x27: "37a430ec"}.get(fr[0], "37a430ec")      # ZSTDv05/06/07_DICT_MAGIC, little endian
        for dl in (1, 2, 3, 4, 5, 7, 8, 9, 40):
            add("L", fr, "legacy-dict:%d" % dl, dict_=rng.randbytes(dl), cap=4096)
        for tail in (0, 1, 3, 4, 8, 60, 300):
            add("L", fr, "legacy-dict-magic:%d" % tail, dict_=bytes.fromhex(lmagic) + rng.randbytes(tail), cap=4096)
        # entropy section found by the round-2 fuzzing campaign: Huffman table, offset-code and match-length descriptions that parse,
        # literal-length description that does not (the v0.5 loader then tested a table log nobody had written) - and its neighbours
        ENT = bytes.fromhex("fca430ecfcfe715500befeff5500beff")
        add("L", fr, "legacy-dict-entropy", dict_=bytes.fromhex(lmagic) + ENT, cap=4096)
        for j in range(len(ENT)):
            e = bytearray(ENT)
            e[j] = mut_byte(rng, e[j])
            add("L", fr, "legacy-dict-entropy-mut", dict_=bytes.fromhex(lmagic) + bytes(e) + (rng.randbytes(rng.choice([0, 0, 9, 40]))), cap=4096)
        for i in range(120 if quick else 1200):
            b = bytearray(fr)
            r = rng.random()
            if r < 0.12:
                b = b[:rng.randrange(len(b))]
            else:
                for _ in range(rng.choice([1, 1, 2, 4])):
                    q = rng.random()
                    if q < 0.35:
                        j = rng.randrange(4, min(len(b), 40))
                    elif q < 0.75:    # the sequence bitstream is read backwards: its last bytes hold the initial states and the first offsets
                        j = rng.randrange(max(4, len(b) - 16), len(b))
                    else:
                        j = rng.randrange(4, len(b))
                    b[j] = mut_byte(rng, b[j])
            add("L", bytes(b), "legacy-mut", cap=rng.choice([4096, 4096, 100, 0]))
    return cases


def case_line(c):
    return "%s %s %s %s %s %d %d" % (c["cmd"], c["id"], c["flags"], codec.hx(c["dict"]) if c["dict"] else "-",
                                     codec.hx(c["data"]), c["cap"], c["seed"])


def fields(rest):
    d = {}
    for t in rest.split(" "):
        if "=" in t:
            k, v = t.split("=", 1)
            d[k] = v
    return d


# --------------------------------------------------------------------------------------------------------------
# the watchdog tie

def expand_wd(wd):
    """'P0x3;E1x1;' -> [(cls, counter)] with long progress runs shortened"""
    out = []
    if wd in ("-", ""):
        return out
    for t in wd.split(";"):
        if not t:
            continue
        m = re.match(r"([A-Za-z])(-?\d+)x(\d+)$", t)
        cls, cnt, run = m.group(1), int(m.group(2)), int(m.group(3))
        out += [(cls, cnt)] * (min(run, 40) if cls in "PH" else run)
    return out


def check_watchdog(ctx, model_exe, items, npmax):
    """items: [(case, key, wd string)].  The extracted watchdog model must predict the counter after every call and the
    call at which the error is raised."""
    lines, exp = [], {}
    for c, key, wd in items:
        calls = expand_wd(wd)
        if not calls:
            continue
        obs, want, prev, bad = [], [], 0, None
        for cls, cnt in calls:
            if cls in "HL":
                if cnt != prev:
                    bad = "counter changed from %d to %d on a call that returns before the accounting code (%s)" % (prev, cnt, cls)
                continue
            if cls == "x":
                break
            if cls in "fe":
                obs.append("F" if cls == "f" else "E")
                want.append("ERRF" if cls == "f" else "ERRE")
                break
            obs.append(cls)
            want.append(str(cnt))
            prev = cnt
        mid = "%s.%s" % (c["id"], key)
        if bad:
            ctx.violation(replay_of(c, what=bad), what="no-forward-progress counter: " + bad)
        if obs:
            lines.append("N %s check %s" % (mid, "".join(obs)))
            exp[mid] = (c, want, wd)
    res = run_model(model_exe, lines) if lines else []
    n = 0
    for l in res:
        t = l.split(" ")
        mid, got = t[1], [x for x in t[2].split(",") if x]
        c, want, wd = exp[mid]
        n += 1
        if got[:len(want)] != want:
            ctx.violation(replay_of(c, what="watchdog", model=got[:40], observed=want[:40], trace=wd[:400]),
                          what="ZSTD_decompressStream no-forward-progress accounting differs from the model (limit %d): observed %s, model %s"
                               % (npmax, ",".join(want[-20:]), ",".join(got[-20:])))
        stalled = 0
        for w in want:
            if w not in ("0", "ERRF", "ERRE"):
                stalled += 1
        sig = ("wd", tuple(sorted(set(re.sub(r"\d+x\d+", "", t) for t in wd.split(";") if t))))
        ctx.count(sig, nontrivial=stalled > 0)
    ctx.cov["traces_validated_against_impl"] += n
    return n


def check_ring(ctx, model_exe, items):
    """items: [(case, rg string)].  The extracted ring model must predict the buffer size and outStart after every block."""
    lines, exp = [], {}
    for c, rg in items:
        parts = [p for p in rg.split(";") if p]
        if len(parts) < 2 or ":" not in parts[0] or parts[-1] in ("x", "L"):
            parts = [p for p in parts if p not in ("x", "L")]
            if len(parts) < 2 or ":" not in parts[0]:
                continue
        W, fcs, B, size = [int(v) for v in parts[0].split(":")]
        obs = [tuple(int(v) for v in p.split(">")) for p in parts[1:] if ">" in p]
        if not obs or B == 0:
            continue
        lines.append("G %s %d %d %d %s" % (c["id"], W, min(fcs, (1 << 62) - 1), B, ",".join(str(r) for r, _ in obs)))
        exp[c["id"]] = (c, W, fcs, B, size, obs)
    res = run_model(model_exe, lines) if lines else []
    for l in res:
        t = l.split(" ")
        c, W, fcs, B, size, obs = exp[t[1]]
        msize = int(t[2].split("=")[1])
        mstarts = [int(v) for v in t[3].split("=")[1].split(",") if v]
        wrapped = any(s < p for (_, s), (_, p) in zip(obs[1:], obs))
        ctx.count(("ring", wrapped, size < fcs, W, min(len(obs), 12)), nontrivial=len(obs) > 1)
        ctx.cov["traces_validated_against_impl"] += 1
        if msize != size:
            ctx.violation(replay_of(c, what="ring", window=W, fcs=fcs, blockSizeMax=B, outBuffSize=size, model=msize),
                          what="streaming decoder: output buffer size %d differs from the model of ZSTD_decodingBufferSize_internal (%d) for windowSize %d, content size %d, blockSizeMax %d"
                               % (size, msize, W, fcs, B))
        elif mstarts[:len(obs)] != [s for _, s in obs]:
            k = next((i for i, (a, b) in enumerate(zip(mstarts, [s for _, s in obs])) if a != b), min(len(mstarts), len(obs)))
            ctx.violation(replay_of(c, what="ring", window=W, fcs=fcs, blockSizeMax=B, outBuffSize=size, observed=obs[:k + 2], model=mstarts[:k + 2]),
                          what="streaming decoder: outStart after block %d is %s, the ring-buffer model says %s (windowSize %d, blockSizeMax %d, buffer %d)"
                               % (k, obs[k][1] if k < len(obs) else "-", mstarts[k] if k < len(mstarts) else "-", W, B, size))
    return len(res)


def replay_of(c, **kw):
    d = dict(kind="fuzz", line=case_line(c)[:1200000], origin=c["origin"])
    d.update(kw)
    return d


# --------------------------------------------------------------------------------------------------------------
# evaluation of the fuzz results

def check_continuity(ctx, model_exe, items, variant):
    """K cases: the bookkeeping state (previousDstEnd, prefixStart, virtualStart, dictEnd) after every call of the history must
    be the one of the repaired model (Continuity.step_fixed, proved sound for every history); a trace that follows the model
    of the code as written (Continuity.step) instead is the known defect, anything else a new one."""
    items = [(c, ops, cs) for c, ops, cs in items if ops not in ("-", "")]
    if not items:
        return
    lines = []
    for c, ops, cs in items:
        lines.append("C %s fixed %s" % (c["id"], ops))
        lines.append("C %s asis %s" % (c["id"], ops))
    mout = run_model(model_exe, lines)
    res = {}
    for l in mout:
        t = l.split(" ")
        if len(t) >= 3 and t[0] == "C":
            res.setdefault(t[1], []).append(t[2])
    nfix = nasis = 0
    for c, ops, cs in items:
        m = res.get(c["id"], [])
        if len(m) != 2:
            ctx.violation(replay_of(c, what="continuity", ops=ops, model=str(m)[:200]), what="history bookkeeping model gave no result for %s" % ops[:100])
            continue
        ctx.count(("continuity", c["flags"], cs == m[0], cs == m[1]), nontrivial=True)
        if cs == m[0]:
            nfix += 1
            continue
        if cs == m[1]:
            nasis += 1
            ctx.violation(replay_of(c, what="continuity", ops=ops, observed=cs[:400], model_fixed=m[0][:400], variant=variant),
                          what="block-level API history %s: an empty operation moved previousDstEnd without starting a new segment (state %s, sound bookkeeping %s): "
                               "the next block can reach memory that never was history" % (c["flags"], cs[:120], m[0][:120]),
                          key="C03-block-api-empty-insertblock-loses-prefix")
        else:
            ctx.violation(replay_of(c, what="continuity", ops=ops, observed=cs[:400], model_fixed=m[0][:400], model_aswritten=m[1][:400], variant=variant),
                          what="block-level API history %s: bookkeeping state %s follows neither the sound model (%s) nor the model of the code as written (%s)"
                               % (c["flags"], cs[:120], m[0][:120], m[1][:120]))
    ctx.notes["continuity_traces"] = dict(total=len(items), sound=nfix, as_written_unsound=nasis)


def build_msan_harness(defs):
    """c03_fuzz.c + the decoder sources (lib/common, lib/decompress without the assembly loop, lib/legacy v0.5-0.7) compiled by
    clang with -fsanitize=memory: reads of memory nobody wrote (gcc has no MemorySanitizer, so this variant does not go through
    core.build_lib).  Cached by the content hash of lib/ + the harness.  None when clang / its runtime is not installed."""
    import shutil
    cc = shutil.which("clang")
    if not cc:
        return None
    # -O0: at -O1 clang merges `if (log > MAX) return E; if (isError(h)) return E;` into one test whose result does not depend on the
    # uninitialised operand, and MemorySanitizer (rightly) stays silent on the optimised code: the source-level read is what the property is about
    flags = ["-O0", "-g", "-fsanitize=memory", "-fsanitize-memory-track-origins", "-fno-omit-frame-pointer", "-w",
             "-DZSTD_VERIF", "-DZSTD_LEGACY_SUPPORT=5", "-DZSTD_DISABLE_ASM", "-DC03_DECODER_ONLY"] + list(defs)
    srcs = (sorted(glob.glob(os.path.join(core.REPO, "lib", "common", "*.c"))) + sorted(glob.glob(os.path.join(core.REPO, "lib", "decompress", "*.c")))
            + [os.path.join(core.REPO, "lib", "legacy", "zstd_v0%d.c" % v) for v in (5, 6, 7)])
    hsrc = os.path.join(core.HARNESS, "c03_fuzz.c")
    key = hashlib.sha256((core.tree_hash() + open(hsrc).read() + " ".join(flags)).encode()).hexdigest()[:16]
    outdir = os.path.join(core.BUILD, "bin", "c03_fuzz")
    exe = os.path.join(outdir, "c03_fuzz-msan-" + key)
    with core.Lock("bin-c03_fuzz-msan"):
        if os.path.exists(exe):
            os.utime(exe, None)
            return exe
        os.makedirs(outdir, exist_ok=True)
        for old in glob.glob(os.path.join(outdir, "c03_fuzz-msan-*")):
            try:
                if time.time() - os.path.getmtime(old) > 3600:
                    (shutil.rmtree if os.path.isdir(old) else os.unlink)(old)
            except OSError:
                pass
        t0 = time.time()
        odir = exe + ".o"
        os.makedirs(odir, exist_ok=True)

        def comp(src):
            o = os.path.join(odir, os.path.basename(src) + ".o")
            p = subprocess.run([cc] + flags + core.inc_flags() + ["-c", src, "-o", o], stdout=subprocess.PIPE, stderr=subprocess.STDOUT)
            return o, p.returncode, p.stdout.decode("utf-8", "replace")
        with ThreadPoolExecutor(4) as ex:
            res = list(ex.map(comp, srcs + [hsrc]))
        bad = [r for r in res if r[1] != 0]
        if bad:
            raise RuntimeError("MemorySanitizer build failed: " + bad[0][2][-2000:])
        p = subprocess.run([cc, "-fsanitize=memory", "-g"] + [r[0] for r in res] + ["-o", exe + ".tmp"], stdout=subprocess.PIPE, stderr=subprocess.STDOUT)
        if p.returncode != 0:
            raise RuntimeError("MemorySanitizer link failed: " + p.stdout.decode("utf-8", "replace")[-2000:])
        os.replace(exe + ".tmp", exe)
        shutil.rmtree(odir, ignore_errors=True)
        core.log("built harness c03_fuzz (msan, clang) in %.1fs" % (time.time() - t0))
    return exe


def debug_pass(ctx, defs, cases):
    """thorough tier: every case once more through an ASan build with -DDEBUGLEVEL=1 (assert() enabled): an assertion of lib/ that hostile
    bytes (or a legal call history of the harness) can falsify aborts the process in such builds - a call that does not return."""
    exe = core.build_harness("c03_fuzz", ["c03_fuzz.c"], variant="asan", extra_defs=["-DDEBUGLEVEL=1"], extra_flags=list(defs))
    sub = [c for c in cases if c["cmd"] in ("F", "L", "D", "B", "K", "C", "O", "R")]
    t0 = time.time()
    out, crashes = run_lines(exe, [case_line(c) for c in sub] + ["A a"])
    core.log("assert-enabled asan harness: %d cases in %.1fs (%d aborts)" % (len(sub), time.time() - t0, len(crashes)))
    byid = {c["id"]: c for c in sub}
    for line, rc, err in crashes:
        cid = line.split(" ")[1] if " " in line else "?"
        c = byid.get(cid)
        summ = " ".join(re.findall(r"([^\n]*Assertion[^\n]*|ERROR: AddressSanitizer[^\n]*|SUMMARY:[^\n]*|runtime error:[^\n]*)", err)[:3]) or err[-300:]
        ctx.violation(dict(kind="fuzz", line=line[:1200000], origin=c["origin"] if c else "probe", rc=rc, variant="asan-debuglevel1", report=err[-2500:]),
                      what="decoder harness (ASan build with -DDEBUGLEVEL=1) aborted on a %s input (rc=%d): %s" % (c["origin"] if c else "O1 probe", rc, summ[:400]),
                      key=crash_key(c, err))
    ctx.notes["assert_enabled_variant"] = dict(cases=len(sub), aborts=len(crashes))


LEGACY14_DEFS = ["-UZSTD_LEGACY_SUPPORT", "-DZSTD_LEGACY_SUPPORT=1"]
BIGMATCH_BODY = "c141" "0154010234" "ffff04"    # RLE literals 1 x 'A'; 1 sequence, LL/OF/ML tables in RLE mode: LL code 1, offset code 2, ML code 52 + 0xFFFF -> 131075 bytes


def legacy14_cases(ctx, rng):
    """round 3: the decoders of v0.1 - v0.4, which the default build (ZSTD_LEGACY_SUPPORT=5) does not contain.  Valid frames: the v0.4 frame of
    tests/legacy.c and its transplants to v0.3 / v0.2 (same block format, no windowLog byte); hand-made raw / RLE / empty frames of the four
    versions; raw blocks above 128 KiB (7727820: the bound counts them); mutations; v0.4 with raw-content dictionaries."""
    quick = ctx.quick
    cases = []

    def add(data, origin, dict_=None, cap=4096):
        cases.append(dict(id="q%d" % len(cases), cmd="L", flags="-", dict=dict_, data=data, cap=cap, seed=rng.randrange(1 << 30), origin=origin, base=None))
    MAG = {1: bytes.fromhex("fd2fb51e"), 2: bytes.fromhex("22b52ffd"), 3: bytes.fromhex("23b52ffd"), 4: bytes.fromhex("24b52ffd")}
    valid = []
    for fr in legacy_frames((0x24,)):
        valid.append((4, fr))
        valid.append((3, MAG[3] + fr[5:]))
        valid.append((2, MAG[2] + fr[5:]))
    ctx.notes["legacy14_valid_frames"] = len(valid)
    for v, fr in valid:
        add(fr, "legacy14-valid:v0.%d" % v)
    for v in (1, 2, 3, 4):
        hdr = MAG[v] + (b"\x0a" if v == 4 else b"")
        add(hdr + bytes.fromhex("400005") + b"hello" + bytes.fromhex("c00000"), "legacy14-raw:v0.%d" % v)
        add(hdr + bytes.fromhex("400000") + bytes.fromhex("400003") + b"abc" + bytes.fromhex("c00000"), "legacy14-emptyraw:v0.%d" % v)
        add(hdr + bytes.fromhex("80000941") + bytes.fromhex("c00000"), "legacy14-rle:v0.%d" % v)
        add(hdr + bytes.fromhex("c00000"), "legacy14-empty:v0.%d" % v)
        add(hdr, "legacy14-headeronly:v0.%d" % v)
        for n in (131073, 200000):
            add(hdr + bytes([0x40 | (n >> 16), (n >> 8) & 255, n & 255]) + bytes(rng.randrange(256) for _ in range(64)) * (n // 64) + bytes(n % 64) + bytes.fromhex("c00000"),
                "legacy14-oversize-raw:v0.%d" % v, cap=n + 16)
        if v == 4:   # the only one of the four with a streaming decoder: several seeds, so that some segmentation makes it LOAD the block into its 128 KiB input buffer
            for _ in range(4):
                n = 140000
                add(hdr + bytes([0x40 | (n >> 16), (n >> 8) & 255, n & 255]) + bytes(range(256)) * (n // 256) + bytes(n % 256) + bytes.fromhex("c00000"),
                    "legacy14-oversize-raw-stream:v0.4", cap=n + 16)
    for v, fr in valid:
        for dl in (1, 3, 4, 8, 40, 300):
            add(fr, "legacy14-dict:%d" % dl, dict_=rng.randbytes(dl))
        # the sequence bitstream is read backwards from the end of the block (the 3 bytes behind it are the end mark): initial FSE states, first offsets
        for j in range(max(5, len(fr) - 3 - 24), len(fr) - 3):
            for x in (0x00, 0xff, fr[j] ^ 0x80, fr[j] ^ 0x01, fr[j] ^ 0x10, (fr[j] + 1) & 255):
                if x != fr[j]:
                    b = bytearray(fr)
                    b[j] = x
                    add(bytes(b), "legacy14-mut-tail:v0.%d" % v)
        for i in range(200 if quick else 1500):
            b = bytearray(fr)
            r = rng.random()
            if r < 0.12:
                b = b[:rng.randrange(len(b))]
            else:
                for _ in range(rng.choice([1, 1, 2, 4])):
                    q = rng.random()
                    j = rng.randrange(4, min(len(b), 40)) if q < 0.35 else rng.randrange(max(4, len(b) - 16), len(b)) if q < 0.75 else rng.randrange(4, len(b))
                    b[j] = mut_byte(rng, b[j])
            add(bytes(b), "legacy14-mut:v0.%d" % v, cap=rng.choice([4096, 4096, 100, 0]), dict_=(rng.randbytes(rng.choice([2, 9, 200])) if rng.random() < 0.2 else None))
    return cases


def legacy14_pass(ctx, defs):
    """the same harness linked with a library built with ZSTD_LEGACY_SUPPORT=1 (ASan+UBSan): v0.1 - v0.4 frames through the one-shot decoder, the
    DDict / multi-DDict paths, two streaming segmentations (v0.4; v0.1-v0.3 have no streaming decoder) and the inspectors."""
    exe = core.build_harness("c03_fuzz", ["c03_fuzz.c"], variant="asan", extra_defs=LEGACY14_DEFS, extra_flags=list(defs))
    rng = random.Random(ctx.seed * 7919 + 14)
    cases = legacy14_cases(ctx, rng)
    t0 = time.time()
    out, crashes = run_lines(exe, [case_line(c) for c in cases])
    core.log("legacy v0.1-v0.4 harness (asan, ZSTD_LEGACY_SUPPORT=1): %d cases in %.1fs (%d crashes)" % (len(cases), time.time() - t0, len(crashes)))
    byid = {c["id"]: c for c in cases}
    for line, rc, err in crashes:
        cid = line.split(" ")[1] if " " in line else "?"
        c = byid.get(cid)
        summ = " ".join(re.findall(r"(ERROR: AddressSanitizer[^\n]*|SUMMARY:[^\n]*|runtime error:[^\n]*)", err)[:3]) or err[-300:]
        ctx.violation(dict(kind="fuzz", line=line[:1200000], origin=c["origin"] if c else "?", rc=rc, variant="asan-legacy1", report=err[-2500:]),
                      what="decoder harness (ASan build with ZSTD_LEGACY_SUPPORT=1) died on a %s input (rc=%d): %s" % (c["origin"] if c else "?", rc, summ[:400]))
    nacc = 0
    for c in cases:
        if c["id"] not in out:
            continue
        fd = fields(out[c["id"]])
        fl = fd.get("flags", "-")
        if fl != "-":
            ctx.violation(replay_of(c, flags=fl, result=out[c["id"]][:600], variant="asan-legacy1"),
                          what="decoder oracle failed on a %s input (ZSTD_LEGACY_SUPPORT=1 build): %s" % (c["origin"], fl))
        one = fd.get("one", "")
        nacc += one.startswith("OK")
        o = c["origin"].split(":")[0]
        if o in ("legacy14-valid", "legacy14-raw", "legacy14-oversize-raw", "legacy14-oversize-raw-stream", "legacy14-empty") and not one.startswith("OK"):
            ctx.violation(replay_of(c, result=out[c["id"]][:400], variant="asan-legacy1"),
                          what="a valid %s frame is refused by ZSTD_decompress in the ZSTD_LEGACY_SUPPORT=1 build: %s" % (c["origin"], one[:80]))
        if o == "legacy14-valid" and one.startswith("OK") and fd.get("dctx") != "OK:239":
            ctx.violation(replay_of(c, result=out[c["id"]][:400], variant="asan-legacy1"),
                          what="the %s frame of tests/legacy.c decodes to %s instead of the 239 expected bytes" % (c["origin"], one[:40]))
        ctx.count(("legacy14", o, one[:2], fd.get("strm", "")[:2]), nontrivial=True)
    ctx.notes["legacy14"] = dict(cases=len(cases), accepted_one_shot=nacc, crashes=len(crashes))


# --------------------------------------------------------------------------------------------------------------
# the bounded, seeded libFuzzer phase (round 3; thorough tier, or C03_FUZZ_PHASE=1)

FZ_TARGETS = [   # name, runs (thorough), max_len
    ("legacy", 500000, 600), ("recover", 120000, 3000), ("stream", 120000, 3000), ("block", 250000, 1500), ("dict", 120000, 3000), ("reuse", 80000, 3000)]
FZ_FLAGS = ["-O1", "-g", "-fno-omit-frame-pointer", "-fsanitize=fuzzer-no-link,address,undefined", "-fno-sanitize-recover=undefined", "-w",
            "-DZSTD_VERIF", "-DZSTD_MULTITHREAD", "-DZSTD_LEGACY_SUPPORT=1", "-DDEBUGLEVEL=1"]


def build_fuzz_targets():
    """lib/ (every legacy version: ZSTD_LEGACY_SUPPORT=1, assert() enabled) compiled by clang for libFuzzer + ASan + UBSan, and the six targets
    harness/c03_fz_*.c.  Cached by the content hash of lib/ + the targets.  None when clang is not installed."""
    import shutil
    cc = shutil.which("clang")
    if not cc:
        return None
    tsrc = {n: os.path.join(core.HARNESS, "c03_fz_%s.c" % n) for n, _, _ in FZ_TARGETS}
    key = hashlib.sha256((core.tree_hash() + "".join(open(x).read() for x in tsrc.values()) + " ".join(FZ_FLAGS)).encode()).hexdigest()[:16]
    outdir = os.path.join(core.BUILD, "bin", "c03_fz", key)
    with core.Lock("bin-c03_fz"):
        if all(os.path.exists(os.path.join(outdir, n)) for n in tsrc):
            os.utime(outdir, None)
            return {n: os.path.join(outdir, n) for n in tsrc}
        base = os.path.dirname(outdir)
        os.makedirs(outdir, exist_ok=True)
        for old in glob.glob(os.path.join(base, "*")):
            try:
                if old != outdir and time.time() - os.path.getmtime(old) > 3600:
                    shutil.rmtree(old, ignore_errors=True)
            except OSError:
                pass
        t0 = time.time()
        srcs = [x for x in core.lib_sources()]
        odir = os.path.join(outdir, "o")
        os.makedirs(odir, exist_ok=True)

        def comp(src):
            o = os.path.join(odir, os.path.basename(src) + ".o")
            q = subprocess.run([cc] + FZ_FLAGS + core.inc_flags() + ["-c", src, "-o", o], stdout=subprocess.PIPE, stderr=subprocess.STDOUT)
            return o, q.returncode, q.stdout.decode("utf-8", "replace")
        with ThreadPoolExecutor(4) as ex:
            res = list(ex.map(comp, srcs))
        bad = [r for r in res if r[1] != 0]
        if bad:
            raise RuntimeError("libFuzzer library build failed: " + bad[0][2][-2000:])
        ar = os.path.join(outdir, "libzstd.a")
        core.sh(["ar", "rcs", ar] + [r[0] for r in res], check=True)
        shutil.rmtree(odir, ignore_errors=True)
        for n, src in tsrc.items():
            q = subprocess.run([cc, "-O1", "-g", "-fsanitize=fuzzer,address,undefined", "-fno-sanitize-recover=undefined", "-w"] + core.inc_flags()
                               + [src, ar, "-lpthread", "-o", os.path.join(outdir, n + ".tmp")], stdout=subprocess.PIPE, stderr=subprocess.STDOUT)
            if q.returncode != 0:
                raise RuntimeError("libFuzzer target %s failed to build: %s" % (n, q.stdout.decode("utf-8", "replace")[-2000:]))
            os.replace(os.path.join(outdir, n + ".tmp"), os.path.join(outdir, n))
        core.log("built libFuzzer library (ZSTD_LEGACY_SUPPORT=1, asan+ubsan, DEBUGLEVEL=1) + %d targets in %.1fs" % (len(tsrc), time.time() - t0))
    return {n: os.path.join(outdir, n) for n in tsrc}


def fuzz_seeds(ctx, rng, gdict):
    """deterministic seed corpora (name -> list of byte strings), in the input layout of each target"""
    MAG = {1: bytes.fromhex("fd2fb51e"), 2: bytes.fromhex("22b52ffd"), 3: bytes.fromhex("23b52ffd"), 4: bytes.fromhex("24b52ffd")}
    leg = []
    for fr in legacy_frames((0x24, 0x25, 0x26, 0x27)):
        v = fr[0] - 0x20
        leg.append((v, fr))
        if v == 4:
            leg += [(3, MAG[3] + fr[5:]), (2, MAG[2] + fr[5:])]
    for v in (1, 2, 3, 4, 5, 6, 7):
        hdr = b"\x0a" if v == 4 else b"\x00" if v in (5, 6) else b"\x00\x00" if v == 7 else b""
        leg.append((v, b"xxxx" + hdr + bytes.fromhex("400005") + b"hello" + bytes.fromhex("80000941c00000")))
    leg.append((7, b"xxxx" + bytes.fromhex("0050" "00000a" + BIGMATCH_BODY + "c00000")))
    seeds = {"legacy": [bytes([(v - 1) + 28, o]) + fr[4:] for v, fr in leg for o in (0, 2, 7)]}
    valid = [v[0] for v in getattr(ctx, "c03_valid", []) if v[2] is None and len(v[0]) <= 2500][:40]
    modern = valid + [fr for _, fr in leg if len(fr) > 4 and fr[:4] != b"xxxx"]
    seeds["stream"] = [bytes([5 + (i % 3), 0, 14, i & 1]) + f for i, f in enumerate(modern)]
    # finding C03-stable-outbuffer-null-plus-zero (found by this phase): stable output mode with an empty destination {NULL, 0, 0}
    seeds["stream"] += [bytes.fromhex("c8dffffe" "0000c800000100c800"), bytes.fromhex("40000e00" "28b52ffd0058010000"), bytes.fromhex("40000e01" "28b52ffd0058010000")]
    seeds["recover"] = [bytes([4 + (i % 4), (i * 2) & 2, 13, (1, 3, 9, 17, 0)[i % 5]]) + f + (modern[(i + 1) % len(modern)] if modern else b"") for i, f in enumerate(modern)]
    blocks = []
    for f in valid:
        st = parse_structure(f)
        if st and st["blocks"]:
            _, bt, off, ln = st["blocks"][0]
            if bt == 2 and ln < 1400:
                blocks.append(bytes([6, 0, 0, 0xff]) + f[off:off + ln])
    seeds["block"] = blocks or [bytes([6, 0, 0, 0xff]) + bytes.fromhex("000a00000000000000060008")]
    gd, gf = gdict["dict"], gdict["frame"]
    seeds["dict"] = [bytes([i * 2, 3, len(gd) & 255, len(gd) >> 8]) + gd + gf for i in range(6)] if len(gd) < 65536 else []
    seeds["reuse"] = [bytes([sel, 2, 85, 128, par, 0]) + a + b + c for (sel, par), (a, b, c) in zip(((0x24, 0), (0x06, 1), (0x39, 4), (0x1b, 16)),
                      zip(modern, modern[1:] + modern[:1], modern[2:] + modern[:2]))]
    return seeds


def fuzz_phase(ctx, gdict):
    """Bounded coverage-guided search, reproducible from the seed: each target runs `-runs=N -seed=VERIF_SEED` (single process) from a corpus that the
    driver writes deterministically; a sanitizer report, an assert() of lib/ or an oracle abort() of the target is a violation whose replay file carries
    the input libFuzzer saved."""
    import shutil, tempfile
    exes = build_fuzz_targets()
    if exes is None:
        ctx.notes["fuzz_phase"] = "clang not installed: libFuzzer phase skipped"
        return
    rng = random.Random(ctx.seed * 104729 + 3)
    seeds = fuzz_seeds(ctx, rng, gdict)
    scale = float(os.environ.get("C03_FUZZ_SCALE", "1.0" if not ctx.quick else "0.03"))
    work = tempfile.mkdtemp(prefix="zv-c03-fz-")
    note = {}

    def one(t):
        name, runs, maxlen = t
        cdir, adir = os.path.join(work, name, "corpus"), os.path.join(work, name, "art")
        os.makedirs(cdir)
        os.makedirs(adir)
        for i, b in enumerate(seeds.get(name, [])):
            open(os.path.join(cdir, "s%03d" % i), "wb").write(b[:maxlen])
        n = max(1000, int(runs * scale))
        t0 = time.time()
        try:
            q = subprocess.run([exes[name], "-runs=%d" % n, "-seed=%d" % (ctx.seed + 1), "-max_len=%d" % maxlen, "-timeout=25", "-rss_limit_mb=3000", "-print_final_stats=1",
                                "-artifact_prefix=" + adir + "/", cdir], stdout=subprocess.PIPE, stderr=subprocess.STDOUT, timeout=900)
            rc, log = q.returncode, q.stdout.decode("utf-8", "replace")
        except subprocess.TimeoutExpired as e:
            rc, log = 124, (e.stdout or b"").decode("utf-8", "replace")
        arts = sorted(glob.glob(os.path.join(adir, "*")))
        m = re.search(r"stat::number_of_executed_units:\s*(\d+)", log)
        cov = re.findall(r"cov: (\d+)", log)
        return name, rc, log, [(os.path.basename(a), open(a, "rb").read()) for a in arts], int(m.group(1)) if m else 0, int(cov[-1]) if cov else 0, time.time() - t0

    try:
        with ThreadPoolExecutor(3) as ex:
            results = list(ex.map(one, FZ_TARGETS))
    finally:
        pass
    for name, rc, log, arts, execs, cov, dt in results:
        note[name] = dict(executions=execs, edges=cov, seconds=round(dt, 1), rc=rc, reports=len(arts))
        ctx.count(("fuzzphase", name, "clean" if rc == 0 else "report"), nontrivial=True)
        if rc == 124 and not arts:
            note[name]["note"] = "time limit reached before the run count"
            continue
        if rc != 0 or arts:
            summ = " ".join(re.findall(r"(ERROR: AddressSanitizer[^\n]*|SUMMARY:[^\n]*|runtime error:[^\n]*|[^\n]*Assertion[^\n]*|ERROR: libFuzzer[^\n]*|HISTORY DEPENDENCE[^\n]*|BOUND[^\n]*)", log)[:4]) or log[-300:]
            data = arts[0][1] if arts else b""
            key = None
            if re.search(r"zstd_decompress\.c:\d+:\d+: runtime error: applying zero offset to null pointer", log):
                key = "C03-stable-outbuffer-null-plus-zero"
            ctx.violation(dict(kind="libfuzzer", target=name, input=data.hex(), artifact=arts[0][0] if arts else None, rc=rc, report=log[-3000:]),
                          what="libFuzzer phase, target %s (ZSTD_LEGACY_SUPPORT=1, ASan+UBSan, assert() enabled): rc=%d after %d executions: %s" % (name, rc, execs, summ[:500]), key=key)
    shutil.rmtree(work, ignore_errors=True)
    ctx.notes["fuzz_phase"] = note
    core.log("libFuzzer phase: " + ", ".join("%s %d exec / %d edges / %.0fs" % (k, v["executions"], v["edges"], v["seconds"]) for k, v in note.items()))


def msan_key(c, err):
    if c and c["cmd"] in ("L", "D", "F") and c["dict"] and re.search(r"in ZSTDv05_loadEntropy", err) and "use-of-uninitialized-value" in err:
        return "C03-legacy-v05-loadentropy-uninit-log"
    return None


def msan_pass(ctx, defs, cases, out_asan):
    """the decoder-side cases once more under MemorySanitizer; besides the trap, the one-shot result must equal the ASan build's"""
    exe = build_msan_harness(defs)
    if exe is None:
        ctx.notes["msan"] = "clang not installed: MemorySanitizer variant skipped"
        return
    sub = [c for c in cases if c["cmd"] in ("L", "D", "K", "B")]
    fr = [c for c in cases if c["cmd"] == "F"]
    if ctx.quick:
        # every legacy / dictionary / block-level case, and every fourth frame-level case (all of those that carry a dictionary)
        fr = [c for i, c in enumerate(fr) if c["dict"] or i % 4 == 0]
    sub += fr
    t0 = time.time()
    out, crashes = run_lines(exe, [case_line(c) for c in sub])
    core.log("msan harness: %d cases in %.1fs (%d reports)" % (len(sub), time.time() - t0, len(crashes)))
    byid = {c["id"]: c for c in sub}
    for line, rc, err in crashes:
        cid = line.split(" ")[1] if " " in line else "?"
        c = byid.get(cid)
        summ = " ".join(re.findall(r"(WARNING: MemorySanitizer[^\n]*|SUMMARY:[^\n]*|#0 [^\n]*)", err)[:3]) or err[-300:]
        ctx.violation(dict(kind="fuzz", line=line[:1200000], origin=c["origin"] if c else "?", rc=rc, variant="msan", report=err[-2500:]),
                      what="decoder harness (MemorySanitizer build) died on a %s input (rc=%d): %s" % (c["origin"] if c else "?", rc, summ[:400]),
                      key=msan_key(c, err))
    ndiff = 0
    for c in sub:
        a, b = out_asan.get(c["id"]), out.get(c["id"])
        if a is None or b is None:
            continue
        fa, fb = fields(a), fields(b)
        ka, kb = fa.get("one", fa.get("blk")), fb.get("one", fb.get("blk"))
        ctx.count(("msan", c["cmd"], (kb or "")[:2]), nontrivial=True)
        if ka != kb:
            m = getattr(ctx, "c03_R", {}).get(c["id"])
            if m is not None and m[0] == "ERR" and m[2] in PERMISSIVE:
                ndiff += 1       # no assembly loop in this variant: see the noasm variant of the thorough tier
                continue
            ctx.violation(replay_of(c, asan=(ka or "")[:200], msan=(kb or "")[:200], variant="msan"),
                          what="the MemorySanitizer build (portable C loops) gives a different one-shot result than the default build on a %s input" % c["origin"])
    ctx.notes["msan"] = dict(cases=len(sub), reports=len(crashes), tolerated_leniency_differences=ndiff)


def check_ctx_pointers(ctx, model_exe, items, variant):
    """C cases: where the four table pointers of the copy point right after ZSTD_copyDCtx must be what the repaired model
    (CtxPointers.pstep true, proved private for every history) says; the verbatim-copy model names the known defect."""
    if not items:
        return
    lines, exp = [], {}
    for c, pt in items:
        ops = "u1:9;c2:1" if c["flags"] == "3" else "b1;c2:1"
        for m in ("fixed", "asis"):
            for q in ("2", "1"):
                lines.append("T %s/%s/%s %s %s %s" % (c["id"], m, q, m, q, ops))
    res = {}
    for l in run_model(model_exe, lines):
        t = l.split(" ")
        if len(t) >= 3 and t[0] == "T":
            res[t[1]] = t[2]
    n_ok = 0
    for c, pt in items:
        fixed = "%s:%s" % (res.get(c["id"] + "/fixed/2"), res.get(c["id"] + "/fixed/1"))
        asis = "%s:%s" % (res.get(c["id"] + "/asis/2"), res.get(c["id"] + "/asis/1"))
        ctx.count(("ctxptr", c["flags"], pt), nontrivial=True)
        if pt == fixed:
            n_ok += 1
        elif pt == asis:
            ctx.violation(replay_of(c, what="ctxptr", observed=pt, model_fixed=fixed, variant=variant),
                          what="ZSTD_copyDCtx (scenario %s): the table pointers of the copy point into the source context (%s; private pointers: %s)" % (c["origin"], pt, fixed),
                          key="C03-copydctx-table-pointers-into-source")
        else:
            ctx.violation(replay_of(c, what="ctxptr", observed=pt, model_fixed=fixed, model_aswritten=asis, variant=variant),
                          what="ZSTD_copyDCtx (scenario %s): table pointers %s follow neither the private-pointer model (%s) nor the verbatim copy (%s)" % (c["origin"], pt, fixed, asis))
    ctx.notes["ctx_pointer_traces"] = dict(total=len(items), private=n_ok)


def check_legacy_walk(ctx, model_exe, cases, out, variant):
    """L cases that start with a v0.5 / v0.6 / v0.7 magic: what ZSTD_findFrameCompressedSize answers (and ZSTD_decompressBound, when the input is one
    frame) must be what the extracted frame walker (LegacyWalk.walk: proved total, inside the input, bound sound under the decoders' block limits) says."""
    items = [c for c in cases if c["cmd"] == "L" and c["id"] in out and len(c["data"]) >= 1 and c["data"][0] in (0x25, 0x26, 0x27) and len(c["data"]) <= 20000]
    if not items:
        return
    res = {}
    for l in run_model(model_exe, ["LW %s %s" % (c["id"], codec.hx(c["data"])) for c in items]):
        t = l.split(" ")
        if len(t) >= 3 and t[0] == "LW":
            res[t[1]] = t[2:]
    n_ok = n_err = 0
    for c in items:
        m = res.get(c["id"])
        insp = dict(x.split(":", 1) for x in fields(out[c["id"]]).get("insp", "").split(",") if ":" in x)
        if not m or "cs" not in insp:
            continue
        cs, bound = insp["cs"], insp.get("bound", "")
        ctx.count(("legacywalk", m[0], c["origin"].split(":")[0]), nontrivial=True)
        if m[0] == "OK":
            md = dict(x.split("=") for x in m[1:])
            n_ok += 1
            if cs != md["cs"] or (int(md["cs"]) == len(c["data"]) and bound != md["bound"]):
                ctx.violation(replay_of(c, what="legacywalk", observed="cs:%s bound:%s" % (cs, bound), model=" ".join(m), variant=variant),
                              what="legacy frame walker (%s input): ZSTD_findFrameCompressedSize / ZSTD_decompressBound answer cs=%s bound=%s, the model %s" % (c["origin"], cs, bound, " ".join(m)))
        elif m[0] == "ERR":
            n_err += 1
            if not cs.startswith("E"):
                ctx.violation(replay_of(c, what="legacywalk", observed="cs:%s" % cs, model=" ".join(m), variant=variant),
                              what="legacy frame walker (%s input): ZSTD_findFrameCompressedSize answers %s where the model refuses the frame (%s)" % (c["origin"], cs, m[1]))
    ctx.notes["legacy_walk_tie"] = dict(frames=len(items), accepted=n_ok, refused=n_err)


def check_skippable(ctx, model_exe, cases, out, variant):
    """inputs that start with a skippable magic: ZSTD_findFrameCompressedSize and ZSTD_readSkippableFrame (random capacity 0..63) must answer what
    SkipSize.skip_size / read_skip say at 64 bits (proved exact / inside for every width of size_t from 32 bits)."""
    items = [c for c in cases if c["cmd"] == "F" and c["id"] in out and len(c["data"]) >= 4 and (c["data"][0] & 0xf0) == 0x50 and c["data"][1:4] == SKIPMAGIC[1:4]
             and "ml" not in c["flags"].split(",")]
    lines, meta = [], {}
    for c in items:
        fd = fields(out[c["id"]])
        insp = dict(x.split(":", 1) for x in fd.get("insp", "").split(",") if ":" in x)
        if "cs" not in insp:
            continue
        capv = fd.get("sk", "0:E0").split(":")[0]
        u = int.from_bytes(c["data"][4:8], "little") if len(c["data"]) >= 8 else 0
        lines.append("SK %s %d %d %s" % (c["id"], u, len(c["data"]), capv))
        meta[c["id"]] = (c, insp["cs"], fd.get("sk"))
    n = 0
    for l in run_model(model_exe, lines):
        t = l.split(" ")
        if len(t) < 4 or t[0] != "SK" or t[1] not in meta:
            continue
        c, cs, sk = meta[t[1]]
        md = dict(x.split("=") for x in t[2:])
        want_cs = "E0" if md["size"] == "E" else md["size"]
        want_sk = None if sk is None else sk.split(":")[0] + ":" + ("E0" if md["read"] == "E" else md["read"])
        n += 1
        ctx.count(("skippable", md["size"] == "E", md["read"] == "E"), nontrivial=True)
        if cs != want_cs or (len(c["data"]) >= 8 and sk != want_sk):
            ctx.violation(replay_of(c, what="skippable", observed="cs:%s sk=%s" % (cs, sk), model=" ".join(t[2:]), variant=variant),
                          what="skippable frame (%s input): ZSTD_findFrameCompressedSize = %s, ZSTD_readSkippableFrame = %s; the size model says %s" % (c["origin"], cs, sk, " ".join(t[2:])))
    ctx.notes["skippable_tie"] = n


def check_dict_owner(ctx, model_exe, items, variant):
    """O cases: ddictLocal / ddict / dictUses of the three contexts after every operation of the history must be what the model with the repaired
    ZSTD_copyDCtx says (DictOwner.dstep true, proved: no frame dereferences a released DDict, for every history); a use must succeed exactly when the
    model hands the frame a dictionary.  The verbatim-copy model names the finding."""
    if not items:
        return
    lines = []
    for c, tr, n in items:
        for m in ("fixed", "asis"):
            lines.append("O %s/%s %s %s" % (c["id"], m, m, c["flags"]))
    res = {}
    for l in run_model(model_exe, lines):
        t = l.split(" ")
        if len(t) >= 3 and t[0] == "O":
            res[t[1]] = t[2]
    n_ok = n_use = 0
    for c, tr, n in items:
        real = [x for x in tr.split(";") if x]
        st_real = [x.split("=")[0] for x in real]
        mods = {}
        for m in ("fixed", "asis"):
            mods[m] = [x for x in res.get(c["id"] + "/" + m, "").split(";") if x]
        st_fixed = [x.split("=")[0] for x in mods["fixed"]]
        st_asis = [x.split("=")[0] for x in mods["asis"]]
        ctx.count(("dictowner", len(real)), nontrivial=True)
        if st_real == st_fixed:
            n_ok += 1
            bad = None
            for r, m in zip(real, mods["fixed"]):
                if "=" in m and "=" in r:        # (a use of a context that does not exist is no operation on both sides)
                    n_use += 1
                    want_dict = not m.endswith("=none")
                    got = r.split("=", 1)[1] if "=" in r else "?"
                    if "FREED" in m or (want_dict and got != "OK:%s" % n) or (not want_dict and not got.startswith("E:")):
                        bad = (r, m)
                        break
            if bad:
                ctx.violation(replay_of(c, what="dictowner-use", observed=tr, model_fixed=";".join(mods["fixed"]), variant=variant),
                              what="dictionary ownership (history %s): a frame decoded with result %s where the model hands it %s" % (c["flags"], bad[0], bad[1]))
        elif st_real == st_asis:
            ctx.violation(replay_of(c, what="dictowner", observed=tr, model_fixed=";".join(mods["fixed"]), variant=variant),
                          what="ZSTD_copyDCtx (history %s): the copy's current dictionary is a DDict the source context owns (%s; repaired copy: %s)" % (c["flags"], tr, ";".join(mods["fixed"])),
                          key="C03-copydctx-ddict-pointer-into-source")
        else:
            ctx.violation(replay_of(c, what="dictowner", observed=tr, model_fixed=";".join(mods["fixed"]), model_aswritten=";".join(mods["asis"]), variant=variant),
                          what="dictionary fields of a context (history %s): %s follows neither the ownership model (%s) nor the verbatim copy (%s)" % (c["flags"], tr, ";".join(mods["fixed"]), ";".join(mods["asis"])))
    ctx.notes["dict_owner_traces"] = dict(total=len(items), as_model=n_ok, uses_checked=n_use)


def has_empty_op(prog):
    return any(t in ("i0", "z") for t in prog.split(","))


def crash_key(c, err):
    """stable key of a round-2 finding a sanitizer trap belongs to (None = a new one)"""
    if not c:
        return None
    if c["cmd"] == "L" and c["dict"] and len(c["dict"]) < 4 and re.search(r"ZSTDv0[56]_decompress_insertDictionary", err):
        return "C03-legacy-v05v06-short-dict-overread"
    if c["cmd"] == "K" and has_empty_op(c["flags"]) and "ZSTD_decompressBlock" in err:
        return "C03-block-api-empty-insertblock-loses-prefix"
    if c["cmd"] == "C" and "cmd_C" in err:
        return "C03-copydctx-table-pointers-into-source"
    if c["cmd"] == "R":
        return "C03-single-call-after-stream-error-keeps-stream-stage"
    if c["cmd"] == "O" and "cmd_O" in err and "heap-use-after-free" in err:
        return "C03-copydctx-ddict-pointer-into-source"
    return None


def evaluate(ctx, cd, model_exe, cases, out, crashes, npmax, variant):
    byid = {c["id"]: c for c in cases}
    for line, rc, err in crashes:
        cid = line.split(" ")[1] if " " in line else "?"
        c = byid.get(cid)
        summ = " ".join(re.findall(r"(ERROR: AddressSanitizer[^\n]*|SUMMARY:[^\n]*|runtime error:[^\n]*)", err)[:3]) or err[-300:]
        ctx.violation(dict(kind="fuzz", line=line[:1200000], origin=c["origin"] if c else "?", rc=rc, variant=variant, report=err[-2500:]),
                      what="decoder harness (%s build) died on a %s input (rc=%d): %s" % (variant, c["origin"] if c else "?", rc, summ[:400]),
                      key=crash_key(c, err))
    # reference decoder on every frame-level case
    fcases = [c for c in cases if c["cmd"] == "F" and c["id"] in out]
    rin = []
    for c in fcases:
        # w=2^32: ZSTD_decompress has no window limit of its own (no window buffer): every Window_Descriptor with
        # windowLog <= ZSTD_WINDOWLOG_MAX is accepted, mantissa included (up to 3.75 GiB).  R's default limit of 2^31 is a
        # caller policy ("limit" class), not a safety check; the window-log bound itself is site 417.
        fl = "nostrict,w=4294967296" + (",magicless" if "ml" in c["flags"].split(",") else "") + (",nocheck" if "nock" in c["flags"] else "")
        rin.append((c["id"], fl, c["dict"], c["data"]))
    t0 = time.time()
    if variant == "asan":
        mres = cd.model(rin)
        ctx.c03_R = mres                     # the other build variants are judged against the same verdicts
        core.log("R on %d frame-level cases: %.1fs" % (len(rin), time.time() - t0))
    else:
        mres = getattr(ctx, "c03_R", {})
    hist, perm, wd_items, rg_items, pathdiff, k_items, c_items, o_items = {}, {}, [], [], [], [], [], []
    stricter, sites, stricter_ex, okmut = 0, {}, {}, 0
    for c in cases:
        if c["id"] not in out:
            continue
        fd = fields(out[c["id"]])
        fl = fd.get("flags", "-")
        if fl != "-":
            if c["cmd"] == "F" and c.get("base") is None and set(fl.split(",")) <= {"PATHDIFF:strm", "PATHDIFF:strm1"}:
                pathdiff.append((c, fl))        # decided below: tolerated only for frames that break the window rule
            else:
                ctx.violation(replay_of(c, flags=fl, result=out[c["id"]][:600], variant=variant),
                              what="decoder oracle failed on a %s input (%s build): %s" % (c["origin"], variant, fl),
                              key=("C03-block-api-empty-insertblock-loses-prefix" if (c["cmd"] == "K" and fl == "EMPTYOP") else
                                   "C03-copydctx-table-pointers-into-source" if (c["cmd"] == "C" and fl == "COPYDIFF") else
                                   "C03-single-call-after-stream-error-keeps-stream-stage" if (c["cmd"] == "R" and set(fl.split(",")) <= {"RECOVER", "STAGE"}) else None))
        o = c["origin"].split(":")[0]
        hist[o] = hist.get(o, 0) + 1
        if c["cmd"] == "K" and variant == "asan":
            k_items.append((c, fd.get("ops", "-"), fd.get("cs", "-")))
        if c["cmd"] == "C" and variant == "asan" and "pt" in fd:
            c_items.append((c, fd["pt"]))
        if c["origin"].startswith("legacy-bigmatch-exact128k") and not fd.get("dctx", "").startswith("OK:131072"):
            ctx.violation(replay_of(c, result=out[c["id"]][:400], variant=variant),
                          what="a legacy frame whose compressed block regenerates exactly 128 KiB (the limit itself) is refused: %s" % fd.get("dctx", "")[:60])
        if c["cmd"] == "O" and variant == "asan" and "tr" in fd:
            o_items.append((c, fd["tr"], fd.get("n", "0")))
        if c["cmd"] != "F":
            one = fd.get("one", fd.get("blk", ""))
            ctx.count((c["cmd"], c["origin"].split("/")[0], one[:2], fd.get("ddict", "")[:8], fd.get("c3", "")[:4]), nontrivial=True)
            if c["cmd"] == "D" and c.get("base") is not None and not one.startswith("OK:" + c["base"].hex()):
                ctx.violation(replay_of(c, result=out[c["id"]][:300]), what="a valid dictionary + its frame no longer decode")
            continue
        one = fd.get("one", "")
        for k in ("strm", "strm1"):
            if variant == "asan":
                wd_items.append((c, k, fd.get("wd" if k == "strm" else "wd1", "-")))
        if variant == "asan" and fd.get("rg", "-") != "-":
            rg_items.append((c, fd["rg"]))
        m = mres.get(c["id"])
        if c.get("base") is not None:
            if one != "OK:" + (c["base"].hex() if c["base"] else "-"):
                ctx.violation(replay_of(c, result=one[:200], variant=variant), what="a valid frame is not decoded to its content by ZSTD_decompress (%s build): %s" % (variant, one[:80]))
            if m is not None and (m[0] != "OK" or m[1] != c["base"]):
                ctx.violation(replay_of(c, model=str(m[:1]) + str(m[2:3])), what="reference decoder R does not decode a valid frame: %r" % (m[0:1] + m[2:3],))
        if m is None:
            continue
        if one.startswith("OK:"):
            got = codec.unhx(one[3:])
            if c["origin"].startswith(("mut", "rand", "trunc")):
                okmut += 1
            if m[0] == "OK":
                if m[1] != got:
                    ctx.violation(replay_of(c, libzstd=one[:400], model=m[1].hex()[:400]),
                                  what="libzstd returns success with bytes that differ from the reference decoder's on a %s input" % c["origin"])
                sig = ("ok", codec.trace_signature(codec.parse_trace(m[2])), o)
                ctx.count(sig, nontrivial=len(got) > 0)
                bm = re.search(r"bound:(\d+)", fd.get("insp", ""))
                if bm and int(bm.group(1)) < len(got) and "ml" not in c["flags"]:
                    ctx.violation(replay_of(c, bound=bm.group(1), decoded=len(got)),
                                  what="ZSTD_decompressBound (%s) is smaller than the decoded size (%d) of a frame the reference decoder accepts" % (bm.group(1), len(got)))
            else:
                site = m[2]
                if site in PERMISSIVE and (m[1] in ("safety", "format") or (m[1], site) == ("trunc", 106)):
                    perm[PERMISSIVE[site][:2]] = perm.get(PERMISSIVE[site][:2], 0) + 1
                    ctx.count(("permissive", site, o), nontrivial=True)
                else:
                    ctx.violation(replay_of(c, libzstd=one[:300], model="ERR %s %s" % (m[1], m[2])),
                                  what="libzstd accepts (ZSTD_decompress returns %d bytes) a %s input that the reference decoder rejects as %s at site %s - not one of the documented permissive cases"
                                       % (len(got), c["origin"], m[1], m[2]), key="accept-%s-%s" % (m[1], m[2]))
        else:
            if m[0] == "OK":
                stricter += 1
                k = one[2:40] + ("/cap<n" if len(m[1]) > c["cap"] else "")
                stricter_ex[k] = stricter_ex.get(k, 0) + 1
                ctx.count(("libzstd-stricter", one[:30], o), nontrivial=True)
            else:
                sites["%s/%s" % (m[1], m[2])] = sites.get("%s/%s" % (m[1], m[2]), 0) + 1
                ctx.count(("rej", m[1], m[2], one[2:22], o), nontrivial=True)
        if len(c["data"]) <= 40 and c["origin"].startswith(("mut", "witness")):
            ctx.sample(dict(origin=c["origin"], data_hex=c["data"].hex(), libzstd=one[:60], R=(m[0], m[1] if m[0] == "ERR" else len(m[1]), m[2] if m[0] == "ERR" else "")))
        ctx.cov["traces_validated_against_impl"] += 1
    if pathdiff:
        # The buffered streaming decoder keeps windowSize bytes of history (ring buffer), the one-shot decoder all of the output.
        # libzstd does not enforce "offset <= windowSize" on either path, so on a frame that BREAKS the window rule (R with
        # the strict window: safety/341; without it: accepted) the two legitimately regenerate different bytes - inside
        # their buffers (the sanitizer build is what says so).  Anything else that makes two paths differ is a violation.
        strict = cd.model([(c["id"], "w=4294967296" + (",magicless" if "ml" in c["flags"].split(",") else "") + (",nocheck" if "nock" in c["flags"] else ""), c["dict"], c["data"]) for c, _ in pathdiff])
        tol = 0
        for c, fl in pathdiff:
            s = strict.get(c["id"])
            if s is not None and s[0] == "ERR" and (s[1], s[2]) == ("safety", 341):
                tol += 1
                ctx.count(("window-rule-pathdiff", c["origin"].split(":")[0]), nontrivial=True)
            else:
                ctx.violation(replay_of(c, flags=fl, result=out[c["id"]][:600], variant=variant, strict_R=str(s)[:100]),
                              what="decoder oracle failed on a %s input (%s build): %s (the frame does not break the window rule: strict R says %s)"
                                   % (c["origin"], variant, fl, str(s[:1] + s[2:3] if s else None)))
        ctx.notes["pathdiff_on_window_rule_violations_%s" % variant] = tol
    if variant == "asan":
        check_watchdog(ctx, model_exe, wd_items, npmax)
        check_continuity(ctx, model_exe, k_items, variant)
        check_ctx_pointers(ctx, model_exe, c_items, variant)
        check_dict_owner(ctx, model_exe, o_items, variant)
        check_legacy_walk(ctx, model_exe, cases, out, variant)
        check_skippable(ctx, model_exe, cases, out, variant)
        ctx.notes["ring_traces"] = check_ring(ctx, model_exe, rg_items)
        ctx.notes["origins"] = hist
        ctx.notes["permissive_cases"] = perm
        ctx.notes["R_accepts_libzstd_rejects"] = stricter
        ctx.notes["R_accepts_libzstd_rejects_by_error"] = stricter_ex
        ctx.notes["R_reject_sites"] = dict(sorted(sites.items(), key=lambda kv: -kv[1]))
        ctx.notes["libzstd_success_on_mutated_or_random"] = okmut


# --------------------------------------------------------------------------------------------------------------
# hash set tie

COLLIDE64 = [3, 47, 118, 150, 169, 295]     # XXH64(id) & 63 == 63 ; [47,118,150,169,295,453,535,596] also & 127 == 127
COLLIDE128 = [47, 118, 150, 169, 295, 453, 535, 596]


def hashset_cases(ctx, rng):
    ops = []
    ops.append(("hs-last-slot", "a3:0,a47:1,g3,g47,g5"))
    ops.append(("hs-last-slot-many", ",".join("a%d:%d" % (d, i) for i, d in enumerate(COLLIDE64)) + "," + ",".join("g%d" % d for d in COLLIDE64)))
    ops.append(("hs-grow-last-slot", ",".join("a%d:%d" % (d, i) for i, d in enumerate(list(range(1000, 1017)) + COLLIDE128)) + "," + ",".join("g%d" % d for d in COLLIDE128 + [1000, 1016, 9])))
    ops.append(("hs-id0", "a0:7,a26:1,g26,g0,g21"))
    ops.append(("hs-replace", "a5:0,a5:1,a5:2,g5"))
    n = 60 if ctx.quick else 600
    for i in range(n):
        pool = rng.choice([COLLIDE64, COLLIDE128, list(range(1, 40)), [rng.randrange(1, 1 << 32) for _ in range(300)], COLLIDE64 + [0, 21, 26] + list(range(1, 30))])
        k = rng.choice([1, 2, 5, 15, 16, 17, 31, 33, 64, 65, 130, 260] if not ctx.quick else [1, 2, 5, 15, 16, 17, 33, 65, 130])
        seq = []
        for j in range(k):
            d = rng.choice(pool) if rng.random() < 0.8 else rng.randrange(1, 1 << 32)
            seq.append("a%d:%d" % (d, j))
            if rng.random() < 0.2:
                seq.append("g%d" % rng.choice(pool))
        seq += ["g%d" % rng.choice(pool) for _ in range(6)]
        ops.append(("hs-rand%d" % i, ",".join(seq)))
    return ops


def hashset_tie(ctx, model_exe):
    exe = core.build_harness("c03_ddict", ["c03_ddict.c"], variant="asan", extra_flags=["-w"])
    rng = random.Random(ctx.seed * 7919 + 3)
    ops = hashset_cases(ctx, rng)
    cout, crashes = run_lines(exe, ["H %s %s" % (i, o) for i, o in ops], nproc=8, out_id_index=1)
    mout = {l.split(" ")[1]: l for l in run_model(model_exe, ["H %s fixed %s" % (i, o) for i, o in ops])}
    for line, rc, err in crashes:
        summ = " ".join(re.findall(r"(ERROR: AddressSanitizer[^\n]*|SUMMARY:[^\n]*)", err)[:2]) or err[-300:]
        ctx.violation(dict(kind="hashset", line=line, rc=rc, report=err[-2500:]),
                      what="multi-DDict hash set: sanitizer trap / crash on insertion sequence %s: %s" % (line[:120], summ[:300]))
    for i, o in ops:
        c = cout.get(i)
        if c is None:
            continue
        c = "H %s %s" % (i, c.split(" sel=")[0])
        m = mout.get(i, "missing")
        nadd = o.count("a")
        ctx.count(("hs", m.split(" ")[2], re.search(r"size=(\d+)", m).group(1) if "size=" in m else "-", min(nadd, 20)), nontrivial=nadd >= 2)
        ctx.cov["traces_validated_against_impl"] += 1
        if c != m:
            ctx.violation(dict(kind="hashset", line="H %s %s" % (i, o), impl=c[:1500], model=m[:1500]),
                          what="multi-DDict hash set: table / lookups of the real code differ from the model after %d insertions (%s)" % (nadd, i))
    # the model-side refutation of the pre-fix probing, replayed on the model (documentation of what the mutation does)
    pre = run_model(model_exe, ["H pre prefix a3:0,a47:1"])
    ctx.notes["prefix_probing_model"] = pre[0] if pre else "?"
    # insertion sequences on which the MODEL of the current code leaves the table / does not terminate (used by SEARCH
    # when a hash-set theorem no longer checks, e.g. after a change of the regenerated constants)
    ctx.hs_model_bad = [("H %s %s" % (i, o), mout.get(i, "")) for i, o in ops if " OK " not in mout.get(i, " OK ")]
    return ops


# --------------------------------------------------------------------------------------------------------------
# literal buffer placement tie (model coq/Safety/LitBuffer.v vs ZSTD_decodeLiteralsBlock of the current sources)

LIT_ERR = {"LitGtBlock": "Data_corruption_detected", "CSizeGtSrc": "Data_corruption_detected", "RawGtSrc": "Data_corruption_detected",
           "FourStreams": "Header_of_Literals__block_doesn_t_respect_format_specification", "DstTooSmall": "Destination_buffer_is_too_small"}


def lit_header(kind, n, rng):
    """literals section header for raw (0) / RLE (1) literals of regenerated size n, in a randomly chosen legal width"""
    forms = [f for f, lim in ((0, 32), (1, 4096), (3, 1 << 20)) if n < lim]
    sf = rng.choice(forms)
    if sf == 0:
        return bytes([kind | (n << 3)])        # 1-bit size format '0'; bit 3 is the low bit of the size
    v = kind | (sf << 2) | (n << 4)
    return v.to_bytes(2 if sf == 1 else 3, "little")


def parse_lit_header(b):
    """-> (kind string, lhSize, litSize, litCSize) of a literals section, or None"""
    if len(b) < 5:
        return None
    lt, sf = b[0] & 3, (b[0] >> 2) & 3
    if lt < 2:
        lh = 1 if sf in (0, 2) else (2 if sf == 1 else 3)
        hv = int.from_bytes(b[:lh], "little")
        return ("raw" if lt == 0 else "rle", lh, hv >> 3 if sf in (0, 2) else hv >> 4, 0)
    lh = 3 if sf < 2 else (4 if sf == 2 else 5)
    nb = 10 if sf < 2 else (14 if sf == 2 else 18)
    hv = int.from_bytes(b[:lh], "little")
    return ("huf1" if sf == 0 else "huf4", lh, (hv >> 4) & ((1 << nb) - 1), (hv >> (4 + nb)) & ((1 << nb) - 1), lt)


def litbuf_tie(ctx, model_exe, valid):
    exe = core.build_harness("c03_litbuf", ["c03_litbuf.c"], variant="asan", extra_flags=["-w"])
    rng = random.Random(ctx.seed * 104729 + 11)
    W, EXTRA = gen_tables_const("c_WILDCOPY_OVERLENGTH"), gen_tables_const("c_ZSTD_LITBUFFEREXTRASIZE")
    cases = []      # (id, kind, B, cap, streaming, src bytes, lh, n, cs, comparable_on_ok)

    def caps(B, n):
        return [0, 1, max(n - 1, 0), n, n + 1, B - 1, B, B + 1, B + 2 * W + n - 1, B + 2 * W + n, B + 2 * W + n + 1, 400000,
                EXTRA, EXTRA + 1, n + W, rng.randrange(0, 300000)]
    ns_all = [0, 1, 5, 6, 31, 32, 100, 1023, 1024, 1025, 4095, 4096, EXTRA - 1, EXTRA, EXTRA + 1, EXTRA + W, EXTRA + 2 * W, 69999, 70000, 70001,
              100000, 131071, 131072, 131073, 200000]
    nsyn = 700 if ctx.quick else 6000
    for i in range(nsyn):
        B = rng.choice([1024, 4096, EXTRA, EXTRA + 1, 70000, 131072, 131072, 131072])
        n = rng.choice(ns_all) if rng.random() < 0.85 else rng.randrange(0, 140000)
        cap = rng.choice(caps(B, n))
        st = rng.randrange(2)
        if rng.random() < 0.5:
            hdr = lit_header(0, n, rng)
            avail = max(0, rng.choice([n - 1, n, n, n + W - 1, n + W, n + W + 1, n + 100]))
            if len(hdr) + avail < 4:
                avail = 4 - len(hdr)
            src = hdr + bytes((7 * k + i) & 255 for k in range(avail))
            cases.append(("s%d" % i, "raw", B, cap, st, src, len(hdr), n, 0, True))
        else:
            hdr = lit_header(1, n, rng)
            src = hdr + bytes([65 + i % 26]) + bytes(rng.choice([0, 0, 3, 40]))
            if len(src) < 4:
                src += bytes(4 - len(src))
            cases.append(("s%d" % i, "rle", B, cap, st, src, len(hdr), n, 0, True))
    # Huffman-compressed literal sections of real frames (the decoding really runs into the chosen buffer)
    k = 0
    for fr, st_, d, x in valid:
        if not st_:
            continue
        for bo, bt, co, cl in st_["blocks"]:
            if bt != 2 or cl < 5:
                continue
            body = fr[co:co + cl]
            ph = parse_lit_header(body)
            if not ph or ph[0] not in ("huf1", "huf4") or ph[4] != 2:
                continue
            kind, lh, n, cs = ph[:4]
            for cap in rng.sample(caps(131072, n), 5 if ctx.quick else 12):
                for B in ([131072] if n <= 1024 else [131072, max(n, 1024), max(n - 1, 1024)]):
                    cases.append(("h%d" % k, kind, B, cap, rng.randrange(2), body, lh, n, cs, True))
                    k += 1
            # the same section with a mutated header: the size checks come before the decoding, so an error verdict of the
            # model must be the verdict of the code; when the model accepts, a Huffman failure of the code is not comparable
            for _ in range(2):
                mb = bytearray(body)
                j = rng.randrange(lh)
                mb[j] = mut_byte(rng, mb[j])
                ph2 = parse_lit_header(bytes(mb))
                if ph2 and ph2[0] in ("huf1", "huf4") and ph2[4] == 2:
                    cases.append(("h%d" % k, ph2[0], 131072, rng.choice(caps(131072, ph2[2])), rng.randrange(2), bytes(mb), ph2[1], ph2[2], ph2[3], False))
                    k += 1
            if k > (900 if ctx.quick else 9000):
                break
    clines = ["P %s %d %d %d %s" % (c[0], c[2], c[3], c[4], codec.hx(c[5])) for c in cases]
    mlines = ["P %s %s %d %d %d %d %d %d %d" % (c[0], c[1], c[2], c[3], len(c[5]), c[6], c[7], c[8], c[4]) for c in cases]
    t0 = time.time()
    cout, crashes = run_lines(exe, clines, out_id_index=1)
    mout = {l.split(" ")[1]: l.split(" ", 2)[2] for l in run_model(model_exe, mlines)}
    for line, rc, err in crashes:
        summ = " ".join(re.findall(r"(ERROR: AddressSanitizer[^\n]*|SUMMARY:[^\n]*|runtime error:[^\n]*)", err)[:3]) or err[-300:]
        ctx.violation(dict(kind="litbuf", line=line[:1200000], rc=rc, report=err[-2500:]),
                      what="ZSTD_decodeLiteralsBlock: sanitizer trap / crash (rc=%d) on %s...: %s" % (rc, line[:60], summ[:300]))
    nsplit = 0
    for c in cases:
        cid = c[0]
        got, want = cout.get(cid), mout.get(cid)
        if got is None or want is None:
            continue
        ctx.cov["traces_validated_against_impl"] += 1
        if want.startswith("ERR "):
            exp = "ERR " + LIT_ERR[want[4:]]
            ok = got == exp
            sig = ("litbuf", c[1], want, c[4])
        else:
            exp = want
            ok = got == exp or (not c[9] and got == "ERR Data_corruption_detected")
            loc = re.search(r"loc=(\d) ptr=(\w+)", want).groups()
            nsplit += loc[0] == "2"
            sig = ("litbuf", c[1], loc, c[4], c[7] > EXTRA, c[3] >= c[2])
        ctx.count(sig, nontrivial=True)
        if not ok:
            ctx.violation(dict(kind="litbuf", line="P %s %d %d %d %s" % (cid, c[2], c[3], c[4], codec.hx(c[5]))[:1200000],
                               model_line="P %s %s %d %d %d %d %d %d %d" % (cid, c[1], c[2], c[3], len(c[5]), c[6], c[7], c[8], c[4]), impl=got, model=exp),
                          what="literal buffer placement of ZSTD_decodeLiteralsBlock differs from the model (%s literals, litSize %d, blockSizeMax %d, dstCapacity %d, %s): code %s, model %s"
                               % (c[1], c[7], c[2], c[3], "streaming" if c[4] else "not streaming", got[:90], exp[:90]))
    ctx.notes["litbuf_cases"] = len(cases)
    ctx.notes["litbuf_split_placements"] = nsplit
    core.log("literal buffer tie: %d cases in %.1fs" % (len(cases), time.time() - t0))


# --------------------------------------------------------------------------------------------------------------
# unit-level tie of the entropy-table readers (HUF_readStats, FSE_readNCount vs R's read_huf_weights / read_ncount)

def entropy_sources(rng, valid, gdict, quick):
    """-> [(kind 'UH'|'UN', maxSV, bytes, origin)]"""
    src = []
    for fr, st, d, x in valid:
        if not st:
            continue
        for bo, bt, co, cl in st["blocks"]:
            if bt != 2 or cl < 5:
                continue
            body = fr[co:co + cl]
            ph = parse_lit_header(body)
            if not ph:
                continue
            lh, n, cs = ph[1], ph[2], ph[3]
            if ph[0] in ("huf1", "huf4"):
                if ph[4] == 2:
                    src.append(("UH", 0, body[lh:lh + cs], "real"))
                p = lh + cs
            else:
                p = lh + (n if ph[0] == "raw" else 1)
            if p >= len(body):
                continue
            b0 = body[p]
            if b0 == 0:
                continue
            p += 1 if b0 < 128 else (3 if b0 == 255 else 2)
            if p >= len(body):
                continue
            modes = body[p]
            p += 1
            for msv, m in ((35, modes >> 6), (31, (modes >> 4) & 3), (52, (modes >> 2) & 3)):
                if m == 1:
                    p += 1
                elif m == 2:
                    src.append(("UN", msv, body[p:p + 80], "real"))
                    break         # the next table starts where this one ends: known only after reading it
    src.append(("UH", 0, gdict["dict"][8:8 + 200], "real"))
    real = list(src)
    rng.shuffle(real)
    real = real[:(60 if quick else 400)]
    out = list(real)
    # crafted: the limits of the readers
    for hx in ("81cc", "82ccc0", "81c0", "8110", "8100", "80", "ff" + "11" * 64, "fe" + "11" * 64, "8fcccccccccccccccc", "83ccc1", "821230", "8211",
               "00", "01", "0130", "7f" + "00" * 10):
        out.append(("UH", 0, bytes.fromhex(hx), "crafted"))
    for msv in (35, 31, 52, 255, 0, 1):
        for hx in ("0f", "0a0000", "0b0000000000", "05000200", "e30200", "10feffff01", "00", "0000", "ffffffffffffffff", "4a" + "00" * 8, "0c" + "ff" * 12, "06" + "55" * 20):
            out.append(("UN", msv, bytes.fromhex(hx), "crafted"))
    nm = 500 if quick else 5000
    for i in range(nm):
        k, msv, b, _ = rng.choice(real) if real and rng.random() < 0.85 else rng.choice(out)
        b = bytearray(b)
        r = rng.random()
        if r < 0.7 and b:
            for _ in range(rng.choice([1, 1, 2, 3])):
                j = rng.randrange(min(len(b), 24)) if rng.random() < 0.8 else rng.randrange(len(b))
                b[j] = mut_byte(rng, b[j])
        elif r < 0.85 and b:
            b = b[:rng.randrange(len(b))]
        else:
            b = bytearray(rng.randbytes(rng.choice([1, 2, 3, 5, 9, 20, 60])))
        if k == "UN" and rng.random() < 0.2:
            msv = rng.choice([0, 1, 20, 31, 35, 52, 255])
        out.append((k, msv, bytes(b), "mutated"))
    return out


def entropy_tie(ctx, model_exe, valid, gdict):
    exe = core.build_harness("c03_entropy", ["c03_entropy.c"], variant="asan", extra_flags=["-w"])
    rng = random.Random(ctx.seed * 15485863 + 5)
    srcs = entropy_sources(rng, valid, gdict, ctx.quick)
    lines = []
    for i, (k, msv, b, origin) in enumerate(srcs):
        lines.append("%s u%d %s%s" % (k, i, ("%d " % msv) if k == "UN" else "", codec.hx(b)))
    t0 = time.time()
    cout, crashes = run_lines(exe, lines, out_id_index=1)
    mout = {l.split(" ")[1]: l.split(" ", 2)[2] for l in run_model(model_exe, lines)}
    for line, rc, err in crashes:
        summ = " ".join(re.findall(r"(ERROR: AddressSanitizer[^\n]*|SUMMARY:[^\n]*|runtime error:[^\n]*)", err)[:3]) or err[-300:]
        ctx.violation(dict(kind="entropy", line=line[:100000], rc=rc, report=err[-2500:]),
                      what="%s: sanitizer trap / crash (rc=%d) on the table description %s: %s"
                           % ("HUF_readStats" if line.startswith("UH") else "FSE_readNCount", rc, line.split(" ")[-1][:60], summ[:300]))

    def canon(s):
        f = fields(s)
        v = [x for x in f.get("w", f.get("c", "")).split(",") if x]
        if "c" in f:
            while v and v[-1] == "0":
                v.pop()
        return (f.get("used"), f.get("log"), tuple(v))
    stricter = perm4 = 0
    for i, (k, msv, b, origin) in enumerate(srcs):
        cid = "u%d" % i
        got, want = cout.get(cid), mout.get(cid)
        if got is None or want is None:
            continue
        ctx.cov["traces_validated_against_impl"] += 1
        okc, okm = got.startswith("OK"), want.startswith("OK")
        ctx.count(("entropy", k, okc, want[:14] if not okm else "ok", origin, canon(want)[1] if okm else None), nontrivial=True)
        if origin == "real" and not (okc and okm):
            ctx.violation(dict(kind="entropy", line=lines[i], impl=got[:300], model=want[:300]),
                          what="a table description taken from a valid frame is refused (%s: code %s, reference reader %s)" % (k, got[:40], want[:40]))
        elif okc and not okm and k == "UN" and not want.startswith("ERR format/104"):
            # FSE_readNCount near the end of its buffer wraps its bit counter (bitCount &= 31) and goes on with stale bits
            # of the last 32-bit word where the reference reader runs out of bits (documented permissive case P4): the two
            # cannot agree there.  What the decoder relies on afterwards is checked directly below (post-conditions).
            perm4 += 1
        elif okc and not okm:
            ctx.violation(dict(kind="entropy", line=lines[i], impl=got[:300], model=want[:300]),
                          what="%s accepts a table description (%s) that the reference reader rejects (%s): %s"
                               % ("HUF_readStats" if k == "UH" else "FSE_readNCount", b.hex()[:40], want[4:], got[:80]))
        elif okc and okm and canon(got) != canon(want):
            ctx.violation(dict(kind="entropy", line=lines[i], impl=got[:600], model=want[:600]),
                          what="%s and the reference reader disagree on an accepted table description %s: %s vs %s"
                               % ("HUF_readStats" if k == "UH" else "FSE_readNCount", b.hex()[:40], got[:80], want[:80]))
        elif okm and not okc:
            stricter += 1
        if okc:
            # post-conditions the table builders rely on, whatever the reference reader says
            used, log, v = canon(got)
            used, log = int(used), int(log)
            bad = None
            if used > len(b) and not (k == "UN" and len(b) < 8):
                bad = "reports %d bytes consumed out of %d" % (used, len(b))
            elif k == "UN":
                vals = [int(x) for x in fields(got).get("c", "").split(",") if x]
                if log > 15 or log < 5:
                    bad = "table log %d outside [5, FSE_TABLELOG_ABSOLUTE_MAX=15]" % log
                elif sum(abs(x) for x in vals) != (1 << log):
                    bad = "normalized counts sum to %d, not 2^%d" % (sum(abs(x) for x in vals), log)
                elif len(vals) > msv + 1:
                    bad = "%d symbols for maxSymbolValue %d" % (len(vals), msv)
            else:
                ws = [int(x) for x in v]
                if log > 12 or log < 1:
                    bad = "table log %d outside [1, HUF_TABLELOG_MAX=12]" % log
                elif any(w > 12 for w in ws) or len(ws) > 256:
                    bad = "weight > 12 or more than 256 symbols"
                elif sum((1 << (w - 1)) for w in ws if w) != (1 << log):
                    bad = "weights do not fill a table of 2^%d cells" % log
            if bad:
                ctx.violation(dict(kind="entropy", line=lines[i], impl=got[:600], model=want[:300]),
                              what="%s returns success with a result the table builder cannot rely on: %s (%s)"
                                   % ("HUF_readStats" if k == "UH" else "FSE_readNCount", bad, got[:80]))
    ctx.notes["entropy_unit_cases"] = len(srcs)
    ctx.notes["entropy_R_accepts_code_rejects"] = stricter
    ctx.notes["entropy_permissive_P4"] = perm4
    core.log("entropy reader tie: %d cases in %.1fs" % (len(srcs), time.time() - t0))


def gen_tables_const(name):
    txt = open(os.path.join(core.COQ, "Gen", "Gen_Tables.v")).read()
    return int(re.search(r"Definition %s : N := (\d+)%%N" % name, txt).group(1))


# --------------------------------------------------------------------------------------------------------------

def get_witnesses(ctx, model_exe):
    ws = []
    for l in run_model(model_exe, ["W"]):
        t = l.split(" ")
        if t[0] != "W":
            continue
        name, cls, site, hx = t[1], t[2], int(t[3]), t[4]
        r = t[5].split("=")[1]
        if r != "%s/%d" % (cls, site):
            ctx.violation(dict(kind="witness", name=name), what="extracted R does not reject witness %s at its site: %s" % (name, r), no_input=True)
        ws.append((name, cls, site, codec.unhx(hx)))
    return ws


def get_gdict(exe):
    p = subprocess.run([exe], input=b"G g 20250\n", stdout=subprocess.PIPE, stderr=subprocess.PIPE, timeout=120)
    fd = fields(p.stdout.decode().strip().split(" ", 1)[1])
    d = codec.unhx(fd["dict"])
    content = d[-600:]
    return dict(dict=d, frame=codec.unhx(fd["frame"]), plain=codec.unhx(fd["plain"]), content=content)


def run(ctx):
    ctx.cov["rule"] = (
        "inputs = (a) the Coq necessity witnesses (one byte string per bound check of R, exported by extraction), (b) frames emitted by the real "
        "compressor (input kind x size x random parameter vector, one-shot and streaming-with-flushes, with/without dictionary) under structure-aware "
        "mutation: bytes of frame header / block headers / literals header / Huffman description + jump table / last literal bytes / nbSeq + modes / "
        "FSE descriptions / last bitstream bytes / checksum, truncation (every byte for small frames), extension, block splicing between frames, "
        "(c) random bytes behind a valid magic, random structured headers, skippable frames, (d) dictionaries: random bytes, valid header with "
        "mutated entropy tables, on the DDict/DCtx and CDict sides, (e) legacy v0.5-v0.7 frames from tests/legacy.c mutated (sanitizer only), "
        "(f) multi-DDict insertion sequences with dictIDs colliding in the last slot, dictID 0, replacement, growth, (g) literals sections (raw / RLE "
        "synthetic over sizes x capacities x block limits at every threshold, Huffman sections of the real frames incl. > 64 KiB literals) against "
        "the placement model, (h) small-window frames that make the streaming ring buffer restart, traced block by block against the ring model, "
        "(i) entropy-table descriptions (real, crafted, mutated) through HUF_readStats / FSE_readNCount with exact-size outputs against R's readers; "
        "every frame-level input goes through one-shot, DCtx, DDict, multi-DDict, streaming under two segmentations (incl. byte-by-byte), buffer-less, "
        "block-level, and the inspectors in an ASan+UBSan build; distinct = (R's verdict: trace signature or (class, site)) x libzstd verdict x origin, "
        "watchdog trace shapes, hash-set shapes, placement shapes, ring shapes, reader verdicts; non-trivial = not an empty success")
    ctx.prove()
    npmax = gen_const("NO_FORWARD_PROGRESS_MAX")
    model_exe = core.build_extracted("c03model", "Extract/Extract_C03.v", "c03_driver.ml")
    defs = ["-DZSTD_NO_FORWARD_PROGRESS_MAX_FOR_HARNESS=%d" % npmax]
    exe = core.build_harness("c03_fuzz", ["c03_fuzz.c"], variant="asan", extra_flags=defs)
    cd = codec.Codec(ctx, variant="o1")

    if ctx.replay_file:
        rp = json.load(open(ctx.replay_file))["replay"]
        if rp.get("kind") == "hashset":
            dd = core.build_harness("c03_ddict", ["c03_ddict.c"], variant="asan", extra_flags=["-w"])
            cout, crashes = run_lines(dd, [rp["line"]], nproc=1, out_id_index=1)
            t = rp["line"].split(" ")
            mout = run_model(model_exe, ["H %s fixed %s" % (t[1], t[2])])
            core.log("impl :", cout, crashes)
            core.log("model:", mout)
            i = rp["line"].split(" ")[1]
            if crashes or "H %s %s" % (i, cout.get(i, "").split(" sel=")[0]) != (mout[0] if mout else ""):
                ctx.violation(rp, what="replay: multi-DDict hash set still differs from the model / traps")
        elif rp.get("kind") == "entropy":
            en = core.build_harness("c03_entropy", ["c03_entropy.c"], variant="asan", extra_flags=["-w"])
            cout, crashes = run_lines(en, [rp["line"]], nproc=1, out_id_index=1)
            mout = run_model(model_exe, [rp["line"]])
            core.log("impl :", cout, [x[1:] for x in crashes])
            core.log("model:", mout)
            i = rp["line"].split(" ")[1]
            if crashes or (cout.get(i, "").startswith("OK") and not (mout and mout[0].split(" ", 2)[2] == cout.get(i))):
                ctx.violation(rp, what="replay: entropy table reader still traps / accepts what the reference reader does not accept identically")
        elif rp.get("kind") == "libfuzzer":
            exes = build_fuzz_targets()
            if exes is None:
                core.log("clang not installed: cannot replay a libFuzzer report")
            else:
                import tempfile
                with tempfile.NamedTemporaryFile(suffix=".bin") as tf:
                    tf.write(bytes.fromhex(rp.get("input", "")))
                    tf.flush()
                    q = subprocess.run([exes[rp["target"]], tf.name], stdout=subprocess.PIPE, stderr=subprocess.STDOUT, timeout=300)
                core.log("libFuzzer target %s on the saved input: rc=%d %s" % (rp["target"], q.returncode, q.stdout.decode("utf-8", "replace")[-600:]))
                if q.returncode != 0:
                    ctx.violation(rp, what="replay: libFuzzer target %s still reports on the saved input" % rp["target"])
        elif rp.get("kind") == "litbuf":
            lb = core.build_harness("c03_litbuf", ["c03_litbuf.c"], variant="asan", extra_flags=["-w"])
            cout, crashes = run_lines(lb, [rp["line"]], nproc=1, out_id_index=1)
            mout = run_model(model_exe, [rp["model_line"]]) if rp.get("model_line") else []
            core.log("impl :", cout, [x[1:] for x in crashes])
            core.log("model:", mout)
            i = rp["line"].split(" ")[1]
            want = mout[0].split(" ", 2)[2] if mout else ""
            exp = ("ERR " + LIT_ERR.get(want[4:], "?")) if want.startswith("ERR ") else want
            if crashes or cout.get(i) != exp:
                ctx.violation(rp, what="replay: literal buffer placement still differs from the model / traps")
        else:
            line = rp["line"]
            t = line.split(" ")
            c = dict(id=t[1], cmd=t[0], flags=t[2], dict=codec.unhx(t[3]) if t[3] != "-" else None, data=codec.unhx(t[4]),
                     cap=int(t[5]), seed=int(t[6]), origin=rp.get("origin", "replay"), base=None)
            vexe, vname = exe, "asan"
            if rp.get("variant") == "msan":
                vexe, vname = (build_msan_harness(defs) or exe), "msan"
            elif rp.get("variant") == "asan-legacy1":
                vexe, vname = core.build_harness("c03_fuzz", ["c03_fuzz.c"], variant="asan", extra_defs=LEGACY14_DEFS, extra_flags=list(defs)), "asan-legacy1"
            elif rp.get("variant") == "asan-debuglevel1":
                vexe, vname = core.build_harness("c03_fuzz", ["c03_fuzz.c"], variant="asan", extra_defs=["-DDEBUGLEVEL=1"], extra_flags=list(defs)), "asan-debuglevel1"
            out, crashes = run_lines(vexe, [line], nproc=1)
            core.log("impl (%s):" % vname, {k: v[:300] for k, v in out.items()}, [x[1:] for x in crashes])
            evaluate(ctx, cd, model_exe, [c], out, crashes, npmax, "asan" if vname == "asan" else vname)
        ctx.count(("replay",), nontrivial=True)
        ctx.proof_verdict(None)
        return

    witnesses = get_witnesses(ctx, model_exe)
    ctx.notes["witnesses"] = len(witnesses)
    t0 = time.time()
    ops = hashset_tie(ctx, model_exe)
    core.log("hash set tie: %d sequences in %.1fs" % (len(ops), time.time() - t0))

    rng = random.Random(ctx.seed)
    gdict = get_gdict(exe)
    # observation O1 (docs/C03.md): the hostage-release call can be the limit-th zero-progress call with input and output
    # available - the assert(0) site of the accounting code (compiled out in the build under test).  Recorded, not a verdict.
    pa = subprocess.run([exe], input=b"A a\n", stdout=subprocess.PIPE, stderr=subprocess.PIPE, timeout=60)
    fa = fields(pa.stdout.decode().strip())
    ctx.notes["O1_hostage_release_probe"] = dict(counter_after_release=fa.get("counter"), ret=fa.get("r"), content_ok=fa.get("ok"), limit=npmax,
                                                 assert_site_reached=(fa.get("counter", "").isdigit() and int(fa["counter"]) >= npmax and fa.get("r") == "0"))
    if pa.returncode != 0 or fa.get("ok") != "1":
        ctx.violation(dict(kind="probe", line="A a", rc=pa.returncode, result=pa.stdout.decode()[:300], report=pa.stderr.decode()[-1500:]),
                      what="hostage-byte probe: a valid frame streamed with a late last byte is not decoded correctly / the decoder died (rc=%d): %s"
                           % (pa.returncode, pa.stdout.decode()[:120]))
    cases = make_cases(ctx, rng, cd, witnesses, gdict)
    litbuf_tie(ctx, model_exe, ctx.c03_valid)
    entropy_tie(ctx, model_exe, ctx.c03_valid, gdict)
    t0 = time.time()
    out, crashes = run_lines(exe, [case_line(c) for c in cases])
    core.log("asan harness: %d cases in %.1fs (%d crashes)" % (len(cases), time.time() - t0, len(crashes)))
    evaluate(ctx, cd, model_exe, cases, out, crashes, npmax, "asan")
    ctx.notes["cases"] = len(cases)
    msan_pass(ctx, defs, cases, out)
    legacy14_pass(ctx, defs)

    # the witnesses must be rejected by every decoding path of the real code, except the documented one-shot cases
    for c in cases:
        if c["origin"].startswith("witness:") and c["id"] in out and c["cap"] == 4096:
            fd = fields(out[c["id"]])
            site = [w[2] for w in witnesses if "witness:" + w[0] == c["origin"]][0]
            acc = [k for k in ("one", "dctx", "strm", "strm1", "cont") if fd.get(k, "").startswith("OK")]
            allowed = ("one", "dctx", "strm1", "cont") if site in PERMISSIVE else ()
            bad = [k for k in acc if k not in allowed]
            if bad:
                ctx.violation(replay_of(c, accepted_by=bad, result=out[c["id"]][:400]),
                              what="necessity witness %s (R rejects it at site %d) is accepted by libzstd path(s) %s" % (c["origin"][8:], site, ",".join(bad)))
            if site in PERMISSIVE and fd.get("strm", "").startswith("OK"):
                ctx.violation(replay_of(c, result=out[c["id"]][:400]),
                              what="witness %s: the buffered streaming decoder no longer enforces Block_Maximum_Size" % c["origin"][8:])

    if not ctx.quick or os.environ.get("C03_ASSERT_VARIANT"):        # (the variable lets the quick case set go through it: used by the mutation tests)
        debug_pass(ctx, defs, cases)
    if not ctx.quick or os.environ.get("C03_FUZZ_PHASE"):            # (the variable runs a tenth of the thorough run counts in the quick tier)
        fuzz_phase(ctx, gdict)
    if not ctx.quick:
        # other decoder build variants: same inputs, same oracles except the sanitizer; outputs must equal the asan build's
        vtol = {}
        ctx.notes["variant_differences_on_permissive_invalid_frames"] = vtol
        for variant in ("noasm", "x1", "x2"):
            vexe = core.build_harness("c03_fuzz", ["c03_fuzz.c"], variant=variant, extra_flags=defs)
            sub = [c for c in cases if c["cmd"] in ("F", "B", "K")]
            vout, vcr = run_lines(vexe, [case_line(c) for c in sub])
            evaluate(ctx, cd, model_exe, sub, vout, vcr, npmax, variant)
            for c in sub:
                a, b = out.get(c["id"]), vout.get(c["id"])
                if a is None or b is None:
                    continue
                fa, fb = fields(a), fields(b)
                ka = fa.get("one", fa.get("blk"))
                kb = fb.get("one", fb.get("blk"))
                if ka != kb:
                    m = getattr(ctx, "c03_R", {}).get(c["id"])
                    if m is None and c["cmd"] == "B" and len(c["data"]) < (1 << 21):
                        # a bare block body (round 2): the reference decoder judges it wrapped into a frame (window 128 KiB, one last compressed block)
                        n = len(c["data"])
                        hv = 1 | (2 << 1) | (n << 3)
                        wrapped = MAGIC + bytes([0x00, 0x38, hv & 255, (hv >> 8) & 255, hv >> 16]) + c["data"]
                        m = cd.model([(c["id"], "nostrict,w=4294967296", None, wrapped)]).get(c["id"])
                    if m is not None and m[0] == "ERR" and m[2] in PERMISSIVE:
                        # an invalid frame at one of the documented leniencies (P1-P4): which Huffman decoder (X1 / X2 / asm) notices
                        # a literal stream that is not consumed exactly differs by construction; both stay inside their buffers
                        vtol[variant] = vtol.get(variant, 0) + 1
                        ctx.count(("variant-leniency", variant, m[2]), nontrivial=True)
                    else:
                        ctx.violation(replay_of(c, asan=ka[:200], other=kb[:200], variant=variant, R=str(m[:1] + m[2:3]) if m else None),
                                      what="decoder build variant %s gives a different result than the default build on a %s input (reference decoder: %s)"
                                           % (variant, c["origin"], (m[0], m[2] if m[0] == "ERR" else len(m[1])) if m else "not a frame-level case"))

    def search(broken):
        # a hash-set theorem that no longer checks: the model (which follows the regenerated constants) names the
        # insertion sequences that leave the table; they are replayable on the real code under ASan
        found = []
        for line, res in getattr(ctx, "hs_model_bad", [])[:3]:
            found.append((dict(kind="hashset", line=line, model=res[:300]),
                          "multi-DDict hash set: the model of the current code leaves the table on %s: %s" % (line[:80], res[:80])))
        return found
    ctx.proof_verdict(search)
