"""C14 - memory budgets hold: estimates suffice, static contexts, decoder window limit.

Decision: Coq theorems (coq/Props/Properties_C14.v) about the executable models coq/Mem/Cwksp.v (workspace bump
allocator), coq/Mem/Estimate.v (parameter resolution, estimate side, reservation side) and coq/Mem/DBuffers.v
(decoder buffer sizing / window gate / oversize-shrink rule), tied to the current /repo by
  (T) sizeofs / macro values / the level table regenerated into coq/Gen/Gen_C14.v (theorems re-checked against them),
  (C) correspondence of the extracted models with the real code (harness/c14_harness.c, libzstd rebuilt from the tree):
      estimate VALUES (all levels, random cParams, random CCtx_params), static-context SESSIONS inside PROT_NONE
      guard pages with the reservation log compared entry by entry (pointer and size), static CDict / DDict,
      the streaming decoder's buffer sizes / rejections / allocations on hand-made frames;
and supported (not replaced) by the direct oracle: "a context of exactly the estimate completes the operation and
touches nothing outside; a smaller one fails cleanly; sizeof never under-reports; the decoder rejects windows above
the limit before allocating and never exceeds the budget".
Round 2 (tie_round2, harness/c14_own.c, models coq/Mem/DOwner.v, CDictLevel.v, C14Round2.v): what a DCtx owns and reports
along histories of operations, static contexts never reach an allocator, ZSTD_copyDCtx, legacy frames vs the window limit,
ZSTD_estimateDStreamSize_fromFrame, static CDict from a level, raw cParams through ZSTD_compress_advanced."""
import json
import os
import random

from zv import core

PID = "C14"
OWN_FLAGS = ["-w", "-Wl,--wrap=malloc", "-Wl,--wrap=calloc"]    # harness/c14_own.c counts every malloc/calloc of the process
UNKNOWN = (1 << 64) - 1
KB = 1 << 10
LEVELS = None  # filled from Gen_C14


def hx(v):
    return "%x" % v if v >= 0 else "-%x" % (-v)


class Proc:
    def __init__(self, exe, env=None, prefix=None):
        self.exe = exe
        self.env = dict(os.environ, **env) if env else None
        self.prefix = prefix        # a line sent first to every process (model: "RZ 80" = redzone of the ASAN build)

    def _raw(self, lines, timeout):
        send = ([self.prefix] if self.prefix else []) + list(lines)
        rc, out, err = core.sh([self.exe], inp=("\n".join(send) + "\n").encode(), timeout=timeout, env=self.env)
        res = out.split("\n")
        if res and res[-1] == "":
            res.pop()
        if self.prefix and res:
            res.pop(0)
        return rc, res, err

    def run(self, lines, timeout=900):
        if not lines:
            return []
        rc, res, err = self._raw(lines, timeout)
        if rc == 0 and len(res) == len(lines):
            return res
        # the process died (abort / stray signal / timeout) in the middle of the batch: keep what was answered,
        # attribute the crash to the first unanswered case, continue after it
        out = list(res[:len(lines)])
        while len(out) < len(lines):
            i = len(out)
            rc1, r1, e1 = self._raw([lines[i]], min(timeout, 300))
            if rc1 == 0 and len(r1) == 1:
                out.append(r1[0])
            else:
                out.append("CRASH rc=%d %s" % (rc1, " ".join((e1 or "").split())[-160:]))
            if len(out) < len(lines):
                rc2, r2, e2 = self._raw(lines[len(out):], timeout)
                out += r2[:len(lines) - len(out)]
                if rc2 == 0:
                    break
        return out[:len(lines)]


def par_run(proc, lines, chunks=12, timeout=900):
    """Run independent case lines in several processes (order preserved)."""
    from concurrent.futures import ThreadPoolExecutor
    if len(lines) < 2 * chunks:
        return proc.run(lines, timeout)
    n = (len(lines) + chunks - 1) // chunks
    parts = [lines[i:i + n] for i in range(0, len(lines), n)]
    with ThreadPoolExecutor(max_workers=chunks) as ex:
        outs = list(ex.map(lambda p: proc.run(p, timeout), parts))
    return [x for o in outs for x in o]


# ---------------------------------------------------------------------------------------------------------
# parameter generators

BOUNDS = dict(w=(10, 31), c=(6, 30), h=(6, 30), s=(1, 30), m=(3, 7), t=(0, 131072), st=(1, 9))


def load_levels():
    txt = open(os.path.join(core.COQ, "Gen", "Gen_C14.v")).read()
    import re
    body = txt[txt.index("c14_levels"):]
    tiers = []
    for line in body.split("\n")[1:5]:
        tiers.append([tuple(int(x) for x in m.split(",")) for m in re.findall(r"\(([\d,]+)\)", line)])
    return tiers


def gen_const(name):
    import re
    txt = open(os.path.join(core.COQ, "Gen", "Gen_C14.v")).read()
    return int(re.search(r"Definition %s : N := (\d+)%%N" % re.escape(name), txt).group(1))


def cp_str(cp):
    return " ".join(hx(x) for x in cp)


def rand_cp(rng, cap):
    """random in-bounds cParams with every table log <= cap (memory budget of the run)"""
    st = rng.choice([1, 2, 3, 3, 4, 4, 5, 5, 6, 7, 7, 8, 9])
    w = rng.choice([10, 11, 14, 15, 16, 17, 18, 19, 20, cap, rng.randint(10, cap)])
    c = rng.choice([6, 7, rng.randint(6, cap), rng.randint(6, cap)])
    h = rng.choice([6, 7, rng.randint(6, cap), rng.randint(6, cap)])
    s = rng.choice([1, 2, 3, 4, 5, 6, 7, 8, rng.randint(1, 30)])
    m = rng.choice([3, 3, 4, 5, 6, 7])
    t = rng.choice([0, 1, 16, 999, 131072])
    return (w, c, h, s, m, t, st)


def corner_cps(cap):
    out = []
    for st in range(1, 10):
        for m in (3, 4):
            out.append((17, 12, 13, 4, m, 8, st))
    for s in (3, 4, 5, 6, 7):                      # row finder: rowLog = BOUNDED(4, searchLog, 6)
        for st in (3, 4, 5):
            out.append((18, 10, 16, s, 4, 8, st))     # tag table 2^16 >> chain table 4*2^10
            out.append((14, 16, 8, s, 4, 8, st))      # windowLog 14: row finder auto-disabled, chain table dominates
            out.append((15, 8, 18, s, 5, 8, st))
    for st in (7, 8, 9):
        out.append((10, 6, 6, 1, 3, 0, st))           # smallest tables + opt space + hash3
        out.append((cap, 6, 6, 1, 3, 999, st))
    out.append((10, 6, 6, 1, 7, 0, 1))
    out.append((cap, cap, cap, 6, 3, 0, 5))
    out.append((cap, cap, cap, 9, 3, 0, 6))
    return out


def pp_tokens(lvl=3, cp=(0,) * 7, row=0, ldm=(0, 0, 0, 0, 0), mbs=0, ext=0, inb=1, outb=1, nbw=0):
    return "%s %s %s %s %s %s %s %s %s" % (hx(lvl), cp_str(cp), hx(row), " ".join(hx(x) for x in ldm), hx(mbs),
                                        hx(ext), hx(inb), hx(outb), hx(nbw))


def rand_pp(rng, cap, allow_ldm=True):
    lvl = rng.choice([-5, -1, 0, 1, 2, 3, 4, 5, 6, 7, 9, 12, 13, 16, 17, 19])
    cp = [0] * 7
    if rng.random() < 0.7:
        full = rand_cp(rng, cap)
        for i in range(7):
            if rng.random() < 0.5:
                cp[i] = full[i]
    if cp[0] == 0:
        cp[0] = rng.choice([10, 14, 15, 17, 18, 20, min(cap, 22)])   # keep windows inside the memory budget
    if cp[1] == 0 and lvl > 12:
        cp[1] = rng.randint(6, min(cap, 22))
    if cp[2] == 0 and lvl > 12:
        cp[2] = rng.randint(6, min(cap, 22))
    row = rng.choice([0, 0, 1, 2])
    ldm = (0, 0, 0, 0, 0)
    if allow_ldm and rng.random() < 0.35:
        ldm = (rng.choice([1, 1, 1, 2, 0]), rng.choice([0, 6, 7, 12, min(cap, 20)]), rng.choice([0, 1, 3, 8]),
               rng.choice([0, 4, 64, 4096]), rng.choice([0, 1, 7, 25]))
    mbs = rng.choice([0, 0, 1024, 1340, 4096, 65536, 131072])
    ext = 1 if rng.random() < 0.15 else 0
    if ext:
        ldm = (2, 0, 0, 0, 0)    # sequence producer + LDM is rejected as parameter_combination_unsupported
    inb = rng.choice([1, 1, 0])
    outb = rng.choice([1, 1, 0])
    return dict(lvl=lvl, cp=tuple(cp), row=row, ldm=ldm, mbs=mbs, ext=ext, inb=inb, outb=outb, nbw=0)


# ---------------------------------------------------------------------------------------------------------

class CtxView:
    """the check context with the case counts of the quick tier (used for the ASAN pass of the thorough tier)"""
    def __init__(self, ctx):
        object.__setattr__(self, "_ctx", ctx)

    def __getattr__(self, k):
        return True if k == "quick" else getattr(object.__getattribute__(self, "_ctx"), k)


class Run:
    def __init__(self, ctx, variant="o1"):
        self.ctx = ctx
        self.variant = variant
        self.rng = random.Random(ctx.seed * 1000003 + 14 + (0 if variant == "o1" else 7))
        mexe = core.build_extracted("c14model", "Extract/Extract_C14.v", "c14_driver.ml")
        cexe = core.build_harness("c14_harness", ["c14_harness.c"], variant=variant, extra_flags=["-w"])
        if variant == "asan":
            # ASAN build: the workspace poisons its free space and puts ZSTD_CWKSP_ASAN_REDZONE_SIZE bytes around every
            # object / aligned / buffer reservation; the model runs with the same redzone
            rzv = gen_const("c_ZSTD_CWKSP_ASAN_REDZONE_SIZE")
            self.model = Proc(mexe, prefix="RZ " + hx(rzv))
            self.c = Proc(cexe, env=dict(ASAN_OPTIONS="detect_leaks=0:abort_on_error=0:allocator_may_return_null=1", UBSAN_OPTIONS="print_stacktrace=0"))
        else:
            self.model = Proc(mexe)
            self.c = Proc(cexe)
        oexe = core.build_harness("c14_own", ["c14_own.c"], variant=variant, extra_flags=OWN_FLAGS)
        self.own = Proc(oexe, env=self.c.env)        # round 2: ownership / reported sizes / static contexts never allocate
        # round 3: unit-level tie of lib/compress/zstdmt_compress.c (resize with allocation failures, pools, sizeof)
        self.mt = Proc(core.build_harness("c14_mt", ["c14_mt.c"], variant=variant, extra_flags=["-w"]), env=self.c.env)
        self.cap = 22 if ctx.quick else 25          # largest table log used in sessions
        self.mem_cap = (96 << 20) if ctx.quick else (900 << 20)
        self.disagreements = []                     # (kind, case, c, model)
        self.hist = {}

    def h(self, k, n=1):
        if self.variant != "o1":
            k = self.variant + ":" + k
        self.hist[k] = self.hist.get(k, 0) + n

    def report(self, replay, what, key=None, cap=3):
        """report an oracle failure on the implementation; at most [cap] per case kind (all are counted in the notes)"""
        kind = replay.get("kind", "?")
        self.nrep = getattr(self, "nrep", {})
        self.nrep[(kind, key)] = self.nrep.get((kind, key), 0) + 1       # keyed and un-keyed failures are capped separately
        self.h("oracle-failure:" + kind)
        if self.nrep[(kind, key)] <= cap:
            self.ctx.violation(replay, what=what, key=key)

    # ---- (1) estimate values -------------------------------------------------------------------------
    def value_cases(self):
        rng, ctx = self.rng, self.ctx
        lines = []
        maxl = gen_const("c_ZSTD_MAX_CLEVEL")
        for l in list(range(-8, maxl + 4)) + [-131072, -131073, -100000, 100, 1000]:
            lines += ["ECCTX " + hx(l), "ECSTREAM " + hx(l)]
        for d in (0, 1, 7, 8, 100, 1000, 16 * KB - 500, 16 * KB, 112640, 128 * KB, 256 * KB, 256 * KB + 1, 1 << 20, (1 << 30) + 5):
            for l in (-3, 0, 1, 3, 5, 7, 12, 13, 16, 19, 22):
                lines.append("ECDICT %s %s" % (hx(d), hx(l)))
        cps = corner_cps(30) + [rand_cp(rng, 30) for _ in range(400 if ctx.quick else 6000)]
        for cp in cps:
            lines += ["ECCTXCP " + cp_str(cp), "ECSTREAMCP " + cp_str(cp)]
            if rng.random() < 0.3:
                lines.append("ECDICTADV %s %s %s" % (hx(rng.choice([0, 1, 9, 4096, 100000])), cp_str(cp), hx(rng.choice([0, 1]))))
        for _ in range(600 if ctx.quick else 8000):
            p = rand_pp(rng, 30)
            if rng.random() < 0.05:
                p["nbw"] = 1
            lines.append("EPP %s %s" % (rng.choice("CS"), pp_tokens(**p)))
        # parameter selection itself
        for l in (-7, -1, 0, 1, 3, 6, 9, 13, 16, 19, 22, 30):
            for s in (0, 1, 63, 64, 65, 513, 16 * KB, 16 * KB + 1, 128 * KB, 128 * KB + 1, 256 * KB, 256 * KB + 1, 1 << 20,
                      (1 << 30), (1 << 30) + 1, UNKNOWN):
                for d in (0, 1, 1000, 200000):
                    for mode in (0, 1, 2, 3):
                        lines.append("GETCP %s %s %s %s" % (hx(l), hx(s), hx(d), hx(mode)))
        return lines

    def tie_values(self):
        lines = self.value_cases()
        rc_ = par_run(self.c, lines)
        rm_ = par_run(self.model, lines)
        bad = 0
        for ln, a, b in zip(lines, rc_, rm_):
            kind = ln.split()[0]
            self.h("value:" + kind)
            sig = ("value", kind, a == "ERR") + ((ln.split()[1],) if kind in ("ECCTX", "ECSTREAM") else (len(a),))
            self.ctx.count(sig)
            if a.startswith("CRASH"):
                bad += 1
                self.report(dict(kind="estimator-crash", c_case=ln, c_result=a, model_result=b),
                            "the size estimator itself crashes: %s -> %s (model: %s)" % (ln[:100], a[:60], b[:40]))
            elif a != b:
                bad += 1
                self.disagreements.append(("value", ln, a, b))
        self.ctx.cov["traces_validated_against_impl"] += len(lines)
        self.ctx.sample(dict(kind="estimate-value", case=lines[0], c=rc_[0], model=rm_[0]))
        self.ctx.sample(dict(kind="estimate-value", case=lines[-200], c=rc_[-200], model=rm_[-200]))
        core.log("C14 value tie: %d cases, %d disagreements" % (len(lines), bad))

    # ---- (2) static sessions ---------------------------------------------------------------------------
    def estimate_for(self, cases):
        """cases: list of dict(kind, ...) -> C estimates (ints or None)"""
        lines = []
        for cse in cases:
            k = cse["kind"]
            if k == "L":
                lines.append("ECCTX " + hx(cse["L"]))
            elif k == "LS":
                lines.append("ECSTREAM " + hx(cse["L"]))
            elif k == "CP2":
                lines.append("ECCTXCP " + cp_str(cse["cp"]))
            elif k == "CPS":
                lines.append("ECSTREAMCP " + cp_str(cse["cp"]))
            elif k == "PP2":
                lines.append("EPP C " + pp_tokens(**cse["pp"]))
            elif k == "PPS":
                lines.append("EPP S " + pp_tokens(**cse["pp"]))
        res = par_run(self.c, lines)
        out = []
        for ln, r in zip(lines, res):
            if r.startswith("CRASH"):
                self.report(dict(kind="estimator-crash", c_case=ln, c_result=r), "the size estimator itself crashes: %s -> %s" % (ln[:100], r[:60]))
                out.append(None)
            elif r == "ERR" or r.startswith("BADPARAM"):
                out.append(None)
            else:
                out.append(int(r, 16))
        return out

    def session_line(self, cse, placement, size):
        k = cse["kind"]
        head = lambda kind: "SESS %s %s %s %s %s" % (kind, hx(placement), hx(size), hx(cse["srcLen"]), hx(cse["seed"]))
        if k == "L":
            return head("L") + " " + hx(cse["l"])
        if k == "LS":
            return head("S") + " " + pp_tokens(lvl=cse["l"])
        if k == "CP2":
            return head("2") + " " + pp_tokens(lvl=3, cp=cse["cp"])
        if k == "CPS":
            return head("S") + " " + pp_tokens(lvl=3, cp=cse["cp"])
        if k == "PP2":
            return head("2") + " " + pp_tokens(**cse["pp"])
        return head("S") + " " + pp_tokens(**cse["pp"])

    def model_line(self, cline, start):
        f = cline.split()
        # C: SESS kind placement size srcLen seed rest...   model: SESS kind start size pledged rest...
        # the source size is known to the first reset for one-shot calls, and for a stream whose stable input
        # buffer defers the reset to the ZSTD_e_end call (zstd_compress.c: "don't initialize yet")
        srcLen = int(f[4], 16)
        pledged = srcLen
        if f[1] == "S":
            stable_in = (f[22] == "0")
            pledged = srcLen if (stable_in and srcLen < (128 << 10)) else UNKNOWN
        return "SESS %s %s %s %s %s" % (f[1], hx(start), f[3], hx(pledged), " ".join(f[6:]))

    def session_cases(self):
        rng, ctx = self.rng, self.ctx
        cases = []
        # corpus: minimal repro of the known finding C14-ccparams-level-tier (level 1 + maxBlockSize 1024, 16 KB source)
        cases.append(dict(kind="PP2", pp=dict(lvl=1, cp=(0,) * 7, row=0, ldm=(0,) * 5, mbs=1024, ext=0, inb=1, outb=1, nbw=0),
                          srcLen=16 * KB, seed=1))
        srcs = [0, 1, 999, 16 * KB, 16 * KB + 1, 100000, 128 * KB, 128 * KB + 1, 256 * KB + 1, 700000]
        maxL = 19 if ctx.quick else 22
        # levels: pairs l <= L, one-shot and streaming
        pairs = []
        for L in list(range(1, maxL + 1)) + [-1, -7, -50]:
            ls = {L}
            for _ in range(2 if ctx.quick else 6):
                ls.add(rng.randint(1, L) if L >= 1 else rng.randint(-200, L))
            if L >= 3:
                ls.add(0)        # 0 = default level 3
            if L >= 1 and rng.random() < 0.5:
                ls.add(rng.randint(-30, -1))
            for l in sorted(ls):
                pairs.append((l, L))
        for (l, L) in pairs:
            cases.append(dict(kind="L", l=l, L=L, srcLen=rng.choice(srcs), seed=rng.randint(0, 999)))
            if ctx.quick and rng.random() < 0.5:
                continue
            cases.append(dict(kind="LS", l=l, L=L, srcLen=rng.choice(srcs[1:]), seed=rng.randint(0, 999)))
        # cParams: estimate*_usingCParams(c) + exactly c
        cps = corner_cps(self.cap) + [rand_cp(rng, self.cap) for _ in range(40 if ctx.quick else 400)]
        for cp in cps:
            cases.append(dict(kind=rng.choice(["CP2", "CPS"]), cp=cp, srcLen=rng.choice(srcs), seed=rng.randint(0, 999)))
        # CCtx_params (level + overrides + row mode + LDM + maxBlockSize + sequence producer + buffer modes)
        for _ in range(60 if ctx.quick else 500):
            p = rand_pp(rng, self.cap)
            kind = rng.choice(["PP2", "PPS"])
            if kind == "PPS" and p["ext"]:
                p["ext"] = 0      # zstd.h: CStream estimates are not compatible with the sequence producer API
            cases.append(dict(kind=kind, pp=p, srcLen=rng.choice(srcs), seed=rng.randint(0, 999)))
        # LDM corners
        for ldm in [(1, 0, 0, 0, 0), (1, 6, 8, 4, 0), (1, 6, 1, 4096, 25), (1, min(self.cap, 22), 8, 64, 0), (1, 20, 1, 64, 7), (1, 7, 8, 0, 0)]:
            for lvl, w in ((3, 20), (1, 27 if not ctx.quick else 21), (7, 18), (16, 19)):
                pp = dict(lvl=lvl, cp=(w, 0, 0, 0, 0, 0, 0), row=0, ldm=ldm, mbs=rng.choice([0, 1024]), ext=0, inb=1, outb=1, nbw=0)
                cases.append(dict(kind=rng.choice(["PP2", "PPS"]), pp=pp, srcLen=rng.choice(srcs), seed=1))
        return cases

    def tie_sessions(self):
        ctx, rng = self.ctx, self.rng
        cases = self.session_cases()
        ests = self.estimate_for(cases)
        # model-side neededSpace of the level sessions (boundary-aimed sizes)
        lv = [c for c in cases if c["kind"] in ("L", "LS") and -8 <= c["l"] <= 22]
        nd = par_run(self.model, ["NEED %s %s %s" % ("L" if c["kind"] == "L" else "S", hx(c["l"]), hx(c["srcLen"] if c["kind"] == "L" else UNKNOWN)) for c in lv])
        for c, n in zip(lv, nd):
            if rng.random() < (0.5 if ctx.quick else 1.0):
                c["need"] = int(n, 16)
        clines, meta = [], []
        for cse, est in zip(cases, ests):
            if est is None:
                self.h("session:estimate-error")
                continue
            if est > self.mem_cap:
                self.h("session:skipped-over-memory-cap")
                continue
            cse["est"] = est
            sizes = [(est, rng.choice([0, 1, 1, 2, 3, 5, 8]))]
            if rng.random() < 0.6:
                sizes.append((est, 1))
            # smaller blocks: must fail cleanly or (when the estimate has slack for this case) still work inside bounds
            deltas = [1, 8, rng.choice([16, 24, 56, 63, 64]), rng.choice([65, 127, 128, 129, 200, 4096])]
            for d in (deltas if not ctx.quick else rng.sample(deltas, 2)):
                if est - d > 0:
                    sizes.append((est - d, rng.choice([0, 1, 1, 2, 9])))
            if rng.random() < 0.25:
                sizes.append((rng.choice([0, 8, 5264, 5265, 20000, est // 2]), 1))
            if cse.get("need"):
                # the exact acceptance boundary of the size gate (from the model): neededSpace and neededSpace - 1
                sizes.append((cse["need"], rng.choice([0, 1, 2, 6])))
                sizes.append((cse["need"] - 1, rng.choice([0, 1, 3])))
            for size, placement in sizes:
                clines.append(self.session_line(cse, placement, size))
                meta.append((cse, size))
        cres = par_run(self.c, clines, chunks=14, timeout=1500)
        mlines, midx = [], []
        import re
        for i, (cl, r) in enumerate(zip(clines, cres)):
            m = re.search(r"start=([0-9a-f]+)", r)
            if m:
                mlines.append(self.model_line(cl, int(m.group(1), 16)))
                midx.append(i)
        mres = dict(zip(midx, par_run(self.model, mlines)))
        nviol = 0
        for i, (cl, r) in enumerate(zip(clines, cres)):
            cse, size = meta[i]
            tag = r.split()[0] if r else "EMPTY"
            self.h("session:%s:%s" % (cse["kind"], tag if tag in ("OK", "NULL", "MEMERR", "SEGV", "BADROUNDTRIP", "SKIP", "CRASH") else "OTHER"))
            exact = size >= cse["est"]
            sig = ("sess", cse["kind"], tag, exact, self.shape(cse), len(r.split("log=")[1].split(",")) if "log=" in r else 0)
            ctx.count(sig, nontrivial=(tag in ("OK", "MEMERR", "NULL")))
            if tag == "SKIP":
                continue
            # --- direct oracle on the implementation
            what = None
            if tag in ("SEGV", "BADROUNDTRIP", "EMPTY", "CRASH"):
                what = "static CCtx of %d bytes (estimate %d): %s - memory outside the block touched or output damaged" % (size, cse["est"], tag)
            elif exact and tag != "OK":
                what = "static CCtx of exactly the estimate (%d bytes) does not complete the covered operation: %s" % (size, r[:80])
            elif tag not in ("OK", "NULL", "MEMERR"):
                what = "static CCtx smaller than the estimate fails with an unexpected error instead of memory_allocation: %s" % r[:80]
            elif tag == "OK" and "sizeof=" in r:
                so = int(re.search(r"sizeof=([0-9a-f]+)", r).group(1), 16)
                if so < size:
                    what = "ZSTD_sizeof_CCtx reports %d for a static context occupying %d bytes" % (so, size)
            if what:
                key = self.known_key(cse, cl, tag, mres.get(i))
                nviol += 1
                if nviol <= 3 or key:
                    ctx.violation(dict(kind="session", c_case=cl, c_result=r, model_result=mres.get(i), case=self.pub(cse)), what=what, key=key)
                continue
            # --- correspondence with the model (outcome, bytes used, reservation log entry by entry)
            mr = mres.get(i)
            if mr is None:
                continue
            ctx.cov["traces_validated_against_impl"] += 1
            if not self.same_session(r, mr):
                self.disagreements.append(("session", cl, r, mr, self.pub(cse)))
        ok = [(cl, r) for cl, r in zip(clines, cres) if r.startswith("OK")]
        if ok:
            ctx.sample(dict(kind="static-session", c_case=ok[0][0], c_result=ok[0][1][:400]))
            ctx.sample(dict(kind="static-session", c_case=ok[-1][0], c_result=ok[-1][1][:400]))
        me = [(cl, r) for cl, r in zip(clines, cres) if r.startswith("MEMERR")]
        if me:
            ctx.sample(dict(kind="static-session-too-small", c_case=me[0][0], c_result=me[0][1][:200]))
        core.log("C14 sessions: %d runs, %d oracle failures, %d model disagreements so far" % (len(clines), nviol, len(self.disagreements)))

    def known_key(self, cse, cline, tag, model_result):
        """Known finding C14-ccparams-level-tier: the *_usingCCtxParams estimators size level-derived tables from the
        srcSize-unknown row only.  Attached only when (a) the estimate came from such a call with a memory-relevant
        cParam (windowLog / chainLog / hashLog / minMatch / strategy) left to the level, (b) the source size is known to the reset and lies in a small-source tier,
        (c) the extracted model predicts the same memory_allocation."""
        if cse["kind"] not in ("PP2", "PPS") or tag != "MEMERR" or model_result != "MEMERR":
            return None
        cp = cse["pp"]["cp"]
        if cp[0] and cp[1] and cp[2] and cp[4] and cp[6]:
            return None       # every memory-relevant field (windowLog, chainLog, hashLog, minMatch, strategy) is explicit
        pledged = int(self.model_line(cline, 0).split()[4], 16)
        if pledged == UNKNOWN or pledged > 256 * KB:
            return None
        return "C14-ccparams-level-tier"

    @staticmethod
    def shape(cse):
        if cse["kind"] in ("L", "LS"):
            return (cse["l"], cse["L"], cse["srcLen"] > 16 * KB, cse["srcLen"] > 256 * KB)
        if cse["kind"] in ("CP2", "CPS"):
            cp = cse["cp"]
            return (cp[6], cp[4] == 3, min(cp[3], 7), cp[0] > 14, cp[2] > cp[1] + 2)
        p = cse["pp"]
        return (p["lvl"], p["cp"][6], p["row"], p["ldm"][0], p["mbs"] != 0, p["ext"], p["inb"], p["outb"])

    @staticmethod
    def pub(cse):
        return {k: v for k, v in cse.items()}

    @staticmethod
    def same_session(c, m):
        ct, mt = c.split()[0], m.split()[0]
        if ct != mt:
            return False
        if ct != "OK":
            return True
        import re
        cu = re.search(r"used=([0-9a-f]+)", c).group(1)
        mu = re.search(r"used=([0-9a-f]+)", m).group(1)
        if cu != mu or "failed=0" not in m:
            return False
        cl = c.split("log=")[1].split()[0] if "log=" in c else ""
        ml = m.split("log=")[1].split()[0] if "log=" in m else ""
        return cl == ml

    # ---- (3) static CDict / DDict ----------------------------------------------------------------------
    def tie_dicts(self):
        ctx, rng = self.ctx, self.rng
        import re
        cases = []
        cps = corner_cps(20) + [rand_cp(rng, 20) for _ in range(30 if ctx.quick else 300)]
        for cp in cps:
            d = rng.choice([0, 1, 7, 8, 9, 100, 4096, 4097, 30000, 120000])
            cases.append((cp, d, rng.choice([0, 0, 1]), rng.randint(0, 99)))
        est = par_run(self.c, ["ECDICTADV %s %s %s" % (hx(d), cp_str(cp), hx(br)) for cp, d, br, _ in cases])
        clines, meta = [], []
        for (cp, d, br, seed), e in zip(cases, est):
            e = int(e, 16)
            for size, pl in [(e, rng.choice([0, 1, 2, 4])), (e - 1, 1), (e - rng.choice([8, 64, 100, 128, 129, 1000]), rng.choice([0, 1, 3]))]:
                if size > 0:
                    clines.append("CDICT %s %s %s %s %s %s" % (hx(pl), hx(size), cp_str(cp), hx(d), hx(br), hx(seed)))
                    meta.append((e, size))
        cres = par_run(self.c, clines)
        mlines, midx = [], []
        for i, (cl, r) in enumerate(zip(clines, cres)):
            m = re.search(r"start=([0-9a-f]+)", r)
            if m:
                f = cl.split()
                mlines.append("CDICT %s %s %s" % (m.group(1), f[2], " ".join(f[3:12])))
                midx.append(i)
        mres = dict(zip(midx, par_run(self.model, mlines)))
        for i, (cl, r) in enumerate(zip(clines, cres)):
            e, size = meta[i]
            tag = r.split()[0]
            self.h("cdict:" + tag)
            ctx.count(("cdict", tag, size >= e, cl.split()[9], cl.split()[7], cl.split()[11]))
            what = None
            if tag in ("SEGV", "BADROUNDTRIP", "USEERR", "CRASH"):
                what = "static CDict of %d bytes (estimate %d): %s" % (size, e, r[:80])
            elif size >= e and tag != "OK":
                what = "ZSTD_initStaticCDict refuses a buffer of exactly ZSTD_estimateCDictSize_advanced (%d bytes)" % size
            elif size < e and tag != "NULL":
                what = "ZSTD_initStaticCDict accepts %d bytes, less than its own estimate %d" % (size, e)
            elif tag == "OK" and int(re.search(r"sizeof=([0-9a-f]+)", r).group(1), 16) < size:
                what = "ZSTD_sizeof_CDict under-reports a static CDict"
            if what:
                self.report(dict(kind="cdict", c_case=cl, c_result=r, model_result=mres.get(i)), what)
                continue
            mr = mres.get(i)
            if mr is not None:
                ctx.cov["traces_validated_against_impl"] += 1
                if not self.same_session(r.replace("OK", "OK failed=0", 1) if False else r, mr.replace("OK ", "OK failed=0 ", 1)):
                    self.disagreements.append(("cdict", cl, r, mr))
        ok = [(cl, r) for cl, r in zip(clines, cres) if r.startswith("OK")]
        if ok:
            ctx.sample(dict(kind="static-cdict", c_case=ok[0][0], c_result=ok[0][1][:300]))
        # DDict
        dl, dmeta = [], []
        sz = gen_const("sizeof_ZSTD_DDict")
        for d in [1, 7, 8, 100, 4096, 4097, 100000]:
            for br in (0, 1):
                e = sz + (0 if br else d)
                for size, pl in ((e, 1), (e, 0), (e - 1, 1), (e - 8, 1), (e + 64, 2)):
                    dl.append("DDICT %s %s %s %s" % (hx(pl), hx(size), hx(d), hx(br)))
                    dmeta.append((e, size, d, br))
        ev = par_run(self.c, ["EDDICT %s %s" % (hx(d), hx(br)) for (_, _, d, br) in dmeta])
        mv = par_run(self.model, ["EDDICT %s %s" % (hx(d), hx(br)) for (_, _, d, br) in dmeta])
        dres = par_run(self.c, dl)
        for cl, r, (e, size, d, br), a, b in zip(dl, dres, dmeta, ev, mv):
            tag = r.split()[0]
            self.h("ddict:" + tag)
            ctx.count(("ddict", tag, size >= e, br, d > 4096))
            if a != b:
                self.disagreements.append(("value", "EDDICT %x %x" % (d, br), a, b))
            what = None
            if tag in ("SEGV", "BADROUNDTRIP", "CRASH"):
                what = "static DDict of %d bytes (estimate %d): %s" % (size, e, tag)
            elif (size >= e) != (tag == "OK"):
                what = "ZSTD_initStaticDDict(%d bytes) vs ZSTD_estimateDDictSize %d: %s" % (size, e, tag)
            elif int(a, 16) != e:
                what = "ZSTD_estimateDDictSize(%d,%s) = %s, expected sizeof(ZSTD_DDict)+copy = %d" % (d, br, a, e)
            if what:
                self.report(dict(kind="ddict", c_case=cl, c_result=r), what)

    # ---- (4) streaming decoder ---------------------------------------------------------------------------
    def tie_decoder(self):
        ctx, rng = self.ctx, self.rng
        dctx = gen_const("sizeof_ZSTD_DCtx")
        lines, metas = [], []

        def win_of(wl):
            return (1 << (10 + (wl >> 3))) * (8 + (wl & 7)) // 8

        def frames(n, wl_lo, wl_hi, maxB, maxW):
            out = []
            at = max([w for w in range(256) if win_of(w) <= max(maxW, 1024)] or [0])    # largest descriptor still inside the limit
            for _ in range(n):
                k = rng.choice("uuks")
                wl = rng.choice([0, 1, 7, 8, 9, 15, 16, 17, rng.randint(0, 255)])
                wl = max(wl_lo, min(wl, wl_hi)) if k != "s" else 0
                if k != "s" and rng.random() < 0.45:
                    wl = min(255, max(0, at + rng.choice([0, 0, 0, 1, 1, -1])))       # at the limit / first one beyond / last but one
                ln = rng.choice([0, 1, 2, 3, 4, 5, 255, 256, 257, 1000, 1023, 1024, 1025, 4000, 70000, 131071])
                win = (1 << (10 + (wl >> 3))) * (8 + (wl & 7)) // 8 if k != "s" else ln
                if k != "s":
                    ln = min(ln, win, 131071)
                if maxB:
                    ln = min(ln, maxB)       # one raw block: must respect the block size limit
                out.append((k, wl, ln))
            return out

        # windows around the limit, limit set by size / by log / default; static and heap; buffered and stable-out
        for _ in range(150 if ctx.quick else 1500):
            mode = rng.choice("WWLD")
            wlimit_log = rng.choice([10, 10, 11, 12, 16, 17, 18, 20, 23]) if mode != "D" else 27
            maxW = (1 << wlimit_log) + (rng.choice([0, 0, -1, 1, 1023, 12345, (1 << wlimit_log) // 8, (1 << wlimit_log) // 8 - 1, (1 << wlimit_log) // 8 * 3]) if (mode == "W" and wlimit_log > 10) else 0)
            if mode == "D":
                maxW = gen_const("c_ZSTD_MAXWINDOWSIZE_DEFAULT")
            maxB = rng.choice([0, 0, 0, 1024, 4096, 70000])
            buffered = rng.choice([1, 1, 1, 0])
            top = min(255, ((wlimit_log - 10) << 3) + 12) if mode != "D" else min(255, (17 << 3) + 9)
            lo = max(0, top - 20)
            fr = frames(rng.choice([1, 2, 3, 6]), lo, top, maxB, maxW)
            static = 0
            if rng.random() < 0.5:
                est = None  # filled below from the C estimate of maxW
                static = -1
            lines.append([mode, static, rng.choice([0, 1, 1, 3]), maxW, maxB, buffered, fr])
        # oversize-shrink rule: one large window then > MAXDURATION small frames, then a large one again
        dur = gen_const("c_ZSTD_WORKSPACETOOLARGE_MAXDURATION")
        for big, small in ((8 * 8 + 3, 0), (10 * 8, 8), (9 * 8 + 7, 1 * 8 + 2)):
            fr = [("u", big, 3000)] + [("u", small, 100)] * (dur + 3) + [("k", big, 500), ("u", small, 7)]
            lines.append(["W", 0, 0, 1 << 22, 0, 1, fr])
            lines.append(["W", -1, 1, 1 << 22, 0, 1, fr])
        ests = par_run(self.c, ["EDSTREAM " + hx(l[3]) for l in lines])
        estm = par_run(self.model, ["EDSTREAM " + hx(l[3]) for l in lines])
        clines, mlines = [], []
        for l, e, em in zip(lines, ests, estm):
            if e != em:
                self.disagreements.append(("value", "EDSTREAM " + hx(l[3]), e, em))
            est = int(e, 16)
            if l[1] == -1:
                l[1] = est - rng.choice([0, 0, 0, 1, 8, 1000, est - dctx, est - dctx + 1]) if rng.random() < 0.6 else est
                if l[1] <= 0:
                    l[1] = est
            toks = " ".join("%s:%x:%x" % f for f in l[6])
            clines.append("DSTREAM %s %s %s %s %s %s %s" % (l[0], hx(l[1]), hx(l[2]), hx(l[3]), hx(l[4]), hx(l[5]), toks))
            # the model sees the effective limit: by log => 2^floor(log2)
            maxW = l[3]
            mt = []
            for (k, wl, ln) in l[6]:
                if k == "s":
                    w, fcs = ln, ln
                else:
                    base = 1 << (10 + (wl >> 3))
                    w, fcs = base + (base // 8) * (wl & 7), (ln if k == "k" else UNKNOWN)
                mt.append("%x:%x" % (w, fcs) + (":S" if self.shortcut(k, ln, l[5]) else ""))
            mlines.append("DSTREAM %s %s %s %s %s" % (hx(l[1]), hx(maxW), hx(l[4]), hx(l[5]), " ".join(mt)))
        cres = par_run(self.c, clines)
        mres = par_run(self.model, mlines)
        for l, cl, r, mr, e in zip(lines, clines, cres, mres, ests):
            est = int(e, 16)
            toks = r.split()
            self.h("dstream:" + ("static" if l[1] else "heap"))
            what = None
            if r.startswith("NULL"):
                if l[1] >= dctx:
                    what = "ZSTD_initStaticDCtx refuses %d bytes >= sizeof(ZSTD_DCtx)" % l[1]
                ctx.count(("dstream", "NULL"))
            else:
                ftoks = [t for t in toks if not t.startswith(("live=", "peak="))]
                peak = int(r.split("peak=")[1], 16) if "peak=" in r else 0
                for (k, wl, ln), t in zip(l[6], ftoks):
                    ctx.count(("dstream", bool(l[1]), l[0], l[5], t[0], k, ln < 4, "-" in t.split("/")[-1] if "/" in t else None))
                if any(x in r for x in ("SEGV", "BADDECODE", "!alloc-before-reject", "!sizeof<live", "BADTOKEN", "CRASH")):
                    what = "streaming decoder misbehaves on a hand-made frame: %s" % r[:160]
                elif any(t[0] == "E" for t in ftoks):
                    what = "a valid hand-made frame fails with an unexpected error (neither windowTooLarge nor memory_allocation): %s" % r[:160]
                elif not l[1] and peak > est:
                    what = "heap DStream holds %d bytes, more than ZSTD_estimateDStreamSize(maxWindowSize=%d) = %d" % (peak, l[3], est)
                else:
                    # iff: a frame is rejected for its window exactly when its (clamped) window exceeds the limit
                    for (k, wl, ln), t in zip(l[6], ftoks):
                        if self.shortcut(k, ln, l[5]):
                            continue      # single-pass shortcut: decoded straight into the caller's buffer, no window needed
                        w = ln if k == "s" else ((1 << (10 + (wl >> 3))) * (8 + (wl & 7)) // 8)
                        w = max(w, 1024)
                        lim = l[3] if l[0] != "L" else 1 << (l[3].bit_length() - 1)
                        if (w > lim) != (t[0] == "W"):
                            what = "window %d vs limit %d: decoder answered %s" % (w, lim, t)
                            break
                        if l[1] >= est and lim == l[3] and t[0] == "M":
                            what = "static DStream of ZSTD_estimateDStreamSize(%d) cannot decode a frame with window %d <= limit" % (l[3], w)
                            break
            if what:
                self.report(dict(kind="dstream", c_case=cl, c_result=r, model_case=mlines[clines.index(cl)], model_result=mr), what)
                continue
            if not r.startswith("NULL"):
                ctx.cov["traces_validated_against_impl"] += 1
                cm = " ".join(t for t in toks if not t.startswith(("live=", "peak=")))
                if l[0] == "L":
                    continue      # limit given by log: model line used the raw size; compared only through the oracle
                if cm != mr:
                    self.disagreements.append(("dstream", cl, cm, mr))
        ctx.sample(dict(kind="dstream", c_case=clines[0][:300], c_result=cres[0][:300], model=mres[0][:300]))
        # real multi-block frames through the streaming decoder with small chunks (direct oracle: output, peak, sizeof)
        dl, dmeta = [], []
        for _ in range(24 if ctx.quick else 200):
            wlog = rng.choice([10, 10, 11, 12, 13, 14, 15, 16, 17, 18, 20])
            srcLen = rng.choice([1, 1000, 5000, 40000, 150000, 300000, 700000])
            maxWlog = rng.choice([wlog, wlog, wlog + 1, 27, max(10, wlog - 1)])
            dl.append("DRT %s %s %s %s %s %s" % (hx(wlog), hx(srcLen), hx(rng.randint(0, 999)),
                                               hx(rng.choice([1, 7, 100, 4096, 70000, 200000])), hx(rng.choice([1, 3, 1000, 1 << 20])), hx(maxWlog)))
            dmeta.append((wlog, srcLen, maxWlog))
        de = par_run(self.c, ["EDSTREAM " + hx(1 << m[2]) for m in dmeta])
        dr = par_run(self.c, dl, timeout=1500)
        for ln, r, (wlog, srcLen, maxWlog), e in zip(dl, dr, dmeta, de):
            tag = r.split()[0]
            self.h("drt:" + tag)
            ctx.count(("drt", tag, wlog, srcLen > (1 << wlog), maxWlog >= wlog))
            peak = int(r.split("peak=")[1].split()[0], 16) if "peak=" in r else 0
            what = None
            if tag not in ("OK", "W"):
                what = "streaming decoder fails on a frame produced by the library (windowLog %d, limit 2^%d): %s" % (wlog, maxWlog, r[:100])
            elif peak > int(e, 16):
                what = "heap DStream peak %d exceeds ZSTD_estimateDStreamSize(2^%d) = %d" % (peak, maxWlog, int(e, 16))
            elif tag == "OK" and "sizeof=" in r and int(r.split("sizeof=")[1].split()[0], 16) < int(r.split("live=")[1].split()[0], 16):
                what = "ZSTD_sizeof_DCtx under-reports the live allocations"
            elif tag == "W" and maxWlog >= wlog:
                what = "frame with windowLog %d rejected although the limit is 2^%d" % (wlog, maxWlog)
            if what:
                self.report(dict(kind="drt", c_case=ln, c_result=r), what)
        # decodingBufferSize / frame window values
        vl = []
        for _ in range(300 if ctx.quick else 5000):
            vl.append("DBUF %s %s %s" % (hx(rng.choice([0, 1, 1023, 1024, 1 << 17, (1 << 17) + 1, rng.randint(0, 1 << 32), 1 << 31])),
                                       hx(rng.choice([UNKNOWN, 0, 1, 5000, rng.randint(0, 1 << 33)])),
                                       hx(rng.choice([1, 1024, 4096, 1 << 17, rng.randint(1, 1 << 17)]))))
        for b in range(256):
            vl.append("FWIN 0 %s 0" % hx(b))
        for f in (0, 1, 255, 256, 65791, 1 << 32, rng.randint(0, 1 << 40)):
            vl.append("FWIN 1 0 %s" % hx(f))
        a, b = par_run(self.c, vl), par_run(self.model, vl)
        for ln, x, y in zip(vl, a, b):
            self.h("value:" + ln.split()[0])
            ctx.count(("value", ln.split()[0], x == "ERR", len(x)))
            if x != y:
                self.disagreements.append(("value", ln, x, y))
        ctx.cov["traces_validated_against_impl"] += len(vl)

    @staticmethod
    def shortcut(k, ln, buffered):
        """zdss_loadHeader single-pass shortcut: content size known and the first call's output room >= content size
        (the harness offers [len] bytes in stable-out mode, else 1 byte when len > 1 and 0 bytes otherwise)"""
        if k == "u":
            return False
        room = ln if not buffered else (1 if ln > 1 else 0)
        return room >= ln

    # ---- (5) heap contexts: sizeof >= live, the workspace created from the estimate never fails ------------
    def tie_heap(self):
        ctx, rng = self.ctx, self.rng
        lines = []
        for _ in range(40 if ctx.quick else 400):
            p = rand_pp(rng, min(self.cap, 21))
            kind = rng.choice("2S")
            if kind == "S":
                p["ext"] = 0
            lines.append("HEAP %s %s %s %s" % (kind, hx(rng.choice([0, 1, 5000, 200000, 600000])), hx(rng.randint(0, 99)), pp_tokens(**p)))
        res = par_run(self.c, lines)
        for ln, r in zip(lines, res):
            self.h("heap:" + r.split()[0])
            ctx.count(("heap", r.split()[0], ln.split()[1]))
            if r.startswith("OK") and ("!sizeof<live" in r or "failed=0" not in r or "null=0" not in r):
                self.report(dict(kind="heap", c_case=ln, c_result=r),
                            "heap CCtx: a reservation failed inside a workspace created from the estimate, or ZSTD_sizeof_CCtx under-reports: " + r[:120])
            elif not r.startswith(("OK", "BADPARAM")):
                self.report(dict(kind="heap", c_case=ln, c_result=r), "heap CCtx compression failed: " + r[:120])


    # ---- (6) histories on one static context: served iff it fits, whatever was executed before -----------------
    HIST_SRCS = [0, 1, 999, 16 * KB, 16 * KB + 1, 100000, 128 * KB + 1, 300000]

    def hist_cases(self):
        rng, ctx = self.rng, self.ctx
        cases = []
        zero_pp = dict(lvl=3, cp=(0,) * 7, row=0, ldm=(0,) * 5, mbs=0, ext=0, inb=1, outb=1, nbw=0)
        maxL = 16 if ctx.quick else 22
        small = lambda: rng.choice([1, 999, 5000])
        # (a) wear-out: > ZSTD_WORKSPACETOOLARGE_MAXDURATION small compressions inside a much larger static context,
        #     then the large operation the context was sized for
        dur = gen_const("c_ZSTD_WORKSPACETOOLARGE_MAXDURATION")
        for L in ([maxL, 12, 6, 3] if ctx.quick else [22, 19, 16, 13, 12, 9, 6, 5, 3, 1]):
            ops = ["L:1:%x*%x" % (small(), dur + 6), "L:%s:%x" % (hx(L), 100000), "L:1:%x*3" % small(), "L:%s:%x" % (hx(L), 300000)]
            cases.append(dict(est=("ECCTX", L), pp=zero_pp, ops=ops, all_ok=True, shape=("wear", L)))
        # (b) mixed levels l <= L, mixed source sizes
        for _ in range(12 if ctx.quick else 120):
            L = rng.randint(1, maxL)
            ops = []
            for _ in range(rng.randint(4, 9)):
                l = rng.choice([L, L, rng.randint(1, L), rng.randint(1, L), rng.randint(-20, -1)] + ([0] if L >= 3 else []))
                ops.append("L:%s:%x" % (hx(l), rng.choice(self.HIST_SRCS)))
            cases.append(dict(est=("ECCTX", L), pp=zero_pp, ops=ops, all_ok=True, shape=("mixed", L > 12, len(ops))))
        # (c) a refused request leaves the context usable: sized for level 3 (or 1), asked for more in between
        for L, big in ((3, 19), (1, 9), (5, 13), (3, 16)):
            ops = ["L:%s:%x" % (hx(L), 100000), "L:%s:%x" % (hx(big), 300000), "L:%s:%x" % (hx(L), 300000),
                   "L:%s:%x" % (hx(big), 999), "L:%s:%x*4" % (hx(L), rng.choice(self.HIST_SRCS)), "L:%s:%x" % (hx(big), 300000), "L:1:%x" % 100000]
            cases.append(dict(est=("ECCTX", L), pp=zero_pp, ops=ops, all_ok=False, shape=("refuse", L, big)))
        # (d) explicit cParams: estimate*_usingCParams(c) + exactly c, compress2 / streaming with varying source sizes
        cps = rng.sample(corner_cps(min(self.cap, 20)), 8 if ctx.quick else 40) + [rand_cp(rng, min(self.cap, 20)) for _ in range(10 if ctx.quick else 100)]
        for cp in cps:
            stream = rng.random() < 0.4
            pp = dict(zero_pp); pp["cp"] = cp
            ops = []
            for _ in range(rng.randint(3, 7)):
                if stream and rng.random() < 0.6:
                    ops.append("S:%x" % rng.choice(self.HIST_SRCS[1:]))
                else:
                    ops.append("2:%x" % rng.choice(self.HIST_SRCS))
            if rng.random() < 0.3:
                ops.append("%s*%x" % (ops[0], dur + 3))
            cases.append(dict(est=("ECSTREAMCP" if stream else "ECCTXCP", cp), pp=pp, ops=ops, all_ok=True,
                              shape=("cp", cp[6], cp[4] == 3, stream)))
        return cases

    def hist_line(self, cse, placement, size, seed):
        return "HIST %s %s %s %s %s" % (hx(placement), hx(size), hx(seed), pp_tokens(**cse["pp"]), " ".join(cse["ops"]))

    @staticmethod
    def hist_model_line(cline, start):
        f = cline.split()
        return "HIST %s %s %s" % (hx(start), f[2], " ".join(f[4:]))

    @staticmethod
    def hist_parse(r):
        """-> dict(ops=[...], end=, dur=, failed=, log=) from a C or model HIST answer starting with OK"""
        import re
        out = dict(ops=[], end=None, dur=None, failed=None, log="")
        body = r.split("ops=", 1)[1] if "ops=" in r else ""
        for t in body.split():
            if t.startswith("end="):
                out["end"] = t[4:]
            elif t.startswith("dur="):
                out["dur"] = int(t[4:], 16)
            elif t.startswith("failed="):
                out["failed"] = t[7:]
            elif t.startswith("log="):
                out["log"] = t[4:]
            elif t.startswith("sizeof="):
                out["sizeof"] = int(t[7:], 16)
            else:
                out["ops"].append(t)
        return out

    @staticmethod
    def hist_expand(ops):
        out = []
        for t in ops:
            reps = 1
            if "*" in t:
                t, r = t.split("*")
                reps = int(r, 16)
            out += [t] * reps
        return out

    def hist_oracle(self, cse, size, est, r):
        """direct oracle on the implementation for one history; returns a description or None"""
        tag = r.split()[0] if r else "EMPTY"
        if tag in ("SEGV", "CRASH", "EMPTY") or "BADROUNDTRIP" in r:
            return "static CCtx of %d bytes, history of %d operations: %s - memory outside the block touched or output damaged" % (size, len(self.hist_expand(cse["ops"])), r[:80])
        if tag == "NULL":
            return ("ZSTD_initStaticCCtx refuses a block of the estimated size %d" % size) if size >= est else None
        if tag != "OK":
            return None
        h = self.hist_parse(r)
        ops = self.hist_expand(cse["ops"])
        for i, (o, t) in enumerate(zip(ops, h["ops"])):
            if t[0] not in "KM":
                return "operation #%d (%s) of a history on a static CCtx fails with an unexpected error %s" % (i + 1, o, t)
            if t == "M" and cse["all_ok"] and size >= est:
                return ("static CCtx of the estimated size %d refuses operation #%d (%s) after %d served operations: a static context "
                        "must not wear out" % (size, i + 1, o, sum(1 for x in h["ops"][:i] if x[0] == "K")))
        if h.get("sizeof", size) < size:
            return "ZSTD_sizeof_CCtx reports %d for a static context occupying %d bytes" % (h["sizeof"], size)
        return None

    def tie_history(self):
        ctx, rng = self.ctx, self.rng
        import re
        cases = self.hist_cases()
        ests = par_run(self.c, ["%s %s" % (c["est"][0], hx(c["est"][1]) if c["est"][0] == "ECCTX" else cp_str(c["est"][1])) for c in cases])
        clines, meta = [], []
        for cse, e in zip(cases, ests):
            est = int(e, 16)
            if est > self.mem_cap:
                self.h("hist:skipped-over-memory-cap")
                continue
            sizes = [(est, rng.choice([0, 1, 1, 2, 5]))]
            if rng.random() < 0.5:
                sizes.append((est - rng.choice([1, 8, 64, 129, 4096]), rng.choice([0, 1, 3])))
            for size, pl in sizes:
                clines.append(self.hist_line(cse, pl, size, rng.randint(0, 999)))
                meta.append((cse, size, est))
        cres = par_run(self.c, clines, chunks=14, timeout=1500)
        mlines, midx = [], []
        for i, (cl, r) in enumerate(zip(clines, cres)):
            m = re.search(r"start=([0-9a-f]+)", r)
            if m:
                mlines.append(self.hist_model_line(cl, int(m.group(1), 16)))
                midx.append(i)
        mres = dict(zip(midx, par_run(self.model, mlines)))
        nviol = 0
        for i, (cl, r) in enumerate(zip(clines, cres)):
            cse, size, est = meta[i]
            tag = r.split()[0] if r else "EMPTY"
            self.h("hist:%s:%s" % (cse["shape"][0], tag if tag in ("OK", "NULL", "SEGV", "SKIP", "CRASH") else "OTHER"))
            h = self.hist_parse(r) if tag == "OK" else dict(ops=[])
            ctx.count(("hist", cse["shape"], tag, size >= est, "".join(sorted(set(t[0] for t in h["ops"])))), nontrivial=(tag in ("OK", "NULL")))
            if tag == "SKIP":
                continue
            what = self.hist_oracle(cse, size, est, r)
            mr = mres.get(i)
            if what:
                nviol += 1
                if nviol <= 3:
                    ctx.violation(dict(kind="history", c_case=cl, c_result=r[:2000], model_result=(mr or "")[:2000], estimate=est), what=what)
                continue
            if mr is None:
                continue
            ctx.cov["traces_validated_against_impl"] += 1
            if not self.same_history(r, mr):
                self.disagreements.append(("history", cl, r[:600], mr[:600], dict(cse=cse, size=size, est=est)))
        ok = [(cl, r) for cl, r in zip(clines, cres) if r.startswith("OK")]
        if ok:
            ctx.sample(dict(kind="static-history", c_case=ok[0][0][:300], c_result=ok[0][1][:300]))
        core.log("C14 histories: %d runs, %d oracle failures, %d model disagreements so far" % (len(clines), nviol, len(self.disagreements)))

    def same_history(self, c, m):
        ct, mt = c.split()[0], m.split()[0]
        if ct != mt:
            return False
        if ct != "OK":
            return True
        a, b = self.hist_parse(c), self.hist_parse(m)
        return all(a[k] == b[k] for k in ("ops", "end", "dur", "failed", "log"))

    def search_history(self, seeds):
        """a model/code disagreement on a history: replay it with every operation repeated beyond the oversize
        duration (wear-out is the failure mode a history can add to a single session) and apply the direct oracle"""
        found = []
        dur = gen_const("c_ZSTD_WORKSPACETOOLARGE_MAXDURATION")
        clines, meta = [], []
        for d in seeds[:12]:
            info = d[4]
            cse, est = dict(info["cse"]), info["est"]
            ops = self.hist_expand(cse["ops"])[:12]
            cse["ops"] = ["%s*%x" % (o, dur + 4) for o in ops] + ops
            for pl in (0, 1):
                clines.append(self.hist_line(cse, pl, est, 1))
                meta.append((cse, est))
        res = par_run(self.c, clines, timeout=1500)
        for cl, r, (cse, est) in zip(clines, res, meta):
            what = self.hist_oracle(cse, est, est, r) if cse["all_ok"] else None
            if what:
                found.append((dict(kind="history", c_case=cl, c_result=r[:2000], estimate=est), what))
                if len(found) >= 2:
                    break
        return found

    def level_witnesses(self, which, L):
        """model-side witness for a level estimate that differs: ask the model for the need of every covered level
        l <= L at source sizes up to beyond the largest window, keep the (l, size) pairs whose need exceeds what the
        CODE returns for L, cheapest first; they are then run on the implementation by search()"""
        if L < 1 or L > 22:
            return []
        code = self.c.run(["%s %s" % (which, hx(L))])[0]
        if code == "ERR":
            return []
        code = int(code, 16)
        kind = "L" if which == "ECCTX" else "S"
        sizes = [999, 16 * KB, 16 * KB + 1, 128 * KB, 128 * KB + 1, 256 * KB + 1, 1 << 20, (1 << 21) + 1, (1 << 22) + 1, (1 << 23) + 1]
        if kind == "S":
            sizes = [999]         # buffered streaming: the reset sees an unknown source size whatever the input length
        q = [(l, s) for l in list(range(1, L + 1)) + ([0] if L >= 3 else []) for s in sizes]
        needs = self.model.run(["NEED %s %s %s" % (kind, hx(l), hx(UNKNOWN if kind == "S" else s)) for l, s in q])
        over = [(l, s) for (l, s), n in zip(q, needs) if int(n, 16) > code]
        over.sort(key=lambda x: (x[1] * (1 + max(0, x[0] - 12) ** 2), x[0]))      # cheap to compress first
        return [dict(kind="L" if kind == "L" else "LS", l=l, L=L, srcLen=s, seed=1) for l, s in over[:4]]

    # ---- (7) round 2: what a DCtx owns / reports, static contexts never allocate, legacy path, fromFrame, CDict by level
    OWN_KINDS = ("DOWN", "SDCT", "SCCT", "CPD", "LEGACY", "DFF", "CDLVL", "CSZ", "OSZ", "MTI", "ADV", "MTF", "CHIS", "CPC", "DSG")

    def own_history_cases(self):
        rng, ctx = self.rng, self.ctx
        refs = lambda ids: ["R%x" % i for i in ids]
        cases = []
        # the counts asked for: 1, 64, 65, 200 DDicts (table 64 -> 128 -> ... by the load-factor rule), incl. a replaced ID
        for n in (1, 15, 16, 17, 64, 65, 200):
            cases.append(["M1"] + refs(range(1, n + 1)) + ["R1", "F0/c8", "Z"])
        cases.append(["M1", "R1", "R2", "R3", "L100/0", "F0/c8", "Z", "R5", "M1", "R6", "N"])
        cases.append(["L3e8/0", "L3e8/1", "L0/0", "Lf4240/0", "N", "L7/0", "Z"])
        cases.append(["M1", "R7", "C0", "R8", "C1", "R9", "L64/0", "C1", "R9"])
        cases.append(["P64", "F0/c8", "F0/c8", "F0/c8", "P0", "F0/1", "L3e8/0", "C0", "F0/c8", "P10", "Pffff", "Z", "F8/5"])
        dur = gen_const("c_ZSTD_WORKSPACETOOLARGE_MAXDURATION")
        cases.append(["F50/bb8"] + ["F0/64"] * (dur + 3) + ["F48/1f4", "L1000/0", "F8/7"])       # oversize-shrink reallocation
        for _ in range(12 if ctx.quick else 150):
            ops = []
            for _ in range(rng.randint(3, 40)):
                k = rng.choice("RRRRRRMLLFFFNZCP")
                if k == "R":
                    ops.append("R%x" % rng.choice([1, 2, 3, rng.randint(1, 40), rng.randint(1, 1 << 31)]))
                elif k == "M":
                    ops.append("M%d" % rng.choice([0, 1, 1]))
                elif k == "L":
                    ops.append("L%x/%d" % (rng.choice([0, 1, 7, 8, 100, 4096, 100000]), rng.choice([0, 0, 1])))
                elif k == "F":
                    ops.append("F%x/%x" % (rng.choice([0, 1, 7, 8, 9, 17, 40, 57]), rng.choice([0, 1, 200, 1000])))
                elif k == "C":
                    ops.append("C%d" % rng.choice([0, 1]))
                elif k == "P":
                    ops.append("P%x" % rng.choice([0, 1, 64, 5000]))
                else:
                    ops.append(k)
            cases.append(ops)
        return cases

    def tie_round2(self):
        ctx, rng = self.ctx, self.rng
        import re
        dctx = gen_const("sizeof_ZSTD_DCtx")
        # (a) ownership histories on a heap DCtx: code == model token by token (rc / live bytes / ZSTD_sizeof_DCtx /
        #     hash-set table size / count), direct oracle: sizeof >= live after every operation, free releases all
        hl = ["DOWN 0 " + " ".join(ops) for ops in self.own_history_cases()]
        cr, mr = par_run(self.own, hl), par_run(self.model, hl)
        for ln, a, b in zip(hl, cr, mr):
            self.h("own:history")
            toks = [t for t in a.split() if "/" in t and not t.startswith("free=")]
            ctx.count(("down", len(toks) > 20, "M1" in ln, bool(re.search(r" L[1-9a-f]", ln)), " C1" in ln, " F" in ln, a.split()[0] if a else "EMPTY"))
            what = None
            if not a or a.startswith(("SEGV", "CRASH")) or "BADTOKEN" in a:
                what = "DCtx ownership history crashes: %s" % a[:100]
            else:
                for i, t in enumerate(toks):
                    f = t.split("/")
                    if int(f[2], 16) < int(f[1], 16):
                        what = ("ZSTD_sizeof_DCtx reports %d while the context holds %d bytes (operation #%d %s of the history; hash set of %d slots)"
                                % (int(f[2], 16), int(f[1], 16), i + 1, ln.split()[2 + i], int(f[3], 16)))
                        break
                if not what and ("live=0" not in a or "badfree=0" not in a or "free=OK" not in a):
                    what = "ZSTD_freeDCtx after an ownership history leaves bytes behind or frees a foreign pointer: %s" % a[-60:]
            if what:
                self.report(dict(kind="own-history", c_case=ln, c_result=a[:1500], model_result=b[:1500], harness="c14_own"), what)
                continue
            ctx.cov["traces_validated_against_impl"] += 1
            if a.replace(" badfree=0", "") != b:
                self.disagreements.append(("own-history", ln, a[:400], b[:400]))
        ctx.sample(dict(kind="dctx-ownership", c_case=hl[1][:200], c_result=cr[1][:300], model=mr[1][:300]))
        # (a') round 3: the same histories with ALLOCATION FAILURES injected (token !k: the k-th allocation of the next operation
        #      fails).  Oracle only (the DCtx model has no failures): sizeof >= live after every operation, free releases all
        hf = []
        for ops in self.own_history_cases()[-(8 if ctx.quick else 80):]:
            o2 = []
            for t in ops:
                if rng.random() < 0.3:
                    o2.append("!%x" % rng.randint(1, 4))
                o2.append(t)
            hf.append("DOWN 0 " + " ".join(o2))
        for ln, a in zip(hf, par_run(self.own, hf)):
            self.h("own:history-alloc-failures")
            toks = [t for t in a.split() if t.count("/") == 4]
            ctx.count(("down-fail", len(toks) > 20, any(t.startswith("M/") for t in toks), a.split()[0].split("/")[0] if a else "EMPTY"))
            under = [i for i, t in enumerate(toks) if int(t.split("/")[2], 16) < int(t.split("/")[1], 16)]
            if under or not a or a.startswith(("SEGV", "CRASH")) or "live=0" not in a or "badfree=0" not in a:
                self.report(dict(kind="own-history", c_case=ln, c_result=a[:1500], harness="c14_own"),
                            ("ZSTD_sizeof_DCtx under-reports after operation #%d of a history with allocation failures" % (under[0] + 1)) if under
                            else "DCtx ownership history with allocation failures: crash or bytes left behind: %s" % a[-100:])
            else:
                ctx.cov["traces_validated_against_impl"] += 1
        # (b) a static DCtx asked to create a dictionary internally / to enter the multi-DDict mode: error, no allocation,
        #     no crash whatever bytes the workspace held; the context stays usable   (fixes 11c6d2b, c6e8f36)
        sl = ["SDCT %x %x %s" % (fill, pl, op) for fill in (0, 0xaa, 0xff, 0x55) for op in "LAPUEMG" for pl in (1, rng.choice([0, 2, 5]))]
        for ln, a in zip(sl, par_run(self.own, sl)):
            self.h("own:static-dict")
            op = ln.split()[3]
            ctx.count(("sdct", op, ln.split()[1], a.split()[0] if a else "EMPTY"))
            want = {"E": "rc=OK", "M": "rc=E40"}.get(op, "rc=M")
            if not (a.startswith(want + " growth=0 ") and a.endswith("after=OK/c8")):
                self.report(dict(kind="static-dctx-dict", c_case=ln, c_result=a, harness="c14_own"),
                            "a STATIC DCtx asked for an internal dictionary (%s, workspace filled with 0x%s) must answer %s without touching an "
                            "allocator and stay usable; got: %s" % (op, ln.split()[1], want, a[:120]), key="C14-static-dctx-allocates")
        # (b') a static CCtx driven towards every allocation site of zstd_compress.c: no malloc / calloc in the whole process
        #      while it works (link-time --wrap), the operation either fails cleanly or completes; the context stays usable
        keys = {"W": "C14-static-cctx-mt-via-cctxparams", "S": "C14-static-cctx-mt-via-cctxparams", "T": "C14-static-cctx-mt-via-cctxparams",
                "B": "C14-static-cctx-localdict-byref", "Q": "C14-generatesequences-default-malloc"}
        cl2 = ["SCCT %x %s" % (rng.choice([0, 1, 2]), op) for op in ("N0", "W1", "W2", "S2", "T2", "D2", "B0", "Y0", "P0", "R0", "Q0",
                                                                    "Z0", "L0", "C0", "I0", "U0", "H0", "E0", "X0")]      # second row: round 3 (more entry points)
        for ln, a in zip(cl2, par_run(self.own, cl2, chunks=4)):
            self.h("own:static-cctx")
            op = ln.split()[2][0]
            m = re.match(r"set=(\S+) rc=(\S+) mallocs=([0-9a-f]+) bytes=([0-9a-f]+) sizeof=([0-9a-f]+) block=([0-9a-f]+)( rt=(\S+))? after=(\S+)$", a)
            ctx.count(("scct", op, m.group(1) if m else "?", m.group(2) if m else a.split()[0] if a else "EMPTY", bool(m and int(m.group(3), 16))))
            what = None
            if not m:
                what = "static CCtx scenario %s: %s" % (ln, a[:100])
            elif int(m.group(3), 16):
                what = ("a STATIC CCtx (block of %d bytes) made the process call malloc %d times for %d bytes (scenario %s: W/S/T = nbWorkers through "
                        "CCtx_params + compress2 / compressStream2 / with a thread pool, B = loadDictionary_byReference, Q = generateSequences); "
                        "ZSTD_sizeof_CCtx = %d" % (int(m.group(6), 16), int(m.group(3), 16), int(m.group(4), 16), ln.split()[2], int(m.group(5), 16)))
            elif m.group(9) != "OK" or (m.group(8) and m.group(8) != "ok") or m.group(2) not in ("OK", "M", "E40") or m.group(1) not in ("OK", "M", "E40"):
                what = "static CCtx scenario %s misbehaves: %s" % (ln.split()[2], a[:120])
            elif op in "NPRZLCIHEX" and (m.group(1), m.group(2)) != ("OK", "OK"):
                what = "static CCtx refuses an operation that needs no allocation (%s): %s" % (ln.split()[2], a[:100])
            if what:
                self.report(dict(kind="static-cctx", c_case=ln, c_result=a, harness="c14_own"), what, key=keys.get(op) if (m and int(m.group(3), 16)) else None)
        # (c) ZSTD_copyDCtx across static / heap contexts (fix 15cfcd6), multi-DDict flag smuggled into a static context (c6e8f36)
        want = {"CPD a": r"rc=OK/c8 static-allocs=0 badfree=0 staticSize=[1-9a-f][0-9a-f]*$", "CPD b": r"rc=OK/c8 free=OK live=0 badfree=0$",
                "CPD c": r"free=OK/OK live=0 badfree=0$", "CPD cs": r"free=OK/OK live=0 badfree=0$", "CPD m": r"rc=M growth=0 set=0 static-allocs=0$"}
        cl = sorted(want)
        for ln, a in zip(cl, self.own.run(cl)):
            self.h("own:copydctx")
            ctx.count(("cpd", ln, a.split()[0] if a else "EMPTY"))
            if not re.match(want[ln], a):
                self.report(dict(kind="copy-dctx", c_case=ln, c_result=a, harness="c14_own"),
                            "ZSTD_copyDCtx must not transfer ownership (allocator, staticSize, local dictionary, DDict set): scenario '%s' "
                            "(a: static<-heap, b: heap<-static, c: heap<-heap owning a dictionary, m: static<-heap in multi-DDict mode) "
                            "expected /%s/, got: %s" % (ln, want[ln], a[:120]), key="C14-copydctx-ownership")
        # (d) legacy frames vs the window limit (KNOWN finding C14-legacy-stream-ignores-window-limit)
        ll = []
        for ver in (5, 6, 7):
            lo = {5: 11, 6: 12, 7: 10}[ver]
            for wlog, lim in ((lo, 10), (lo, 27), (20, 10), (20, 20), (20, 21), (27 if ver == 7 else 26, 10), (rng.randint(lo, 24), rng.randint(10, 27))):
                ll.append("LEGACY %x %x %x %x" % (ver, wlog, lim, rng.choice([0, 5, 300])))
        le = par_run(self.c, ["EDSTREAM " + hx(1 << int(l.split()[3], 16)) for l in ll])
        for ln, a, e in zip(ll, par_run(self.own, ll), le):
            self.h("own:legacy")
            f = ln.split(); ver, wlog, lim = int(f[1], 16), int(f[2], 16), int(f[3], 16)
            m = re.match(r"rc=(\S+) out=([0-9a-f]+) growth=([0-9a-f]+) sizeof=([0-9a-f]+) dctx=([0-9a-f]+)$", a)
            ctx.count(("legacy", ver, wlog > lim, m.group(1) if m else a.split()[0] if a else "EMPTY"))
            if not m:
                self.report(dict(kind="legacy", c_case=ln, c_result=a, harness="c14_own"), "legacy frame through ZSTD_decompressStream: %s" % a[:100])
                continue
            rc, growth, so = m.group(1), int(m.group(3), 16), int(m.group(4), 16)
            budget = int(e, 16) - dctx
            if rc == "OK" and (wlog > lim or growth > budget or so < dctx + growth):
                self.report(dict(kind="legacy", c_case=ln, c_result=a, harness="c14_own"),
                            "v0.%d frame with windowLog %d through a streaming decoder limited to 2^%d: accepted, %d bytes allocated (budget of the limit: %d), "
                            "ZSTD_sizeof_DCtx = %d" % (ver, wlog, lim, growth, budget, so), key="C14-legacy-stream-ignores-window-limit")
            elif rc not in ("OK", "W", "M"):
                self.report(dict(kind="legacy", c_case=ln, c_result=a, harness="c14_own"), "valid legacy frame fails with %s" % rc)
        # (e) ZSTD_estimateDStreamSize_fromFrame + static DStream of exactly that size decodes the frame
        fl = []
        for k, wl, ln_ in ([("s", 0, n) for n in (0, 1, 3, 4, 5, 255, 256, 1000, 1023, 1024, 1025, 70000, 131071)]
                           + [("u", w, n) for w in (0, 1, 7, 8, 9, 56, 57) for n in (0, 1, 1000)]
                           + [("k", w, n) for w in (0, 15, 40) for n in (5, 1024, 5000)]
                           + [(rng.choice("suk"), rng.randint(0, 60), rng.choice([0, 1, 100, 1024, 4097, 100000])) for _ in range(10 if ctx.quick else 100)]):
            if k != "s":
                ln_ = min(ln_, (1 << (10 + (wl >> 3))), 131071)
            fl.append((k, wl, ln_))
        dl = ["DFF %x %s %x %x %x" % (rng.choice([0, 1, 1, 3]), k, wl, n, rng.choice([1, 3, 1000])) for (k, wl, n) in fl]
        ml_e = ["EDFF %d %x %x" % (1 if k == "s" else 0, wl, n) for (k, wl, n) in fl]
        ea = par_run(self.model, ml_e)
        ml_s = []
        for (k, wl, n), e in zip(fl, ea):
            w = n if k == "s" else ((1 << (10 + (wl >> 3))) * (8 + (wl & 7)) // 8)
            ml_s.append("DSTREAM %s %x 0 1 %x:%x" % (e if e != "ERR" else "0", 1 << 31, w, n if k != "u" else UNKNOWN))
        ms = par_run(self.model, ml_s)
        for ln, a, e, m_ in zip(dl, par_run(self.own, dl), ea, ms):
            self.h("own:fromframe")
            ctx.count(("dff", ln.split()[2], a.split()[0] if a else "EMPTY", int(ln.split()[4], 16) < 1024))
            if not a.startswith("OK "):
                self.report(dict(kind="fromframe", c_case=ln, c_result=a, model_estimate=e, harness="c14_own"),
                            "static DStream of ZSTD_estimateDStreamSize_fromFrame(frame) cannot decode that frame: %s" % a[:100])
                continue
            ctx.cov["traces_validated_against_impl"] += 1
            mm = re.match(r"K/([0-9a-f]+)/([0-9a-f]+)/", m_)
            got = re.match(r"OK est=([0-9a-f]+) in=([0-9a-f]+) out=([0-9a-f]+)", a)
            f = ln.split()
            shortcut = f[2] != "u" and int(f[4], 16) <= 3       # content size known and <= the 3-byte output steps: single-pass shortcut, no buffers
            if got.group(1) != e or not mm or (not shortcut and (got.group(2), got.group(3)) != (mm.group(1), mm.group(2))):
                self.disagreements.append(("fromframe", ln, a, "est=%s %s" % (e, m_)))
        # (f) static CDict from a level, the recipe of zstd.h (KNOWN finding C14-cdict-level-estimate-vs-getcparams)
        kl = []
        for d in (0, 1, 100, 1000, 4096, 10000, 16 * KB - 500, 16 * KB, 112640, 200000):
            for lvl in (1, 3, 5, 9, 13, 19) if ctx.quick else range(1, 23):
                kl.append((rng.choice([0, 1, 2]), d, lvl, rng.choice([0, 0, 0, 513, 100000])))
        cl_ = ["CDLVL %x %x %x %x" % t for t in kl]
        ca = par_run(self.own, cl_)
        starts = {}
        ma = par_run(self.model, ["CDLVL %x %x %x %x" % (8 * pl, d, lvl, hint) for (pl, d, lvl, hint) in kl])
        for ln, a, b, (pl, d, lvl, hint) in zip(cl_, ca, ma, kl):
            self.h("own:cdict-level")
            ctx.count(("cdlvl", a.split()[0] if a else "EMPTY", d <= 10000, hint, lvl > 12))
            if a.split()[0] not in ("OK", "NULL"):
                self.report(dict(kind="cdict-level", c_case=ln, c_result=a, model_result=b, harness="c14_own"), "static CDict from a level: %s" % a[:100])
                continue
            ctx.cov["traces_validated_against_impl"] += 1
            if a != b:
                self.disagreements.append(("cdict-level", ln, a, b))
            elif a.startswith("NULL"):
                est = int(re.search(r"est=([0-9a-f]+)", a).group(1), 16); adv = int(re.search(r"adv=([0-9a-f]+)", a).group(1), 16)
                self.report(dict(kind="cdict-level", c_case=ln, c_result=a, model_result=b, harness="c14_own"),
                            "ZSTD_initStaticCDict refuses a block of ZSTD_estimateCDictSize(%d, %d) = %d bytes for cParams = ZSTD_getCParams(%d, %d, %d) "
                            "(needs %d)" % (d, lvl, est, lvl, hint, d, adv), key="C14-cdict-level-estimate-vs-getcparams" if est < adv else None)
        # (g) reported sizes of heap objects with a counting allocator: CCtx (local dictionary, multithreading, LDM), CDict, DDict
        zl = []
        for nbw, ldm, dsz, byref, lvl, n in ([(0, 0, 0, 0, 3, 20000), (0, 0, 1000, 0, 3, 20000), (0, 0, 1000, 1, 5, 20000), (0, 1, 0, 0, 3, 300000),
                                               (1, 0, 5000, 0, 1, 300000), (2, 1, 0, 0, 3, 400000), (2, 1, 70000, 0, 7, 400000), (0, 0, 100000, 0, 13, 50000)]
                                              + [(rng.choice([0, 0, 1, 2, 3]), rng.choice([0, 1]), rng.choice([0, 8, 999, 40000]), rng.choice([0, 1]),
                                                  rng.choice([-3, 1, 3, 6, 9]), rng.choice([0, 1, 70000, 600000])) for _ in range(6 if ctx.quick else 60)]):
            zl.append("CSZ %x %x %x %x %s %x" % (nbw, ldm, dsz, byref, hx(lvl), n))
        for d in (0, 1, 1000, 100000):
            for br in (0, 1):
                zl.append("OSZ %x %x %s" % (d, br, hx(rng.choice([1, 3, 9, 16]))))
        for ln, a in zip(zl, par_run(self.own, zl, chunks=6)):
            self.h("own:sizeof")
            ctx.count(("sizeof", ln.split()[0], ln.split()[1], ln.split()[2], a.split()[0] if a else "EMPTY"))
            if not a.startswith("OK ") or (ln.startswith("OSZ") and not a.endswith("end=0")):
                self.report(dict(kind="sizeof", c_case=ln, c_result=a, harness="c14_own"),
                            "reported size of a live heap object is below the bytes it holds, or bytes are left behind: %s -> %s" % (ln, a[:120]))
        # (h) a multithreaded CCtx in the MIDDLE of a frame (compressed jobs waiting to be flushed)
        il = ["MTI %x %x %s %x" % t for t in [(2, 0, "1", 12 << 20), (1, 0, "3", 6 << 20), (2, 1, "1", 10 << 20)]]
        for ln, a in zip(il, par_run(self.own, il, chunks=3)):
            self.h("own:sizeof-mt-inflight")
            ctx.count(("mti", ln.split()[1], ln.split()[2], a.split()[0] if a else "EMPTY"))
            if a.startswith("UNDER"):
                self.report(dict(kind="sizeof-mt-inflight", c_case=ln, c_result=a, harness="c14_own"),
                            "ZSTD_sizeof_CCtx under-reports a multithreaded context in the middle of a frame (unflushed job output buffers): %s" % a[:140],
                            key="C14-sizeof-cctx-mt-inflight-buffers")
            elif not (a.startswith("OK ") and a.endswith("end=0 badfree=0")):
                self.report(dict(kind="sizeof-mt-inflight", c_case=ln, c_result=a, harness="c14_own"), "multithreaded heap CCtx: %s -> %s" % (ln, a[:120]))
        # (i) "estimate_usingCParams(c) + exactly c" through ZSTD_compress_advanced (raw cParams): KNOWN finding when hashLog > 24 + rowLog
        al = [(1, 0x1d, 1, 3), (rng.choice([0, 2]), 0x1e, 1, 4), (1, 0x18, 1, 3), (0, 0x14, 6, 5), (1, 0x1d, 1, 2)] + ([] if ctx.quick else [(0, 0x1c, 1, 3)])
        if self.variant != "o1":
            al = [t for t in al if t[1] < 0x1c or t[3] in (3, 4)][:3]      # sanitizer build: only blocks that are refused untouched, or small ones
        alines = ["ADV %x %x %x %x" % t for t in al]
        ae = par_run(self.model, ["ECCTXCP 14 6 %x %x 4 0 %x" % (h_, sl_, st_) for (_, h_, sl_, st_) in al])
        an = par_run(self.model, ["NEEDRAW 14 6 %x %x 4 0 %x 186a0" % (h_, sl_, st_) for (_, h_, sl_, st_) in al])
        for ln, a, e, nd, (_, h_, sl_, st_) in zip(alines, par_run(self.own, alines, chunks=3, timeout=600), ae, an, al):
            self.h("own:advanced-raw")
            m = re.match(r"advanced=(\S+) compress2=(\S+) est=([0-9a-f]+)$", a)
            ctx.count(("adv", h_, sl_, st_, m.group(1) if m else a.split()[0] if a else "EMPTY"))
            if not m or m.group(2) != "OK" or m.group(1) not in ("OK", "M"):
                self.report(dict(kind="advanced-raw", c_case=ln, c_result=a, harness="c14_own"), "static CCtx of estimateCCtxSize_usingCParams(c): %s -> %s" % (ln, a[:100]))
                continue
            ctx.cov["traces_validated_against_impl"] += 1
            model_refuses = int(nd, 16) > int(e, 16)
            if m.group(3) != e or model_refuses != (m.group(1) == "M"):
                self.disagreements.append(("advanced-raw", ln, a, "est=%s need=%s" % (e, nd)))
            elif m.group(1) == "M":
                self.report(dict(kind="advanced-raw", c_case=ln, c_result=a, model_need=nd, harness="c14_own"),
                            "ZSTD_compress_advanced with exactly c = {20, 6, hashLog %d, searchLog %d, 4, 0, strategy %d} on a static CCtx of "
                            "ZSTD_estimateCCtxSize_usingCParams(c) = %d bytes -> memory_allocation (raw cParams need %d); ZSTD_compress2 with the same "
                            "parameters succeeds" % (h_, sl_, st_, int(e, 16), int(nd, 16)),
                            key="C14-advanced-raw-cparams-vs-estimate" if h_ > 24 + max(4, min(sl_, 6)) else None)
        # (j) round 3: the reported size of a multithreaded CCtx whose worker-count change failed half-way (the k-th allocation of
        #     the resizing session fails): the context is still a live object (the next session succeeds), so ZSTD_sizeof_CCtx
        #     must answer, and with at least the bytes held
        fl_ = [(1, 4, k, 0) for k in range(0, 14)] + [(2, 3, k, 0) for k in (1, 2, 4, 6)] + [(1, 2, k, 1) for k in (0, 2, 3, 9, 0xb, 0xd)]
        if not ctx.quick:
            fl_ += [(rng.choice([1, 2, 3]), rng.choice([2, 4, 6]), rng.randint(0, 24), rng.choice([0, 1])) for _ in range(40)]
        mtf = ["MTF %x %x %x %x" % t for t in fl_]
        for ln, a in zip(mtf, par_run(self.own, mtf, chunks=6)):
            self.h("own:sizeof-mt-failed-resize")
            m = re.match(r"r1=OK r2=(OK|M) allocs=[0-9a-f]+ ok/[0-9a-f]+/[0-9a-f]+ r3=OK ok/[0-9a-f]+/[0-9a-f]+ end=0 badfree=0$", a)
            ctx.count(("mtf", ln.split()[1], ln.split()[2], ln.split()[4], "SEGV" if "-SEGV" in a else (m.group(1) if m else "BAD")))
            if "SIZEOF-SEGV" in a:
                self.report(dict(kind="sizeof-mt-failed-resize", c_case=ln, c_result=a, harness="c14_own"),
                            "ZSTD_sizeof_CCtx crashes (NULL pool / jobs table) on a live multithreaded CCtx after a worker-count change %s -> %s whose allocation #%d "
                            "failed (the session returned memory_allocation; the context is otherwise usable): %s" % (ln.split()[1], ln.split()[2], int(ln.split()[3], 16), a[:120]),
                            key="C14-sizeof-cctx-after-failed-mt-resize")
            elif not m:
                self.report(dict(kind="sizeof-mt-failed-resize", c_case=ln, c_result=a, harness="c14_own"),
                            "multithreaded CCtx after a failed worker-count change: under-reported size, a failing / crashing next session or bytes left behind: %s -> %s" % (ln, a[:160]))
            else:
                ctx.cov["traces_validated_against_impl"] += 1
        # (j') round 3: real multi-block frames (library-made: matches reaching back the whole window, every block type) through a static
        #      DStream of exactly ZSTD_estimateDStreamSize_fromFrame(frame) bytes whose end touches a PROT_NONE page
        gl = []
        for _ in range(60 if ctx.quick else 600):
            wlog = rng.choice([10, 10, 11, 12, 13, 14, 15, 16, 17, 18, 20])
            n_ = rng.choice([1, 1000, (1 << wlog) - 1, 1 << wlog, (1 << wlog) + 1, 3 * (1 << wlog) + 17, 131072, 131073, 300000, 700000])
            gl.append("DSG %x %x %x %x %x %x %s %x" % (rng.choice([1, 1, 2, 3]), wlog, n_, rng.randint(0, 999), rng.choice([1, 7, 100, 4096, 70000, 1 << 20]),
                                                       rng.choice([1, 3, 1000, 4096, 1 << 20]), hx(rng.choice([1, 3, 5, 9, 13, -5])), rng.choice([0, 1, 2])))
        for ln, a in zip(gl, par_run(self.own, gl)):
            self.h("own:static-dstream-real-frames")
            f = ln.split()
            ctx.count(("dsg", f[2], int(f[3], 16) > (1 << int(f[2], 16)), f[8], a.split()[0] if a else "EMPTY"))
            if not a.startswith("OK "):
                self.report(dict(kind="static-dstream-real", c_case=ln, c_result=a, harness="c14_own"),
                            "static DStream of ZSTD_estimateDStreamSize_fromFrame(frame) ending at a guard page cannot decode a library-made frame "
                            "(windowLog %d, %d bytes): %s" % (int(f[2], 16), int(f[3], 16), a[:100]))
            else:
                ctx.cov["traces_validated_against_impl"] += 1
        # (k) round 3: ZSTD_copyCCtx between contexts of different allocators: the destination keeps its own
        want = {"CPC a": r"copy=OK end=OK plain=0 taken=[1-9a-f][0-9a-f]* live=0 badfree=0$",
                "CPC b": r"copy=OK end=OK plain=[1-9a-f][0-9a-f]* taken=0 live-after-src-freed=0 live=0 badfree=0$",
                "CPC s": r"copy=OK end=OK plain=0 taken=[1-9a-f][0-9a-f]* live=0 badfree=0$",
                "CPC t": r"copy=OK end=OK plain=0 taken=0 live=0 badfree=0$"}
        cl = sorted(want)
        for ln, a in zip(cl, self.own.run(cl)):
            self.h("own:copycctx")
            ctx.count(("cpc", ln, a.split()[2] if len(a.split()) > 2 else "EMPTY", a.split()[3] if len(a.split()) > 3 else ""))
            if not re.match(want[ln], a):
                self.report(dict(kind="copy-cctx", c_case=ln, c_result=a, harness="c14_own"),
                            "ZSTD_copyCCtx must leave the destination its own allocator: scenario '%s' (a: custom-allocator dst <- default src, "
                            "b: default dst <- custom src, s: custom dst <- static src, t: static dst <- custom src; plain = malloc calls that bypassed "
                            "the counting allocator, taken = blocks taken from it, badfree = foreign blocks handed to its free) expected /%s/, got: %s"
                            % (ln, want[ln], a[:140]), key="C14-copycctx-clobbers-custommem")
        # (l) round 3: ownership histories on one heap CCtx (worker count up / down / 0, LDM on / off, dictionaries by copy /
        #     by reference / prefix / external CDict, thread-pool switches, frames left open with unflushed jobs, resets,
        #     ZSTD_compress_usingDict / _advanced, ZSTD_copyCCtx): ZSTD_sizeof_CCtx >= bytes held after every operation
        big, mid = "90000", "30d40"
        hc = [["W2", "C" + big, "G1", "C" + big, "D3e8/0", "C" + big, "T1", "C" + big, "T2", "C" + big, "T0", "C" + big, "W0", "C" + mid, "W3", "S100000", "Rs", "C" + mid, "Rp", "C64"],
              ["W1", "G1", "w17", "C" + big, "w14", "C" + big, "G0", "C" + big, "P1388", "C" + mid, "K1388", "C" + mid, "k", "X" + big, "Y3", "C3e8"],
              ["W2", "S" + big, "S" + big, "E", "W4", "S" + big, "Rs", "T1", "S" + big, "E", "U1388/3e8", "A186a0/14", "Y13", "W1", "G1", "D186a0/1", "C" + big],
              ["V13", "C186a0", "V1", "C186a0", "Df4240/0", "C64", "Rp", "W2", "J100000", "S" + big, "S" + big, "S" + big, "E"],
              # a multithreaded frame abandoned with unflushed jobs, then the next multithreaded session (same / other worker count)
              ["V1", "W2", "S180000", "S180000", "Rs", "S180000", "E", "W3", "S180000", "Rs", "W2", "C" + big, "S180000", "Rp", "W1", "C" + big]]
        for _ in range(4 if ctx.quick else 60):
            ops = ["V%s" % hx(rng.choice([1, 1, 2, 3, -5]))]
            for _ in range(rng.randint(4, 16)):
                k = rng.choice("WWGwJDPKkTTCCCSSSERRUAYX")
                if k == "W": ops.append("W%x" % rng.choice([0, 1, 2, 3, 4]))
                elif k == "G": ops.append("G%d" % rng.choice([0, 1]))
                elif k == "w": ops.append("w%x" % rng.choice([0, 14, 17, 20]))
                elif k == "J": ops.append("J%x" % rng.choice([0, 1 << 19, 1 << 20]))
                elif k == "D": ops.append("D%x/%d" % (rng.choice([0, 8, 1000, 100000]), rng.choice([0, 1])))
                elif k in "PK": ops.append("%s%x" % (k, rng.choice([8, 5000, 100000])))
                elif k == "T": ops.append("T%d" % rng.choice([0, 1, 2]))
                elif k in "CSX": ops.append("%s%x" % (k, rng.choice([0, 100, 200000, 0x90000, 0x90000, 0x120000])))
                elif k == "R": ops.append(rng.choice(["Rs", "Rp"]))
                elif k == "U": ops.append("U%x/%x" % (rng.choice([100, 200000]), rng.choice([0, 1000, 100000])))
                elif k == "A": ops.append("A%x/%x" % (rng.choice([1000, 200000]), rng.choice([6, 14, 18])))
                elif k == "Y": ops.append("Y%s" % hx(rng.choice([1, 3, 13])))
                else: ops.append(k)
            hc.append(ops)
        hcl = ["CHIS " + " ".join(o) for o in hc]
        for ln, a in zip(hcl, par_run(self.own, hcl, chunks=4, timeout=600)):
            self.h("own:cctx-history")
            ctx.count(("chis", "W" in ln, " G1" in ln, " T" in ln, " S" in ln, " Y" in ln, a.split()[-3] if len(a.split()) > 2 else "EMPTY"))
            if not a.endswith("fine end=0 badfree=0") or "BADTOKEN" in a:
                m = re.search(r"UNDER@(\d+):(\S+) missing=([0-9a-f]+)", a)
                self.report(dict(kind="cctx-history", c_case=ln, c_result=a[-600:], harness="c14_own"),
                            ("ZSTD_sizeof_CCtx under-reports a heap CCtx by %d bytes after operation #%s (%s) of the history" % (int(m.group(3), 16), m.group(1), m.group(2))) if m
                            else "heap CCtx ownership history: crash, bytes left behind after ZSTD_freeCCtx or a foreign block freed: %s" % a[-160:])
            else:
                ctx.cov["traces_validated_against_impl"] += 1
                # tie of theorems cctx_sizeof_exact / mt_sizeof_exact on the public API: once the workers are idle the reported size
                # EQUALS the bytes held (an over-report is no violation of the property: reported as a correspondence failure only;
                # sanitizer builds over-report a CDict by its structure, see tie_round3)
                neq = [t for t in a.split() if t.count("/") == 2 and t.split("/")[1] != t.split("/")[2]]
                if neq and self.variant == "o1":
                    self.disagreements.append(("cctx-history", ln, "sizeof != live: " + " ".join(neq[:3]), "ZSTD_sizeof_CCtx == live bytes (theorem cctx_sizeof_exact)"))
        core.log("C14 round-2 ties: %d ownership histories, %d static-dict, %d legacy, %d fromFrame, %d cdict-level, %d sizeof cases; %d disagreements so far"
                 % (len(hl), len(sl), len(ll), len(dl), len(cl_), len(zl), len(self.disagreements)))

    # ---- (8) round 3: what a ZSTDMT_CCtx owns / reports, allocation failures included: code == model (coq/Mem/MtOwner.v) ----
    def mt_cases(self):
        rng, ctx = self.rng, self.ctx
        fail_at = lambda k: "1" * (k - 1) + "0"
        cases = []
        # every failure position of the creation (12 allocations) and of the first resize 1 -> 4 (9 allocations)
        for k in range(1, 14):
            cases.append(("2", fail_at(k), []))
        for k in range(0, 11):
            cases.append(("1", "-", ["S4/" + (fail_at(k) if k else "-"), "G1000/1", "S4/-", "G1000/1", "F0"]))
        # pools that are large enough are kept; a failed resize is repaired by the next session whatever it asks for
        cases.append(("4", "-", ["S2/-", "S3/-", "S6/10", "S2/-", "S9/1110", "S9/110", "S1/-", "S12/-"]))
        # buffer traffic: size-conditions test of ZSTDMT_getBuffer (kept: cap <= c <= 8 cap + 7), full pool, flush order
        cases.append(("1", "-", ["G1000/1", "G1000/1", "G1000/1", "F2", "F0", "F0", "G1000/1", "G200/1", "F0", "G1f/1", "F0", "G2000/1", "G8/0", "F0", "F0",
                                 "S3/-", "G800/1", "F0", "Q4b0/1", "Q960/1", "Q4b0/1", "Qc/0", "C5000/11", "C-/11", "C9000/10", "C100/11", "S7/1110", "S7/-"]))
        # the whole ZSTDMT_initCStream_internal: I<n>/<sched>/<ldm hashLog>/<dictSize>/<windowLog>/<jobSize>; every failure position of a
        # call that resizes 1 -> 3, creates a local CDict, grows the round buffer and allocates both LDM tables (13 allocations)
        for k in range(0, 15):
            cases.append(("1", "-", ["I3/%s/12/3e8/14/0" % (fail_at(k) if k else "-"), "I3/-/12/3e8/14/0", "G1000/1", "I3/-/0/0/14/0", "I3/-/10/0/14/80000", "I2/-/14/186a0/17/0"]))
        # a round buffer / LDM tables that EXIST and must grow, with the growing allocation failing (the old block is released first)
        cases.append(("2", "-", ["I2/-/0/0/14/0", "I2/0/0/0/14/800000", "I2/-/0/0/14/800000", "I2/-/10/0/14/0", "I2/0/14/0/14/0", "I2/10/14/0/14/0", "I2/-/14/0/14/0",
                                 "I2/-/0/3e8/14/0", "I2/0/0/1388/14/0", "I2/-/0/1388/14/0"]))
        # more unflushed jobs than the buffer pool has slots (2 workers: job table of 8, pool of 7): the 8th release frees; then no free job slot
        cases.append(("2", "-", ["G1000/1"] * 9 + ["F0"] * 9 + ["G1000/1", "S3/-", "G7d0/1"]))
        for _ in range(30 if ctx.quick else 400):
            n0 = rng.choice([1, 1, 2, 3, 4, 6])
            ops, infl = [], 0
            for _ in range(rng.randint(3, 24)):
                k = rng.choice("SSIIIGGGGFFFQQCC")
                if k == "I":
                    nb = rng.choice([0, 1, 2, 2, 3, 4, 6])
                    ops.append("I%x/%s/%x/%x/%x/%x" % (nb, rng.choice(["-", "-", fail_at(rng.randint(1, 14)), fail_at(rng.randint(1, 4))]), rng.choice([0, 0, 10, 12, 16, 20]),
                                                       rng.choice([0, 0, 8, 1000, 100000]), rng.choice([14, 17, 20, 22]), rng.choice([0, 0, 1 << 19, 1 << 21])))
                    infl = 0 if nb else infl
                    continue
                if k == "S":
                    nb = rng.choice([0, 1, 2, 3, 4, 5, 6, 8, 13])
                    ops.append("S%x/%s" % (nb, rng.choice(["-", "-", fail_at(rng.randint(1, 10)), fail_at(rng.randint(1, 4))])))
                    infl = 0 if nb else infl       # S0 is refused: the buffers stay in flight (the smallest job table has 4 slots)
                elif k == "G" and infl < 10:
                    for _ in range(rng.choice([1, 1, 1, 2, 5])):
                        ops.append("G%x/%d" % (rng.choice([8, 100, 1000, 1000, 7999, 8000, 8008, 100000]), rng.choice([1, 1, 1, 0])))
                        infl += 1
                elif k == "F":
                    for _ in range(rng.choice([1, 1, 2, 6])):
                        ops.append("F%x" % rng.choice([0, 0, 1, 2, 7]))
                        infl = max(0, infl - 1)
                elif k == "Q":
                    ops.append("Q%x/%d" % (12 * rng.choice([1, 100, 800, 801, 6500]), rng.choice([1, 1, 0])))
                elif k == "C":
                    ops.append("C%s/%d%d" % (rng.choice(["-", "100", "5000", "20000"]), rng.choice([1, 1, 0]), rng.choice([1, 1, 0])))
            cases.append(("%x" % n0, rng.choice(["-", "-", "-", fail_at(rng.randint(1, 13))]), ops))
        return cases

    def tie_round3(self):
        ctx = self.ctx
        import re
        sizes = self.mt.run(["SIZES"])[0]
        cases = self.mt_cases()
        cl = ["MTU %s %s %s" % (n, sch, " ".join(ops)) for (n, sch, ops) in cases]
        cr = par_run(self.mt, cl, chunks=4)
        # the I operation (the whole ZSTDMT_initCStream_internal) has inputs that other code computes (size of the local CDict,
        # capacity the round buffer must reach, LDM logs after ZSTD_ldm_adjustParameters): the harness prints them in [..]
        # after the result token and they are handed to the model, which predicts outcome, pools and accounting
        ml = []
        for (n, sch, ops), a in zip(cases, cr):
            rt = a.split()[1:]       # result tokens of the operations (the first one is the creation)
            mops = []
            for j, o in enumerate(ops):
                if o[0] == "I":
                    f = o[1:].split("/")
                    x = re.search(r"\[d=([0-9a-f]+),rb=([0-9a-f]+),hl=([0-9a-f]+),bl=([0-9a-f]+)\]", rt[j]) if j < len(rt) else None
                    d, rb, hl, bl = x.groups() if x else ("0", "0", "0", "0")
                    mops.append("I%s/%s/%s/%s/%s/%s" % (f[0], f[1], "-" if int(f[3], 16) == 0 else (d if int(d, 16) else "1"), rb, hl, bl))
                else:
                    mops.append(o)
            ml.append("MTU %s %s %s %s" % (sizes, n, sch, " ".join(mops)))
        cr = [re.sub(r"\[[^\]]*\]", "", a) for a in cr]
        mr = par_run(self.model, ml, chunks=4)
        for ln, a, b in zip(cl, cr, mr):
            self.h("mt:history")
            toks = [t for t in a.split() if t.count("/") == 7]
            mtoks = [t for t in b.split() if t.count("/") == 7]
            ctx.count(("mtu", len(toks) > 8, " S" in ln and "0 " in ln + " ", any(t.split("/")[3] == "N" or t.split("/")[2] == "N" for t in toks),
                       a.split()[0].split("/")[0] if a else "EMPTY", any(t.endswith("!") for t in mtoks)))
            what, key = None, None
            if not a or a.startswith("CRASH") or "BADTOKEN" in a or "NOSLOT" in a:
                what = "multithreaded-context unit history crashes: %s" % a[:120]
            elif a.startswith("NULL"):
                if a != "NULL live=0 badfree=0":
                    what = "ZSTDMT_createCCtx_advanced failed and left bytes behind: %s" % a
            else:
                for i, t in enumerate(toks):
                    f = t.split("/")
                    if f[7] == "X":
                        what = ("ZSTDMT_sizeof_CCtx crashes on a live context whose resize failed (operation #%d %s; jobs=%s bufPool=%s cctxPool=%s seqPool=%s)"
                                % (i, (ln.split()[2 + i] if i else "create"), f[2], f[3], f[4], f[5]))
                        key = "C14-sizeof-cctx-after-failed-mt-resize" if i < len(mtoks) and mtoks[i].endswith("!") else None
                        break
                    if int(f[7], 16) < int(f[6], 16):
                        what = "ZSTDMT_sizeof_CCtx reports %d while the context holds %d bytes (operation #%d of the history)" % (int(f[7], 16), int(f[6], 16), i)
                        break
                if not what and not a.endswith("end=0 badfree=0"):
                    what = "ZSTDMT_freeCCtx leaves bytes behind or frees a foreign block: %s" % a[-40:]
            if what:
                self.report(dict(kind="mt-own", c_case=ln, c_result=a[:1200], model_result=b[:1200], harness="c14_mt"), what, key=key)
                continue
            ctx.cov["traces_validated_against_impl"] += 1
            a2, b2 = a.replace(" badfree=0", ""), b.replace("!", "")
            if self.variant != "o1":
                # sanitizer build: the workspace redzone in front of a CDict / CCtx structure makes ZSTD_sizeof_CDict (hence
                # ZSTDMT_sizeof_CCtx) count that structure twice: an over-report.  Everything else is compared exactly
                ta, tb = a2.split(), b2.split()
                if len(ta) == len(tb) and all(x.split("/")[:7] == y.split("/")[:7] and (x.count("/") != 7 or int(x.split("/")[7], 16) >= int(y.split("/")[7], 16))
                                              for x, y in zip(ta, tb)):
                    a2 = b2
            if a2 != b2:
                self.disagreements.append(("mt-own", ln, a[:400], b[:400]))
        ctx.sample(dict(kind="mt-ownership", c_case=cl[14][:200], c_result=cr[14][:300], model=mr[14][:300]))
        core.log("C14 round-3 tie: %d multithreaded-context unit histories; %d disagreements so far" % (len(cl), len(self.disagreements)))

    # ---- SEARCH: a model/code disagreement or a broken proof is not yet a violation ----------------------------
    def search(self, seeds):
        """seeds: list of (kind, case...) disagreements.  Runs the direct oracle on the implementation around them."""
        found = []
        rng = self.rng
        cases = []
        hs = [d for d in seeds if d[0] == "history"]
        if hs:
            found += self.search_history(hs)
        for d in seeds[:40]:
            if d[0] == "value":
                f = d[1].split()
                if f[0] in ("ECCTX", "ECSTREAM"):
                    L = int(f[1].replace("-", "-0x") if f[1].startswith("-") else "0x" + f[1], 16)
                    cases += self.level_witnesses(f[0], L)
                    for l in {L, max(1, L - 1), 1} if L >= 1 else {L}:
                        for s in (0, 999, 16 * KB + 1, 128 * KB + 1, 300000):
                            cases.append(dict(kind="L" if f[0] == "ECCTX" else "LS", l=l, L=L, srcLen=s, seed=1))
                elif f[0] in ("ECCTXCP", "ECSTREAMCP"):
                    cp = tuple(int(x, 16) for x in f[1:8])
                    for s in (0, 999, 100000, 300000):
                        cases.append(dict(kind="CP2" if f[0] == "ECCTXCP" else "CPS", cp=cp, srcLen=s, seed=1))
                elif f[0] == "EPP":
                    t = [int(x.replace("-", "-0x") if x.startswith("-") else "0x" + x, 16) for x in f[2:]]
                    pp = dict(lvl=t[0], cp=tuple(t[1:8]), row=t[8], ldm=tuple(t[9:14]), mbs=t[14], ext=t[15], inb=t[16], outb=t[17], nbw=0)
                    for s in (999, 300000):
                        cases.append(dict(kind="PP2" if f[1] == "C" else "PPS", pp=pp, srcLen=s, seed=1))
            elif d[0] == "session" and len(d) > 4:
                cases.append(dict(d[4]))
        if not cases or len(found) >= 3:
            return found
        ests = self.estimate_for(cases)
        clines, meta = [], []
        for cse, est in zip(cases, ests):
            if est is None or est > (1 << 30):
                continue
            for pl in (0, 1, 3):
                clines.append(self.session_line(cse, pl, est))
                meta.append((cse, est))
        res = par_run(self.c, clines, timeout=1500)
        for cl, r, (cse, est) in zip(clines, res, meta):
            if not r.startswith("OK") and not r.startswith("SKIP"):
                found.append((dict(kind="session", c_case=cl, c_result=r, case=cse),
                              "static context of exactly the estimate (%d bytes) does not complete the covered operation: %s" % (est, r[:100])))
                if len(found) >= 3:
                    break
        return found


def replay(ctx, obj):
    rp = obj.get("replay", obj)
    c = Proc(core.build_harness("c14_harness", ["c14_harness.c"], variant="o1", extra_flags=["-w"]))
    line = rp.get("c_case") or rp.get("case")
    if isinstance(line, str) and (line.split()[0] in Run.OWN_KINDS or line.split()[0] == "MTU"):
        c = Proc(core.build_harness("c14_own", ["c14_own.c"], variant="o1", extra_flags=OWN_FLAGS))
        if line.split()[0] == "MTU":
            c = Proc(core.build_harness("c14_mt", ["c14_mt.c"], variant="o1", extra_flags=["-w"]))
        r = c.run([line])[0]
        core.log("replay:", line[:200], "->", r[:300])
        ctx.sample(dict(kind="replay", case=line, result=r))
        ctx.count(("replay", r.split()[0] if r else "EMPTY"))
        if r == rp.get("c_result", "")[:len(r)] or rp.get("c_result", "").startswith(r[:40]):
            ctx.violation(rp, what="replay reproduces: %s -> %s" % (line[:120], r[:160]))
        return
    if not isinstance(line, str):
        core.log("replay file carries no executable case line: %r" % (rp,))
        ctx.violation(rp, what="replay: " + obj.get("what", ""), no_input=True)
        return
    r = c.run([line])[0]
    core.log("replay:", line[:200], "->", r[:300])
    ctx.sample(dict(kind="replay", case=line, result=r))
    ctx.count(("replay", r.split()[0]))
    ctx.count(("replay-recorded", (rp.get("c_result") or "").split()[:1] and rp.get("c_result").split()[0]))
    if line.split()[0] in ("ECCTX", "ECSTREAM", "ECCTXCP", "ECSTREAMCP", "EPP", "ECDICT", "ECDICTADV", "GETCP", "EDSTREAM", "EDDICT", "DBUF", "FWIN"):
        first = (rp.get("first") or [[None, None, None, None]])[0]
        if r.startswith("CRASH") or (first[1] == line and first[2] == r and first[3] != r):
            ctx.violation(rp, what="replay reproduces: %s -> %s%s" % (line[:120], r[:80], (" (model: %s)" % first[3]) if first[3] else ""))
        return
    if line.startswith("HIST "):
        toks = Run.hist_parse(r)["ops"] if r.startswith("OK") else []
        badi = [i for i, t in enumerate(toks) if t[0] != "K"]
        if not r.startswith("OK"):
            ctx.violation(rp, what="replay reproduces: " + r[:200])
        elif badi:
            ctx.violation(rp, what="replay reproduces: operation #%d of the history answers %s after %d served operations" % (badi[0] + 1, toks[badi[0]], badi[0]))
        return
    if r.split()[0] != "OK" or (rp.get("c_result") and rp["c_result"].split()[0] == r.split()[0] and r.split()[0] != "OK"):
        ctx.violation(rp, what="replay reproduces: " + r[:200])


def run(ctx):
    ctx.cov["rule"] = (
        "value cases: every level -8..MAX+3 and extremes, corner + random in-bounds cParams, random CCtx_params (level + "
        "partial overrides + row mode + LDM fields + maxBlockSize + sequence producer + buffer modes), dictionary sizes x levels, "
        "ZSTD_getCParams_internal over level x srcSize x dictSize x mode boundaries; sessions: level pairs l<=L, cParams corners "
        "(minMatch 3, searchLog 3..7, every strategy, windowLog 10/14/15/cap), LDM corners, each at estimate (several "
        "placements against PROT_NONE guard pages) and at estimate-delta; decoder: hand-made frames with window descriptors "
        "around the limit, single-segment frames, oversize-shrink histories; round 2: DCtx ownership histories (1/15/16/17/64/65/200 "
        "DDicts, replaced IDs, local dictionary by copy / by reference / as prefix, frames, resets, ZSTD_copyDCtx) with a counting "
        "allocator, static DCtx (4 fill bytes x 7 operations) and static CCtx (11 operations) with every malloc of the process counted, "
        "ZSTD_copyDCtx across static/heap, legacy v0.5-0.7 frames around the window limit, fromFrame sessions (single segment 0..131071, "
        "descriptors 0..60), CDict by level (10 dictionary sizes x levels x hints), sizeof of heap CCtx/CDict/DDict incl. a multithreaded "
        "context mid-frame, raw cParams through ZSTD_compress_advanced; round 3: unit histories of the multithreaded context (every failure "
        "position of creation / resize / a whole ZSTDMT_initCStream_internal call, pools kept / rebuilt / NULL, buffers at the size-conditions "
        "boundaries, a full pool, growing tables whose allocation fails) compared with the model, heap CCtx ownership histories and DCtx "
        "histories with allocation-failure tokens, failed worker-count changes, ZSTD_copyCCtx across allocators, 19 static-CCtx entry points; "
        "all randomness from random.Random(VERIF_SEED). "
        "distinct_nontrivial counts distinct (case kind, outcome, parameter shape: strategy / minMatch=3 / rowLog / row mode / LDM / "
        "buffer modes / level pair / source-size tier, number of reservations) signatures; SKIP outcomes are trivial.")
    if ctx.replay_file:
        replay(ctx, json.load(open(ctx.replay_file)))
        return
    ctx.prove()
    r = Run(ctx)
    r.tie_values()
    r.tie_sessions()
    r.tie_dicts()
    r.tie_decoder()
    r.tie_heap()
    r.tie_history()
    r.tie_round2()
    r.tie_round3()
    if not ctx.quick:
        # supporting test: the same ties against an ASAN+UBSAN build (workspace poisoning + redzones: a write between
        # two reserved objects is reported by ASAN; the model runs with the redzone of that build)
        ra = Run(CtxView(ctx), variant="asan")
        ra.hist = r.hist
        n0 = len(r.disagreements)
        ra.disagreements = r.disagreements
        ra.tie_values()
        ra.tie_sessions()
        ra.tie_dicts()
        ra.tie_heap()
        ra.tie_history()
        ra.tie_round2()
        ra.tie_round3()
        ctx.notes["asan_pass"] = "values, sessions, static CDict/DDict, heap, histories re-run against the asan build with redzone %s; %d new disagreements" % (
            hx(gen_const("c_ZSTD_CWKSP_ASAN_REDZONE_SIZE")), len(r.disagreements) - n0)
    ctx.notes["case_histogram"] = dict(sorted(r.hist.items()))
    # verdict
    if r.disagreements:
        found = []
        try:
            found = r.search(r.disagreements)
        except Exception as e:
            core.log("search failed:", repr(e))
        first = r.disagreements[0]
        if found:
            for rp, what in found:
                rp["first_disagreement"] = list(first[:4])
                ctx.violation(rp, what=what)
        else:
            ctx.violation(dict(kind="correspondence", disagreements=len(r.disagreements), first=[list(d[:4]) for d in r.disagreements[:5]],
                               c_case=first[1] if first[0] != "value" else None, case=first[1]),
                          what="model and code disagree on %s (%d cases), first: %s -> code %s, model %s"
                               % (first[0], len(r.disagreements), first[1][:120], str(first[2])[:80], str(first[3])[:80]),
                          no_input=True)

    def search_for_proof(broken):
        seeds = [("value", "ECCTX " + hx(l), "", "") for l in (1, 3, 7, 13, 19)]
        seeds += [("value", "ECSTREAM " + hx(l), "", "") for l in (1, 5, 16)]
        seeds += [("value", "ECCTXCP " + cp_str(cp), "", "") for cp in corner_cps(r.cap)[:30]]
        return r.search(seeds)

    ctx.proof_verdict(search_for_proof)
