"""C04 round 2 - generators of valid frames of shapes the bundled compressor never emits, built with the independent writer
c04_enc.  Every generator returns [(name, frame bytes, content the writer's own executor expects)]; R decides validity."""
from . import c04_enc as E

P = E.Tbl.predefined
MAXLOG = {"ll": 9, "of": 8, "ml": 9}


class FB:
    """frame under construction: keeps what the specification makes persistent across blocks (repeat offsets, last tables, last tree)"""

    def __init__(self, rng, window=None, single=False, checksum=False, declare_fcs=None, history=b"", reps=(1, 4, 8), **hk):
        self.rng, self.window, self.single, self.checksum, self.declare_fcs, self.hk = rng, window, single, checksum, declare_fcs, hk
        self.ex = E.Exec(history, reps)
        self.blocks = []
        self.tabs = {"ll": None, "of": None, "ml": None}      # tables in force for Repeat_Mode
        self.tree = None                                       # weights in force for Treeless literals
        self.note = []
        self.expanding_1stream = False
        self.allow_expand = rng.random() < 0.12
        self.free = rng.random() < 0.5          # use the writer's free encoding choices (non-minimal size formats, cut zero runs, unused bits set)

    # ---- literals
    def lit_section(self, lits, mode=None, **kw):
        rng = self.rng
        if mode is None:
            mode = rng.choice(["raw", "huf", "huf", "treeless"] if self.tree else ["raw", "huf", "huf"])
        if mode == "rle" and (len(lits) == 0 or len(set(lits)) != 1):
            mode = "raw"
        if mode == "treeless" and (self.tree is None or not set(lits) <= set(self.tree)):
            mode = "huf"
        if mode == "huf":
            prev_tree = self.tree
            w = kw.pop("weights", None)
            if w is None:
                syms = sorted(set(lits))
                extra = rng.sample(range(256), rng.choice([0, 0, 1, 5]))
                syms = sorted(set(syms) | set(extra))
                if len(syms) < 2:
                    syms = sorted(set(syms) | {(syms[0] + 1) % 256 if syms else 0, 7})
                mb = kw.pop("maxbits", None) or rng.randint(max(1, (len(syms) - 1).bit_length()), 11)
                w, _ = E.huf_complete_weights(rng, len(syms), mb, symbols=None)
                # huf_complete_weights may return more leaves than symbols: assign symbols
                n = len(w)
                pool = syms + [s for s in rng.sample(range(256), 256) if s not in syms]
                pool = pool[:n]
                ws = list(w.values())
                rng.shuffle(ws)
                w = dict(zip(pool, ws))
            self.tree = w
            tm = kw.pop("tree_mode", "auto")
            if tm == "auto" and max(w) <= 128 and rng.random() < 0.3 and len(w) > 3:
                tm = "fse"
            try:
                sec = E.literals_section("huf", lits, weights=w, tree_mode=tm, rng=rng, free=self.free, **kw)
            except (AssertionError, ValueError):
                sec = E.literals_section("huf", lits, weights=w, tree_mode="fse" if max(w) > 128 else "direct", rng=rng, **kw)
            if (sec[0] >> 2) & 3 == 0:
                h = int.from_bytes(sec[:3], "little")
                if ((h >> 14) & 0x3FF) >= ((h >> 4) & 0x3FF):
                    # Compressed_Size >= Regenerated_Size in a single-stream Huffman section: kept in a minority of the frames only
                    # (a HUF_FORCE_DECOMPRESS_X2 build mis-handles them: such frames are tagged and reported under their own key)
                    if not self.allow_expand and len(lits) >= 6:
                        kw2 = dict(kw)
                        kw2["streams"] = 4
                        kw2.pop("size_format", None)
                        return E.literals_section("huf", lits, weights=w, tree_mode="fse" if max(w) > 128 else "direct", rng=rng, **kw2)
                    if not self.allow_expand:
                        self.tree = prev_tree
                        return E.literals_section("raw", lits)
                    self.expanding_1stream = True
            return sec
        if mode == "treeless":
            return E.literals_section("treeless", lits, weights=self.tree, rng=rng, free=self.free, **kw)
        return E.literals_section(mode, lits, rng=rng, free=self.free, **kw)

    # ---- sequence tables
    def table(self, kind, codes, mode=None, log=None, low=None):
        rng = self.rng
        prev = self.tabs[kind]
        present = set(codes)
        if mode is None:
            mode = rng.choice(["predefined", "rle", "fse", "fse", "repeat"])
        if mode == "repeat":
            if prev is None or not present <= set(s for s, _, _ in prev.dt):
                mode = "fse"
            else:
                t = prev.repeat()
        if mode == "rle":
            if len(present) != 1:
                mode = "fse"
            else:
                t = E.Tbl.rle(next(iter(present)))
        if mode == "predefined":
            t = P(kind)
            if not present <= set(s for s, _, _ in t.dt):
                mode = "fse"
        if mode == "fse":
            syms = set(present)
            alpha = {"ll": 36, "of": 32, "ml": 53}[kind]
            for _ in range(rng.choice([0, 0, 1, 3, 10])):
                syms.add(rng.randrange(alpha if kind != "of" else 20))
            lg = log or rng.randint(max(5, (len(syms) - 1).bit_length()), MAXLOG[kind])
            norm = E.normalise(rng, syms, lg, low=rng.choice([0, 0.2, 0.7]) if low is None else low)
            t = E.Tbl.fse(norm, lg, rng if self.free else None)
        self.tabs[kind] = t
        return t

    def compressed(self, lits, seqs, litmode=None, modes=(None, None, None), logs=(None, None, None), nbseq_form=None, litkw=None, last_state_choice=0):
        ok = self.ex.run_block(lits, seqs)
        assert ok, "invalid sequences"
        ls = self.lit_section(lits, litmode, **(litkw or {}))
        if seqs:
            cs = E.seq_codes(seqs)
            saved = dict(self.tabs)
            tll = self.table("ll", [c[0] for c in cs], modes[0], logs[0])
            tof = self.table("of", [c[4] for c in cs], modes[1], logs[1])
            tml = self.table("ml", [c[2] for c in cs], modes[2], logs[2])
            ss = E.sequences_section(seqs, tll, tof, tml, nbseq_form, last_state_choice)
            self.note.append("%s/%s/%s" % (tll.mode[:2], tof.mode[:2], tml.mode[:2]))
        else:
            ss = E.nbseq_bytes(0, nbseq_form)
        self.blocks.append((2, ls + ss, None))
        return len(ls + ss)

    def raw(self, data):
        self.ex.out += data
        self.blocks.append((0, bytes(data), None))

    def rle(self, byte, n):
        self.ex.out += bytes([byte]) * n
        self.blocks.append((1, bytes([byte]), n))

    def tag(self):
        return " [1s-expand]" if self.expanding_1stream else ""

    def frame(self):
        content = self.ex.content()
        fcs = len(content) if (self.single or self.declare_fcs) else None
        out = bytearray(E.frame_header(window=self.window, fcs=fcs, single=self.single, checksum=self.checksum, **self.hk))
        bmax = min(len(content) if self.single else self.window, 131072)
        if any((rs if bt == 1 else len(p)) > bmax for bt, p, rs in self.blocks):
            return None, None       # a block (as stored or as regenerated) above Block_Maximum_Size: not a valid frame, dropped by all_frames
        for k, (bt, p, rs) in enumerate(self.blocks):
            out += E.block(bt, p, last=(k == len(self.blocks) - 1), rle_size=rs)
        if self.checksum:
            out += (E.xxh64(content) & 0xFFFFFFFF).to_bytes(4, "little")
        return bytes(out), content


def rand_lits(rng, n, alpha=None):
    if alpha is None:
        alpha = rng.choice([2, 3, 8, 30, 100, 256])
    syms = rng.sample(range(256), alpha)
    wts = [rng.random() ** 3 for _ in syms]
    return bytes(rng.choices(syms, wts, k=n)) if n else b""


def rand_seqs(rng, avail, nseq, window, lits_budget, max_ml=200, rep_p=0.3):
    """random valid (ll, ml, ofv): offsets stay within min(window, bytes produced so far)"""
    seqs = []
    pos = avail
    lleft = lits_budget
    for _ in range(nseq):
        ll = min(lleft, rng.choice([0, 0, 1, 2, 3, 7, 15, 16, 17, 40, 64, 65, 130]))
        if pos + ll == 0:
            ll = min(lleft, 1)
            if ll == 0:
                break
        lleft -= ll
        ml = rng.choice([3, 3, 4, 5, 8, 34, 35, 36, 66, 67, 131, rng.randint(3, max_ml)])
        lim = min(window, pos + ll)
        if rng.random() < rep_p:
            ofv = rng.choice([1, 2, 3])
        else:
            ofv = rng.choice([1, 2, lim, lim, max(1, lim - 1), rng.randint(1, lim)]) + 3
        seqs.append((ll, ml, ofv))
        pos += ll + ml
    return seqs


def fix_seqs(seqs, history_len, window, reps):
    """drop / repair sequences whose resolved offset is invalid; returns the valid list (greedy)"""
    ex = E.Exec(b"\0" * history_len, reps)
    good = []
    for s in seqs:
        snap = (len(ex.out), list(ex.reps))
        lits = b"\0" * s[0]
        if ex.run_block(lits, [s]):
            # resolved offset is reps[0] after the update
            if ex.reps[0] <= min(window, snap[0] + s[0]) if True else True:
                good.append(s)
                continue
        del ex.out[snap[0]:]
        ex.reps = snap[1]
    return good


def gen_random_frames(rng, n):
    """general mix: several blocks, every literals mode / size format / table mode, window descriptors with mantissa"""
    res = []
    for i in range(n):
        e = rng.choice([0, 0, 1, 2, 4])
        m = rng.randrange(8)
        window = (1 << (10 + e)) + ((1 << (10 + e)) >> 3) * m
        fb = FB(rng, window=window, checksum=rng.random() < 0.3, declare_fcs=rng.random() < 0.5, unused_bit=rng.choice([0, 0, 1]))
        bmax = min(window, 131072)
        for b in range(rng.randint(1, 6)):
            k = rng.random()
            if k < 0.12:
                fb.raw(rand_lits(rng, rng.choice([0, 1, 5, bmax]), None))
            elif k < 0.24:
                fb.rle(rng.randrange(256), rng.choice([0, 1, 2, bmax, rng.randint(0, bmax)]))
            else:
                nl = rng.choice([0, 1, 5, 6, 7, 31, 32, 100, 255, 256, 300, 1023, 1024, 1100])
                nl = min(nl, bmax)
                lits = rand_lits(rng, nl)
                uniform = nl > 0 and rng.random() < 0.15
                if uniform:
                    lits = bytes([rng.randrange(256)]) * nl
                nseq = rng.choice([0, 1, 2, 5, 20, 127, 128, 129, 300])
                seqs = rand_seqs(rng, len(fb.ex.out), nseq, window, nl, max_ml=60)
                seqs = fix_seqs(seqs, len(fb.ex.out), window, fb.ex.reps)
                # stay inside Block_Maximum_Size
                tot = nl
                keep = []
                for s in seqs:
                    if tot + s[1] > bmax:
                        break
                    tot += s[1]
                    keep.append(s)
                seqs = keep
                # literals consumed by the sequences cannot exceed what exists
                need = sum(s[0] for s in seqs)
                if need > nl:
                    continue
                try:
                    fb.compressed(lits, seqs, litmode="rle" if uniform else None, nbseq_form=rng.choice([None, None, 2]) if len(seqs) < 0x7F00 else None,
                                  litkw=dict(streams=rng.choice([1, 4])) if 6 <= nl < 1024 and rng.random() < 0.5 else None,
                                  last_state_choice=rng.randrange(4))
                except (AssertionError, ValueError) as ex_:
                    # the chosen combination is not expressible: restart the block list from what is committed
                    return_state = None
                    fb.ex.out = fb.ex.out      # content already extended by run_block: give up this frame
                    fb = None
                    break
        if fb is None or not fb.blocks:
            continue
        f, x = fb.frame()
        res.append((("rnd w=%d %s" % (window, ",".join(fb.note)[:60])) + fb.tag(), f, x))
    return res


# ------------------------------------------------------------------------------------------------ targeted scenarios
def _w(e, m):
    return (1 << (10 + e)) + ((1 << (10 + e)) >> 3) * m


def gen_block_sizes(rng):
    """blocks of exactly Block_Maximum_Size for windows with a mantissa; RLE / raw / compressed blocks regenerating 0, 1, max bytes;
    content-size field forms; unused header bit; empty frames"""
    res = []
    for e, m in [(0, 0), (0, 1), (0, 7), (1, 3), (3, 5), (7, 0), (7, 1), (8, 0)]:
        window = _w(e, m)
        bmax = min(window, 131072)
        for variant in range(4):
            fb = FB(rng, window=window, declare_fcs=variant & 1, checksum=bool(variant & 2))
            fb.rle(rng.randrange(256), bmax)
            fb.raw(rand_lits(rng, bmax, 256))
            fb.rle(7, 0)
            fb.raw(b"")
            fb.compressed(b"", [], litmode="raw")                           # regenerates 0
            fb.compressed(b"Z", [], litmode="raw")                          # regenerates 1
            fb.compressed(b"Q", [], litmode="rle")
            fb.compressed(b"", [], litmode="raw", nbseq_form=2)              # 0 sequences written on 2 bytes
            # compressed block regenerating exactly bmax: few literals + one long match at offset == min(window, produced)
            ll = rng.choice([0, 1, 3])
            lits = rand_lits(rng, ll + 2)
            off = min(window, len(fb.ex.out) + ll)
            fb.compressed(lits, [(ll, bmax - ll - 2, off + 3)], litmode="raw", modes=("predefined", rng.choice(["predefined", "rle"]), "predefined"))
            # raw literals of exactly bmax inside a compressed block is not possible (block content would exceed bmax); RLE literals are
            lits = bytes([rng.randrange(256)]) * (bmax - 3)
            fb.compressed(lits, [(bmax - 3, 3, 1 + 3)], litmode="rle", litkw=dict(size_format=3), modes=("predefined", "predefined", "predefined"))
            fb.rle(9, 1)
            # a compressed block whose STORED size is exactly Block_Maximum_Size (refused by libzstd before v1.5.4; allowed by the format)
            nf = rng.choice([1, 2])
            hdr = 3 if bmax - 2 - nf >= 4096 or variant == 3 else 2
            fb.compressed(rand_lits(rng, bmax - hdr - nf, 256), [], litmode="raw", litkw=dict(size_format=1 if hdr == 2 else 3), nbseq_form=nf)
            assert len(fb.blocks[-1][1]) == bmax
            f, x = fb.frame()
            res.append((("blocksizes w=%d v=%d" % (window, variant)) + fb.tag(), f, x))
    # single-segment frames: every content-size width, window = content size
    for n in [0, 1, 255, 256, 257, 65535 + 256, 65536 + 256, 70000]:
        for fb_ in (None, 1, 2, 4, 8):
            if fb_ == 1 and n > 255:
                continue
            if fb_ == 2 and not (256 <= n < 65536 + 256):
                continue
            data = rand_lits(rng, n, 256)
            try:
                hdr = E.frame_header(fcs=n, single=True, fcs_bytes=fb_, unused_bit=rng.choice([0, 1]))
            except (AssertionError, KeyError, OverflowError):
                continue
            body = b""
            if n == 0:
                body = E.block(rng.choice([0, 1]), b"" if rng.random() < 0.5 else b"", last=True, rle_size=0)
                if body[0] & 2:       # RLE block carries one byte
                    body += b"\x55"
            else:
                pos = 0
                bl = []
                while pos < n:
                    k = min(n - pos, rng.choice([1, 1000, 131072, n]))
                    bl.append(data[pos:pos + k])
                    pos += k
                for j, b in enumerate(bl):
                    body += E.block(0, b, last=(j == len(bl) - 1))
            res.append(("singleseg n=%d fcsbytes=%s" % (n, fb_), hdr + body, data))
    # non-single-segment frames with explicit FCS widths and dictionary-id field widths holding 0
    for fb_ in (2, 4, 8):
        for db in (0, 1, 2, 4):
            n = 300
            data = rand_lits(rng, n, 256)
            hdr = E.frame_header(window=1024, fcs=n, fcs_bytes=fb_, did_bytes=db, dict_id=0)
            res.append(("fcs%d did%d" % (fb_, db), hdr + E.block(0, data, last=True), data))
    return res


def gen_huffman(rng, big=False):
    """Huffman literals: depth-11 trees, 2..256 symbols, direct vs FSE-compressed weights around the 128-symbol threshold,
    1 / 4 streams of very different sizes, small 4-stream sections (6..13 literals), all size formats"""
    res = []

    def one(name, lits, weights, **kw):
        fb = FB(rng, window=_w(8, rng.randrange(8)))
        try:
            fb.compressed(lits, [], litmode="huf", litkw=dict(weights=weights, **kw))
        except (AssertionError, ValueError) as ex_:
            return
        # a second block re-using the tree
        l2 = bytes(rng.choices(sorted(weights), k=rng.choice([1, 6, 50])))
        fb.compressed(l2, [], litmode="treeless", litkw=dict(streams=rng.choice([1, 4]) if len(l2) >= 6 else 1))
        f, x = fb.frame()
        res.append((name + fb.tag(), f, x))
    # tiny 4-stream sections
    for n in range(6, 14):
        w = {0: 1, 1: 1, 2: 2}
        one("huf4 tiny n=%d" % n, bytes(rng.choices([0, 1, 2], k=n)), w, streams=4, size_format=rng.choice([1, 2, 3]))
    # number of symbols around the direct/FSE threshold, various depths
    for nsym, mb in [(2, 1), (3, 2), (127, 7), (128, 7), (128, 11), (129, 8), (129, 11), (130, 9), (200, 11), (255, 11), (256, 8), (256, 9), (256, 11), (40, 11), (12, 11)]:
        for rep in range(2):
            w, _ = E.huf_complete_weights(rng, nsym, mb, symbols=None)
            if len(w) != nsym:
                continue
            # present symbols: the first nsym byte values, so that direct description is possible up to 129 symbols
            w = dict(zip(range(nsym), w.values()))
            syms = sorted(w)
            n = rng.choice([20, 300, 1000, 5000] if not big else [20000, 100000])
            lits = bytes(rng.choices(syms, [2.0 ** (w[s]) for s in syms], k=n))
            for tm in ("direct", "fse"):
                if tm == "direct" and nsym > 129:
                    continue
                st = 1 if n < 1024 and rng.random() < 0.5 else 4
                one("huf nsym=%d depth=%d %s n=%d s%d" % (nsym, mb, tm, n, st), lits, w, tree_mode=tm, streams=st)
    # uneven streams: one quarter made of 1-bit symbols, the others of 11-bit symbols (and all permutations of the short quarter)
    w, _ = E.huf_complete_weights(rng, 60, 11, symbols=None)
    w = dict(zip(range(len(w)), sorted(w.values())))
    short = [s for s in w if w[s] == max(w.values())]
    longs = [s for s in w if w[s] == 1]
    for n in ([64, 400, 4096, 5000, 20001] if not big else [131072 - 8, 100003]):
        seg = (n + 3) // 4
        for q in range(4):
            lits = bytearray()
            for k in range(4):
                ln = seg if k < 3 else n - 3 * seg
                lits += bytes(rng.choices(short if k == q else longs, k=ln))
            one("huf4 uneven n=%d shortq=%d" % (n, q), bytes(lits), w, streams=4)
        # streams of 7 / 8 / 9 bytes next to long ones: quarter made of exactly 55..71 one-bit symbols is not expressible (equal counts);
        # instead the whole section is small enough that some streams fall below 8 bytes
    for n in (24, 28, 32, 36, 60, 64, 68, 255, 256, 260):
        lits = bytes(rng.choices(short + longs[:2], [30] * len(short) + [1, 1], k=n))
        one("huf4 shortstreams n=%d" % n, lits, w, streams=4)
    return res


def gen_treeless_chains(rng, n=20):
    """one tree re-used across many blocks, across raw / RLE blocks, after raw/RLE-literals blocks; 1 and 4 streams alternating;
    X1 / X2 table kinds are chosen by the first block's sizes"""
    res = []
    # deterministic coverage: the tree must survive a block with raw / RLE literals under each of the three header widths, a raw block,
    # an RLE block and an empty block, each followed by a Treeless user (1 and 4 streams)
    fb = FB(rng, window=_w(3, rng.randrange(8)))
    w, _ = E.huf_complete_weights(rng, 12, rng.randint(4, 11), symbols=None)
    syms = sorted(w)
    fb.compressed(bytes(rng.choices(syms, k=200)), [], litmode="huf", litkw=dict(weights=w, streams=4))
    for mode in ("raw", "rle"):
        for sf in (0, 1, 3):
            n = rng.choice([1, 7, 31])
            fb.compressed(rand_lits(rng, n) if mode == "raw" else bytes([rng.randrange(256)]) * n, [], litmode=mode, litkw=dict(size_format=sf))
            fb.compressed(bytes(rng.choices(syms, k=rng.choice([1, 5, 6, 40]))), [], litmode="treeless", litkw=dict(streams=1))
    for other in ("rawblock", "rleblock", "empty"):
        if other == "rawblock":
            fb.raw(b"raw")
        elif other == "rleblock":
            fb.rle(66, 5)
        else:
            fb.raw(b"")
        fb.compressed(bytes(rng.choices(syms, k=rng.choice([6, 9, 40]))), [], litmode="treeless", litkw=dict(streams=4))
    f, x = fb.frame()
    res.append(("treeless survives-every-literal-header" + fb.tag(), f, x))
    for rep in range(n):
        fb = FB(rng, window=_w(rng.choice([0, 2, 7]), rng.randrange(8)), checksum=rng.random() < 0.3)
        bmax = min(fb.window, 131072)
        nsym = rng.choice([2, 5, 17, 100, 256])
        w, _ = E.huf_complete_weights(rng, nsym, rng.randint(max(1, (nsym - 1).bit_length()), 11), symbols=None)
        syms = sorted(w)
        n0 = min(bmax - 600, rng.choice([6, 100, 700, 5000, 40000]))
        if n0 < 6:
            n0 = 6
        try:
            fb.compressed(bytes(rng.choices(syms, [2.0 ** w[s] for s in syms], k=n0)), [], litmode="huf", litkw=dict(weights=w, streams=4))
            for b in range(rng.randint(3, 12)):
                k = rng.random()
                if k < 0.15:
                    fb.raw(rand_lits(rng, rng.choice([0, 3, 50]), 256))
                elif k < 0.25:
                    fb.rle(rng.randrange(256), rng.choice([0, 1, 77]))
                elif k < 0.55:
                    # a block whose literals are raw or RLE between two users of the tree: the tree must survive it
                    # (every header width: the three widths are separate switch cases in the decoder)
                    n = rng.choice([1, 4, 31, 32, 40])
                    sf = rng.choice([0, 1, 3] if n < 32 else [1, 3])
                    if rng.random() < 0.5:
                        fb.compressed(rand_lits(rng, n), [], litmode="raw", litkw=dict(size_format=sf))
                    else:
                        fb.compressed(bytes([rng.randrange(256)]) * n, [], litmode="rle", litkw=dict(size_format=sf))
                else:
                    n = min(bmax - 10, rng.choice([0, 1, 5, 6, 30, 300, 1023, 1024, 3000]))
                    lits = bytes(rng.choices(syms, k=n))
                    nseq = rng.choice([0, 0, 1, 4, 30])
                    seqs = fix_seqs(rand_seqs(rng, len(fb.ex.out), nseq, fb.window, n, max_ml=20), len(fb.ex.out), fb.window, fb.ex.reps)
                    tot, keep = n, []
                    for s in seqs:
                        if tot + s[1] > bmax or sum(q[0] for q in keep) + s[0] > n:
                            break
                        tot += s[1]
                        keep.append(s)
                    fb.compressed(lits, keep, litmode="treeless", litkw=dict(streams=(4 if n >= 1024 else rng.choice([1, 4]) if n >= 6 else 1)))
        except (AssertionError, ValueError):
            continue
        f, x = fb.frame()
        res.append((("treeless chain nsym=%d blocks=%d" % (nsym, len(fb.blocks))) + fb.tag(), f, x))
    return res


def gen_table_modes(rng, n=40):
    """FSE table descriptions at the maximum accuracy logs, RLE mode, repeat chains (repeat after RLE, after predefined, after compressed),
    Number_of_Sequences written on 1 / 2 / 3 bytes at the 127 / 128 / 0x7F00 thresholds"""
    res = []
    for i in range(n):
        window = _w(rng.choice([0, 3, 7, 9]), rng.randrange(8))
        fb = FB(rng, window=window, checksum=rng.random() < 0.2)
        bmax = min(window, 131072)
        try:
            for b in range(rng.randint(2, 7)):
                nseq = rng.choice([1, 2, 9, 126, 127, 128, 129, 255, 256, 257, 1000])
                nl = min(bmax // 2, rng.choice([0, 10, 200, 3000]))
                first_mode = [rng.choice(["predefined", "rle", "fse"]) for _ in range(3)]
                later = [rng.choice(["repeat", "repeat", "rle", "fse", "predefined"]) for _ in range(3)]
                modes = first_mode if b == 0 else later
                # RLE mode needs a single code: build sequences accordingly
                ll_fix = rng.choice([0, 1, 5, 16, 17]) if modes[0] == "rle" or (modes[0] == "repeat" and fb.tabs["ll"] and fb.tabs["ll"].mode in ("rle",)) else None
                seqs = []
                avail = len(fb.ex.out)
                lleft = nl
                tot = nl
                for _ in range(nseq):
                    ll = ll_fix if ll_fix is not None else rng.choice([0, 1, 2, 3, 15, 16, 17, 18, 19, 23, 24, 63, 64, 65])
                    if ll > lleft:
                        ll = 0 if ll_fix is None else ll
                        if ll > lleft:
                            break
                    ml = rng.choice([3, 4, 34, 35, 36, 37, 38, 42, 43, 46, 47, 66, 67, 82, 83, 130, 131, 258, 259])
                    if tot + ml > bmax:
                        break
                    if avail + ll == 0:
                        continue
                    lim = min(window, avail + ll)
                    ofv = rng.choice([1, 2, 3, lim + 3, lim + 3, rng.randint(1, lim) + 3])
                    seqs.append((ll, ml, ofv))
                    lleft -= ll
                    tot += ml
                    avail += ll + ml
                seqs = fix_seqs(seqs, len(fb.ex.out), window, fb.ex.reps)
                if not seqs:
                    continue
                lits = rand_lits(rng, nl)
                form = None
                if len(seqs) < 0x7F00 and rng.random() < 0.3:
                    form = 2
                fb.compressed(lits, seqs, litmode=rng.choice(["raw", "huf", "rle"]), modes=tuple(modes),
                              logs=tuple(rng.choice([None, MAXLOG[k]]) for k in ("ll", "of", "ml")), nbseq_form=form, last_state_choice=rng.randrange(8))
        except (AssertionError, ValueError):
            continue
        if not fb.blocks:
            continue
        f, x = fb.frame()
        res.append((("tablemodes w=%d %s" % (window, ",".join(fb.note)[:70])) + fb.tag(), f, x))
    return res


def gen_many_sequences(rng):
    """Number_of_Sequences at 0x7EFF / 0x7F00 / 0x7F01 and far above (3-byte form); 2-byte form for small counts"""
    res = []
    for nseq in (0x7EFF, 0x7F00, 0x7F01, 40000):
        window = 1 << 17
        fb = FB(rng, window=window)
        fb.raw(rand_lits(rng, 2000, 256))
        seqs = [(0 if i else 1, 3, rng.choice([1, 2, 5, 900 + 3, 1999 + 3])) for i in range(nseq)]
        seqs = fix_seqs(seqs, 2000, window, fb.ex.reps)
        if len(seqs) != nseq:
            continue
        fb.compressed(b"L", seqs, litmode="raw", modes=(rng.choice(["rle", "predefined"]), rng.choice(["predefined", "fse"]), "rle"))
        f, x = fb.frame()
        res.append((("nbseq=%d" % nseq) + fb.tag(), f, x))
    return res


def gen_window_edge(rng, n=24):
    """offsets equal to exactly the window size (and window-1), at every block of long multi-block frames with small windows carrying a
    mantissa: the streaming decoder's ring buffer wraps at many different phases"""
    res = []
    for i in range(n):
        e = rng.choice([0, 0, 1, 2])
        window = _w(e, rng.randrange(8))
        fb = FB(rng, window=window, checksum=rng.random() < 0.3, declare_fcs=rng.random() < 0.3)
        bmax = min(window, 131072)
        try:
            for b in range(rng.randint(4, 40)):
                k = rng.random()
                if k < 0.1:
                    fb.raw(rand_lits(rng, rng.randint(0, bmax), 256))
                elif k < 0.2:
                    fb.rle(rng.randrange(256), rng.randint(0, bmax))
                else:
                    nl = rng.randint(0, min(200, bmax))
                    lits = rand_lits(rng, nl, 256)
                    seqs, avail, lleft, tot = [], len(fb.ex.out), nl, nl
                    for _ in range(rng.choice([1, 3, 10, 40])):
                        ll = min(lleft, rng.choice([0, 1, 2, 9]))
                        ml = rng.choice([3, 4, 8, 17, 33, 100, rng.randint(3, max(3, bmax // 2))])
                        if tot + ml > bmax or avail + ll == 0:
                            break
                        lim = min(window, avail + ll)
                        ofv = rng.choice([lim, lim, lim, max(1, lim - 1), max(1, lim - 7), 1, rng.randint(1, lim)]) + 3
                        if rng.random() < 0.15:
                            ofv = rng.choice([1, 2, 3])
                        seqs.append((ll, ml, ofv))
                        lleft -= ll
                        tot += ml
                        avail += ll + ml
                    seqs = fix_seqs(seqs, len(fb.ex.out), window, fb.ex.reps)
                    fb.compressed(lits, seqs, litmode=rng.choice(["raw", "raw", "huf"]), modes=(rng.choice(["predefined", "fse"]),) * 3)
        except (AssertionError, ValueError):
            continue
        f, x = fb.frame()
        res.append((("windowedge w=%d blocks=%d" % (window, len(fb.blocks))) + fb.tag(), f, x))
    return res


def gen_repcodes(rng, n=30):
    """repeat-offset rules: offset_value 1..3 with and without literal_length 0 (incl. rep1-1), first sequences of a frame using the
    initial 1/4/8 history, chains across blocks (also across raw / RLE blocks and blocks without sequences)"""
    res = []
    for i in range(n):
        window = _w(rng.choice([0, 4]), rng.randrange(8))
        fb = FB(rng, window=window)
        bmax = min(window, 131072)
        fb.raw(rand_lits(rng, rng.choice([9, 10, 50]), 256))
        try:
            for b in range(rng.randint(1, 8)):
                k = rng.random()
                if k < 0.15:
                    fb.raw(rand_lits(rng, 5, 256))
                elif k < 0.25:
                    fb.rle(1, 3)
                elif k < 0.35:
                    fb.compressed(rand_lits(rng, 4), [], litmode="raw")
                else:
                    nl = 60
                    seqs, lleft = [], nl
                    for _ in range(rng.choice([1, 2, 6, 30])):
                        ll = min(lleft, rng.choice([0, 0, 0, 1, 2]))
                        ofv = rng.choice([1, 2, 3, 1, 2, 3, 1 + 3, 2 + 3, 5 + 3, 9 + 3])
                        seqs.append((ll, rng.choice([3, 4, 5]), ofv))
                        lleft -= ll
                    seqs = fix_seqs(seqs, len(fb.ex.out), window, fb.ex.reps)
                    fb.compressed(rand_lits(rng, nl), seqs, litmode="raw", modes=(rng.choice(["predefined", "fse", "repeat"]),) * 3)
        except (AssertionError, ValueError):
            continue
        f, x = fb.frame()
        res.append((("repcodes blocks=%d" % len(fb.blocks)) + fb.tag(), f, x))
    return res


def gen_wide_sequences(rng, n=12, quick=False):
    """sequences with the largest numbers of extra bits (ll 16, ml 16, offset up to the window log) at the start / middle / end of a block,
    with predefined and compressed tables; literal and match lengths at every code boundary"""
    res = []
    for i in range(n):
        wl = rng.choice([17, 18] if quick else [17, 18, 20, 22])
        window = 1 << wl
        fb = FB(rng, window=window)
        # history: RLE blocks are cheap
        hist = rng.choice([131072, 3 * 131072, (1 << wl)])
        left = hist
        while left > 0:
            k = min(131072, left)
            fb.rle(rng.randrange(256), k)
            left -= k
        fb.raw(rand_lits(rng, 300, 256))
        try:
            for b in range(rng.randint(1, 3)):
                big_ll = rng.choice([65535, 65536, 65537, 131071 - 70000, 40000, 32768])
                big_ml = 131072 - big_ll - rng.choice([40, 41, 100])
                if big_ml < 3:
                    big_ml = 3
                avail = len(fb.ex.out)
                off = min(window, avail + 0) if rng.random() < 0.5 else rng.randint(min(avail, window) // 2, min(avail, window))
                small = [(rng.choice([0, 1, 2]), 3, rng.choice([1, 2, 3, 1 + 3, 300 + 3])) for _ in range(rng.choice([0, 2, 10]))]
                where = rng.choice(["first", "mid", "last"])
                big = (big_ll, big_ml, off + 3)
                seqs = [big] + small if where == "first" else small + [big] if where == "last" else small[:len(small) // 2] + [big] + small[len(small) // 2:]
                seqs = fix_seqs(seqs, len(fb.ex.out), window, fb.ex.reps)
                nl = sum(s[0] for s in seqs) + rng.choice([0, 1])
                if nl + sum(s[1] for s in seqs) > 131072:
                    continue
                lits = bytes([rng.randrange(256)]) * nl
                fb.compressed(lits, seqs, litmode="rle", litkw=dict(size_format=3), modes=(rng.choice(["predefined", "fse", "rle"]),) * 3,
                              logs=(rng.choice([None, 9]), rng.choice([None, 8]), rng.choice([None, 9])))
        except (AssertionError, ValueError):
            continue
        f, x = fb.frame()
        res.append((("wideseq wl=%d hist=%d" % (wl, hist)) + fb.tag(), f, x))
    # literal / match lengths at every code boundary
    fb = FB(rng, window=1 << 17)
    fb.raw(rand_lits(rng, 100, 256))
    for base_tab, bits_tab, which in ((E.LL_BASE, E.LL_BITS, "ll"), (E.ML_BASE, E.ML_BITS, "ml")):
        vals = []
        for b_, nb in zip(base_tab, bits_tab):
            vals += [b_, b_ + (1 << nb) - 1]
        vals = [v for v in vals if v < 60000]
        cur = []
        tot = 0
        for v in vals:
            s = (v, 3, 1 + 3) if which == "ll" else (1, v, 2 + 3)
            if tot + s[0] + s[1] > 120000:
                lits = rand_lits(rng, sum(q[0] for q in cur), 4)
                fb.compressed(lits, cur, litmode="huf", modes=("fse", "predefined", "fse"))
                cur, tot = [], 0
            cur.append(s)
            tot += s[0] + s[1]
        if cur:
            lits = rand_lits(rng, sum(q[0] for q in cur), 4)
            fb.compressed(lits, cur, litmode="huf", modes=("predefined", "rle", "predefined") if which == "ml" else ("fse", "fse", "rle"))
    f, x = fb.frame()
    res.append((("codeboundaries") + fb.tag(), f, x))
    return res


def gen_split_literals(rng, n=10):
    """blocks with more than 64 KiB of literals and sequences whose literal runs end exactly at / around the point where libzstd splits
    its literal buffer (litSize - 65536), with zero-length literal runs right there, and 0 / some trailing literals"""
    res = []
    for i in range(n):
        win = _w(7, rng.randrange(8)) if rng.random() < 0.7 else _w(8, rng.randrange(4))     # 128 KiB .. 384 KiB, with mantissa
        fb = FB(rng, window=win, declare_fcs=rng.random() < 0.5)
        for _ in range(rng.choice([0, 1, 2, 4])):       # the phase of the streaming decoder's ring buffer at the big block varies
            fb.rle(rng.randrange(256), rng.choice([1, 5000, 70001, 131072]))
        L = rng.choice([65537, 65536 + 32, 65536 + 33, 70000, 100000, 131072 - 3 - 64])
        split = L - 65536
        cuts = sorted(set(max(0, min(L, split + d)) for d in (-33, -32, -1, 0, 0, 1, 31, 32, 33) if rng.random() < 0.6))
        tail = rng.choice([0, 0, 1, 100])
        seqs, pos = [], 0
        for c in cuts + ([L - tail] if L - tail > (cuts[-1] if cuts else 0) else []):
            ll = c - pos
            if ll < 0:
                continue
            seqs.append((ll, 3, rng.choice([1, 2, 1 + 3, 2 + 3])))
            pos = c
            if rng.random() < 0.5:
                seqs.append((0, 3, rng.choice([1, 2, 3, 1 + 3])))
        seqs = fix_seqs(seqs, len(fb.ex.out), win, fb.ex.reps)
        budget = 131072 - L
        keep, tot = [], 0
        for s in seqs:
            if tot + s[1] > budget:
                break
            tot += s[1]
            keep.append(s)
        if sum(s[0] for s in keep) > L:
            continue
        litmode = rng.choice(["raw", "huf", "rle"])
        lits = bytes([5]) * L if litmode == "rle" else rand_lits(rng, L, rng.choice([2, 16, 200]))
        try:
            fb.compressed(lits, keep, litmode=litmode, modes=(rng.choice(["predefined", "fse"]),) * 3)
            fb.raw(b"end")
        except (AssertionError, ValueError):
            continue
        f, x = fb.frame()
        res.append((("splitlit L=%d %s nseq=%d" % (L, litmode, len(keep))) + fb.tag(), f, x))
    return res


def gen_multiframe(rng, base_frames):
    """frames followed by skippable frames / other frames / empty frames"""
    res = []
    def skip(n, v):
        return (0x184D2A50 + v).to_bytes(4, "little") + n.to_bytes(4, "little") + bytes(rng.randrange(256) for _ in range(n))
    pick = [b for b in base_frames if len(b[1]) < 3000]
    for i in range(min(12, len(pick))):
        a = rng.choice(pick)
        b = rng.choice(pick)
        parts = [(a[1], a[2]), (skip(rng.choice([0, 1, 2, 3, 4, 9]), rng.randrange(16)), b""), (b[1], b[2])]
        if rng.random() < 0.5:
            parts.append((skip(0, 0), b""))
        if rng.random() < 0.3:
            parts.insert(0, (skip(5, 3), b""))
        if rng.random() < 0.3:
            parts.append((E.frame_header(window=1024) + E.block(0, b"", last=True), b""))
        res.append(("multiframe %d parts%s" % (len(parts), " [1s-expand]" if "[1s-expand]" in a[0] + b[0] else ""),
                    b"".join(p[0] for p in parts), b"".join(p[1] for p in parts)))
    return res


def gen_expanding_1stream(rng):
    """single-stream Huffman literals whose Compressed_Size (tree description + stream) is equal to / larger than Regenerated_Size,
    and of Regenerated_Size 0: allowed by the format, never emitted by the bundled compressor"""
    res = []
    for name, lits, w in (("csize==rsize", bytes([0, 1, 0]), {0: 1, 1: 1}), ("csize>rsize", bytes([0, 1]), {0: 1, 1: 1}),
                          ("rsize==0", b"", {0: 1, 1: 1}), ("csize==rsize n=4", bytes([2, 0, 1, 2]), {0: 1, 1: 1, 2: 2})):
        fb = FB(rng, window=1024)
        fb.allow_expand = True
        fb.compressed(lits, [], litmode="huf", litkw=dict(weights=w, streams=1, tree_mode="direct"))
        fb.raw(b"tail")
        f, x = fb.frame()
        res.append(("x2shortcut " + name + " [1s-expand]", f, x))
    return res


def gen_empty_frames(rng, n=12):
    """frames whose content is empty, made of every kind of empty block (raw 0, RLE 0, compressed with empty raw / Huffman / Treeless
    literals and Number_of_Sequences 0 on one or two bytes): also decoded with a NULL destination of capacity 0"""
    res = []
    for v in range(n):
        fb = FB(rng, window=_w(rng.choice([0, 5]), rng.randrange(8)), declare_fcs=rng.random() < 0.5, checksum=rng.random() < 0.5)
        fb.allow_expand = True
        for b in range(rng.randint(1, 5)):
            k = rng.randrange(6)
            if k == 0:
                fb.raw(b"")
            elif k == 1:
                fb.rle(rng.randrange(256), 0)
            elif k == 2:
                fb.compressed(b"", [], litmode="raw", nbseq_form=rng.choice([1, 2]))
            elif k == 3:
                fb.compressed(b"", [], litmode="huf", litkw=dict(weights={0: 1, 1: 1}, streams=1))
            elif k == 4 and fb.tree:
                fb.compressed(b"", [], litmode="treeless", litkw=dict(streams=1))
            else:
                fb.compressed(b"", [], litmode="raw", litkw=dict(size_format=rng.choice([0, 1, 3])))
        f, x = fb.frame()
        res.append(("empty v%d" % v + fb.tag(), f, x))
    res.append(("empty single-segment", E.frame_header(fcs=0, single=True) + E.block(0, b"", last=True), b""))
    res.append(("empty single-segment rle", E.frame_header(fcs=0, single=True, fcs_bytes=8) + E.block(1, b"\x00", last=True, rle_size=0), b""))
    sk = (0x184D2A53).to_bytes(4, "little") + (3).to_bytes(4, "little") + b"abc"
    if res[0][1] is not None:
        res.append(("empty + skippable" + (" [1s-expand]" if "[1s-expand]" in res[0][0] else ""), sk + res[0][1] + sk, b""))
    return res


def gen_spelled_blocks(rng, n=6):
    """instances of the theorems of coq/Codec/C04Forms.v, at every case split of their proofs: frames made of raw blocks, RLE blocks and
    literals-only compressed blocks in every spelling (literals header on 1 / 2 / 3 bytes x Number_of_Sequences 00 / 80 00) with literal
    counts at the limits of each header width (0, 31, 32, 4095, 4096); plus the byte-exact example frame of Properties_C04.v"""
    res = [("spelled coq-example", bytes([40, 181, 47, 253, 0, 72, 68, 0, 0, 60, 0, 0, 7, 8, 9, 128, 0, 3, 0, 0, 5]), bytes([7, 8, 9]))]
    for i in range(n):
        fb = FB(rng, window=1 << rng.choice([13, 14, 17, 19]), declare_fcs=rng.random() < 0.5, checksum=rng.random() < 0.5)
        combos = [(sf, f) for sf in (0, 1, 3) for f in (1, 2)]
        rng.shuffle(combos)
        for sf, f in combos:
            lim = {0: [0, 1, 31], 1: [0, 31, 32, 4095], 3: [0, 31, 32, 4095, 4096, 5000]}[sf]
            nl = rng.choice(lim)
            fb.compressed(rand_lits(rng, nl, 256), [], litmode="raw", litkw=dict(size_format=sf), nbseq_form=f)
            k = rng.random()
            if k < 0.3:
                fb.raw(rand_lits(rng, rng.choice([0, 1, 100]), 256))
            elif k < 0.6:
                fb.rle(rng.randrange(256), rng.choice([0, 1, 100]))
        f_, x = fb.frame()
        res.append(("spelled blocks #%d" % i, f_, x))
    return res


def all_frames(rng, quick):
    """every scenario; quick keeps the frames small (the 1-byte-at-a-time streaming path is part of the path list)"""
    fr = []

    def add(l, maxlen=None, maxn=None):
        l = [t for t in l if t[1] is not None and (maxlen is None or len(t[1]) < maxlen)]
        fr.extend(l if maxn is None else l[:maxn])
    add(gen_expanding_1stream(rng))
    add(gen_spelled_blocks(rng, 4 if quick else 30))
    add(gen_empty_frames(rng, 6 if quick else 40))
    add(gen_random_frames(rng, 40 if quick else 600))
    add(gen_block_sizes(rng), 8000 if quick else None, 12 if quick else None)
    add(gen_huffman(rng), 2000 if quick else None, 45 if quick else None)
    if not quick:
        add(gen_huffman(rng, big=True))
        add(gen_many_sequences(rng))
    add(gen_treeless_chains(rng, 8 if quick else 40))
    add(gen_table_modes(rng, 14 if quick else 150), 20000 if quick else None)
    add(gen_window_edge(rng, 12 if quick else 80), 6000 if quick else None)
    add(gen_repcodes(rng, 14 if quick else 150))
    add(gen_wide_sequences(rng, 3 if quick else 24, quick))
    add(gen_split_literals(rng, 2 if quick else 16))
    add(gen_multiframe(rng, fr))
    if not quick:
        add(gen_long_offsets(rng, 1))
    return fr


def gen_dict_frames(rng, n=12):
    """frames that need a formatted dictionary built by the writer: first blocks using Treeless literals with the dictionary's tree,
    Repeat_Mode with the dictionary's three tables, repeat offsets taken from the dictionary, offsets reaching into the dictionary
    content (also farther than Window_Size while the frame is shorter than the window); later blocks replace tree / tables.
    -> [(name, frame, content, dictionary)]"""
    res = []
    for i in range(n):
        nsym = rng.choice([2, 9, 60, 200, 256])
        w, _ = E.huf_complete_weights(rng, nsym, rng.randint(max(1, (nsym - 1).bit_length()), 11), symbols=None)
        syms = sorted(w)
        of_log, ml_log, ll_log = rng.randint(5, 8), rng.randint(6, 9), rng.randint(6, 9)
        of_norm = E.normalise(rng, range(0, rng.choice([8, 12, 16])), of_log, low=rng.choice([0, 0.3]))
        ml_norm = E.normalise(rng, rng.sample(range(53), rng.randint(4, 53)) + [0, 1, 2], ml_log, low=rng.choice([0, 0.3]), alphabet=None)
        ll_norm = E.normalise(rng, rng.sample(range(36), rng.randint(4, 36)) + [0, 1, 2, 3], ll_log, low=rng.choice([0, 0.3]))
        clen = rng.choice([8, 40, 500, 3000])
        content = bytes(rng.choices(syms, k=clen))
        reps = [rng.randint(1, clen) for _ in range(3)]
        if rng.random() < 0.3:
            reps[rng.randrange(3)] = clen
        did = rng.choice([1, 200, 40000, 3000000000])
        try:
            d = E.make_dict(did, w, of_norm, of_log, ml_norm, ml_log, ll_norm, ll_log, reps, content, rng=rng)
        except (AssertionError, ValueError):
            continue
        window = _w(rng.choice([0, 1, 3]), rng.randrange(8))
        fb = FB(rng, window=window, history=content, reps=tuple(reps), dict_id=rng.choice([0, did]), did_bytes=None, checksum=rng.random() < 0.3)
        fb.tree = dict(w)
        fb.tabs = {"ll": E.Tbl("fse", E.fse_dtable(ll_norm, ll_log), b"", ll_log), "of": E.Tbl("fse", E.fse_dtable(of_norm, of_log), b"", of_log),
                   "ml": E.Tbl("fse", E.fse_dtable(ml_norm, ml_log), b"", ml_log)}
        bmax = min(window, 131072)
        try:
            for b in range(rng.randint(1, 5)):
                nl = min(bmax // 2, rng.choice([0, 3, 40, 300]))
                lits = bytes(rng.choices(syms, k=nl))
                seqs, lleft, tot = [], nl, nl
                fpos = len(fb.ex.out) - clen
                avail = len(fb.ex.out)
                for _ in range(rng.choice([0, 1, 3, 12, 40])):
                    ll = min(lleft, rng.choice([0, 0, 1, 2, 5]))
                    ml = rng.choice([3, 4, 5, 8, 20])
                    if tot + ml > bmax:
                        break
                    p = fpos + ll
                    lim = avail + ll if p <= window else min(window, p)
                    if lim < 1:
                        break
                    ofv = rng.choice([1, 2, 3]) if rng.random() < 0.4 else rng.choice([lim, max(1, lim - 1), rng.randint(1, lim), rng.randint(1, lim)]) + 3
                    seqs.append((ll, ml, ofv))
                    lleft -= ll
                    tot += ml
                    fpos += ll + ml
                    avail += ll + ml
                # validity filter with the dictionary rule
                good, ex = [], E.Exec(b"\0" * len(fb.ex.out), fb.ex.reps)
                fp = len(fb.ex.out) - clen
                for s in seqs:
                    snap = (len(ex.out), list(ex.reps))
                    if ex.run_block(b"\0" * s[0], [s]):
                        off = ex.reps[0]
                        p = fp + s[0]
                        if (off <= p and off <= window) or (off > p and p <= window):
                            good.append(s)
                            fp += s[0] + s[1]
                            continue
                    del ex.out[snap[0]:]
                    ex.reps = snap[1]
                if sum(s[0] for s in good) > nl:
                    continue
                first = (b == 0)
                fb.compressed(lits, good, litmode=rng.choice(["treeless", "treeless", "raw", "huf"]) if nl else "raw",
                              modes=tuple(rng.choice(["repeat", "repeat", "repeat", "fse", "predefined"] if first else ["repeat", "fse", "rle", "predefined"]) for _ in range(3)),
                              litkw=dict(streams=rng.choice([1, 4])) if nl >= 6 else None)
        except (AssertionError, ValueError):
            continue
        f, x = fb.frame()
        if f is not None:
            res.append(("dictw did=%d clen=%d w=%d %s" % (did, clen, window, ",".join(fb.note)[:40]) + fb.tag(), f, x, d))
            # several frames for one dictionary in one stream (every frame starts again from the dictionary's tables / repeat offsets / tree,
            # whatever the previous frame left in the context), skippable frames in between
            if rng.random() < 0.5:
                sk = (0x184D2A50 + rng.randrange(16)).to_bytes(4, "little") + (2).to_bytes(4, "little") + b"sk"
                parts = [(f, x)]
                if len(res) >= 2 and res[-2][3] == d:
                    parts.append((res[-2][1], res[-2][2]))
                parts.append((f, x))
                stream = sk.join(p[0] for p in parts)
                res.append(("dictw multiframe x%d did=%d" % (len(parts), did) + fb.tag(), stream, b"".join(p[1] for p in parts), d))
    return res


def gen_long_offsets(rng, n=1):
    """more than 16 MiB of history (RLE blocks) and blocks with more than 8 sequences, a good share of them with offsets above 8 MiB: the
    run-time choice of the prefetching sequence decoder (ZSTD_getOffsetInfo) is taken in a default build; repeat of that offset table"""
    res = []
    for k in range(n):
        window = 1 << 25
        fb = FB(rng, window=window, declare_fcs=True)
        for i in range(129):
            fb.rle(rng.randrange(256), 131072)
        fb.raw(rand_lits(rng, 1000, 256))
        avail = len(fb.ex.out)
        seqs = []
        for j in range(30):
            ll = rng.choice([0, 1, 4])
            off = rng.randint(9000000, avail) if j % 2 == k % 2 else rng.randint(1, 5000)
            seqs.append((ll, rng.choice([3, 8, 100]), off + 3))
        seqs = fix_seqs(seqs, avail, window, fb.ex.reps)
        nl = sum(s[0] for s in seqs) + 3
        fb.compressed(rand_lits(rng, nl, 256), seqs, litmode="raw", modes=("predefined", "fse", "predefined"))
        seqs = fix_seqs(seqs, len(fb.ex.out), window, fb.ex.reps)
        fb.compressed(rand_lits(rng, nl, 256), seqs, litmode="raw", modes=("predefined", "repeat", "fse"))
        f, x = fb.frame()
        res.append(("longoffsets %d" % k, f, x))
    return res


# ------------------------------------------------------------------------------------------------ unit-level ties
def unit_table_cases(rng, n_fse, n_huf):
    """cases for harness/c04_tables.c with the values the independent writer expects:
    ('F', kind, log, norm, expected cells) ; ('N', maxSymbol, description bytes, log, norm) ; ('H', description bytes, weights incl. last, maxbits)"""
    cases = []
    OF_BASE = [0, 1, 1, 5, 0xD, 0x1D, 0x3D, 0x7D, 0xFD, 0x1FD, 0x3FD, 0x7FD, 0xFFD, 0x1FFD, 0x3FFD, 0x7FFD, 0xFFFD, 0x1FFFD, 0x3FFFD, 0x7FFFD, 0xFFFFD,
               0x1FFFFD, 0x3FFFFD, 0x7FFFFD, 0xFFFFFD, 0x1FFFFFD, 0x3FFFFFD, 0x7FFFFFD, 0xFFFFFFD, 0x1FFFFFFD, 0x3FFFFFFD, 0x7FFFFFFD]
    for i in range(n_fse):
        kind = rng.choice(["ll", "of", "ml"])
        alpha = {"ll": 36, "of": 32, "ml": 53}[kind]
        nsym = rng.choice([1, 2, 3, alpha // 2, alpha])
        syms = rng.sample(range(alpha), nsym)
        log = rng.randint(max(5, (len(syms) - 1).bit_length()), MAXLOG[kind])
        if nsym == 1:
            syms.append((syms[0] + 1) % alpha)      # a one-symbol table is what RLE mode is for: keep two symbols at least
        norm = E.normalise(rng, syms, log, low=rng.choice([0, 0, 0.3, 1.0]))
        dt = E.fse_dtable(norm, log)
        if kind == "ll":
            cells = [(bl, E.LL_BITS[s], nb, E.LL_BASE[s]) for s, nb, bl in dt]
        elif kind == "ml":
            cells = [(bl, E.ML_BITS[s], nb, E.ML_BASE[s]) for s, nb, bl in dt]
        else:
            cells = [(bl, s, nb, OF_BASE[s]) for s, nb, bl in dt]
        cases.append(("F", kind, log, norm, cells))
        cases.append(("N", alpha - 1, E.write_ncount(norm, log, rng if rng.random() < 0.6 else None), log, norm))
    for i in range(n_huf):
        nsym = rng.choice([2, 3, 5, 16, 60, 128, 129, 200, 256])
        w, mb = E.huf_complete_weights(rng, nsym, rng.randint(max(1, (nsym - 1).bit_length()), 11), symbols=None)
        w = dict(zip(sorted(rng.sample(range(256), len(w))) if rng.random() < 0.5 else range(len(w)), w.values()))
        try:
            desc = E.huf_tree_desc(w, "auto" if rng.random() < 0.5 else ("direct" if max(w) <= 128 else "fse"), rng, free=True)
        except (AssertionError, ValueError):
            try:
                desc = E.huf_tree_desc(w, "fse", rng)
            except (AssertionError, ValueError):
                continue
        cases.append(("H", desc, w, mb))
    return cases


def unit_table_check(case, reply, x2=False):
    """compare one reply line of c04_tables with the writer's expectation; returns None or a text describing the first difference"""
    t = reply.split(" ")
    if t[0] != "OK":
        return "refused: " + reply[:80]
    if case[0] == "F":
        _, kind, log, norm, cells = case
        if int(t[2]) != log:
            return "tableLog %s != %d" % (t[2], log)
        got = [tuple(int(v) for v in c.split(":")) for c in t[3:]]
        if len(got) != len(cells):
            return "%d cells, expected %d" % (len(got), len(cells))
        for i, (g, e) in enumerate(zip(got, cells)):
            if g != e:
                return "cell %d: (nextState, nbAdditionalBits, nbBits, baseValue) = %r, specified %r" % (i, g, e)
        if int(t[1]) == 1 and any(g[2] == 0 for g in got):
            return "fastMode is set although a cell reads 0 state bits (the fast bit reader needs at least 1)"
        return None
    if case[0] == "N":
        _, maxsv, desc, log, norm = case
        got = [int(v) for v in t[3].split(",")]
        exp = list(norm)
        while exp and exp[-1] == 0:
            exp.pop()
        while got and got[-1] == 0:
            got.pop()
        if int(t[2]) != log or got != exp:
            return "FSE_readNCount gives log %s counts %r, written log %d counts %r" % (t[2], got, log, exp)
        if int(t[1]) != len(desc):
            return "FSE_readNCount used %s bytes of %d" % (t[1], len(desc))
        return None
    _, desc, w, mb = case
    maxbits, codes = E.huf_codes(w)
    if int(t[1]) != len(desc):
        return "description size %s != %d" % (t[1], len(desc))
    L = int(t[2])
    if L < maxbits:
        return "table log %d below the tree depth %d" % (L, maxbits)
    cells = t[3:]
    if len(cells) != 1 << L:
        return "%d cells for log %d" % (len(cells), L)
    # the symbol whose code prefixes an L-bit index
    owner = [None] * (1 << L)
    for s, (c, nb) in codes.items():
        for i in range(c << (L - nb), (c + 1) << (L - nb)):
            owner[i] = (s, nb)
    for i, cell in enumerate(cells):
        v = [int(q) for q in cell.split(":")]
        s1, nb1 = owner[i]
        if not x2:
            if (v[0], v[1]) != (s1, nb1):
                return "X1 cell %d = (byte %d, nbBits %d), specified code gives (%d, %d)" % (i, v[0], v[1], s1, nb1)
        else:
            b0, b1, nb, ln = v
            if ln == 1:
                if (b0, nb) != (s1, nb1):
                    return "X2 cell %d (1 symbol) = (%d, %d bits), specified (%d, %d)" % (i, b0, nb, s1, nb1)
            else:
                j = (i << nb1) & ((1 << L) - 1)
                s2, nb2 = owner[j]
                if ln != 2 or b0 != s1 or b1 != s2 or nb != nb1 + nb2 or nb > L:
                    return "X2 cell %d (2 symbols) = (%d, %d, %d bits), specified (%d, %d, %d bits)" % (i, b0, b1, nb, s1, s2, nb1 + nb2)
    return None
