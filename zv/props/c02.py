"""C02 - streaming round trip under any call history and buffer segmentation.

Decided by: Coq theorems on the streaming state machines (coq/Stream, Props/Properties_C02.v) + a lock-step
correspondence: the same call history is executed by ZSTD_decompressStream / ZSTD_compressStream2 (rebuilt from /repo,
private fields read through #include) and by the extracted models; per call in.pos, out.pos, the return value and the
private buffering fields are compared.  Direct oracles (the property statement on the real code): streaming output ==
one-shot output, return 0 exactly at flushed frame ends, decode(all emitted) == consumed (through R and libzstd)."""
import json
import random

from .. import codec, core
from .. import streamtie as st
from . import c02_common as cc


def run(ctx):
    cc.run_property(ctx, "C02")
