"""C02 - streaming round trip under any call history and buffer segmentation.

Decided by: Coq theorems on the streaming state machines (coq/Stream, Props/Properties_C02.v) + a lock-step
correspondence: the same call history is executed by ZSTD_decompressStream / ZSTD_compressStream2 (rebuilt from /repo,
private fields read through #include) and by the extracted models; per call in.pos, out.pos, the return value and the
private buffering fields are compared.  Direct oracles (the property statement on the real code): streaming output ==
one-shot output, return 0 exactly at flushed frame ends, decode(all emitted) == consumed (through R and libzstd)."""
import json
import os
import random
import struct

from .. import codec, core
from .. import streamtie as st
from . import c02_common as cc
from . import c02_hist as ch
from . import c02_r3 as r3

RULE = ("decoder: streams = frames emitted by the real compressor (small windows so that the output ring restarts), hand-made "
        "raw/RLE/empty-block frames with every header form, multi-frame + skippable concatenations, magicless, plus damaged "
        "streams (content-size lies with and without an empty last block, checksum damage, reserved block type, truncation) "
        "that R and one-shot decompression reject; each decoded under several call histories: random (chunk sizes from "
        "{0,1,2,3,hint,hint+-1,all,...} x capacities {0,1,2,3,5,rest,...}) and boundary-aimed (every split point of frame "
        "header + first block header, capacity = content size -1/0/+1 around the single-pass shortcut, input = frame size "
        "-1/0, stable-out with exact capacity, maxBlockSize, ignore-checksum); compressor: histories of (slice, capacity, "
        "directive) over inputs around block/window edges incl. capacities compressBound(blockSize|offered)-1/0/+1, stable-in/"
        "out, pledged sizes, multi-frame, a single-call compression on the same context first, nbWorkers>=1 (direct oracle "
        "only); buffer-less compressBegin/Continue/End with contiguous and separated segments, ZBUFF_* round trips, "
        "buffer-less decoding; round 2: histories of 1-4 sessions over ONE reused DCtx (a dictionary / DDict / single-use prefix attached "
        "between streams by every entry point, initDStream* / resetDStream / DCtx_reset after an abandoned stream, stable output buffer, "
        "_simpleArgs, buffers with pos != 0, a single-call decompression in between, skippable frames, legacy v0.5-v0.7 frames; 15 segmentation "
        "styles) with dctx->ddict / dctx->dictUses compared with DictUseModel.v at lock-step points, and decoder histories with a raw or "
        "structured dictionary attached in lock-step with StreamInstDict.v (frames reaching the first and last dictionary byte). A case counts as non-trivial when it has more than one call; its signature is the set of "
        "(stage, return class, buffer-state predicates) it visited.")


# ---------------------------------------------------------------------------------------------
# corpus (boundary cases, run first)

def corpus_streams():
    out = []

    def add(frame, content, desc, parts=None, ml=False):
        out.append(dict(frame=frame, content=content, parts=parts or [(len(frame), len(content))], magicless=ml, desc="corpus-" + desc))
    # regression (repaired in /repo): single segment, FCS 0 (window = blockSizeMax = 0), one RLE block of regenerated size 0;
    # the block-header stage of ZSTD_decompressContinue compared the 1-byte RLE payload with blockSizeMax and refused it
    f0 = st.frame_header(fcs=0, single=True) + st.block(1, b"A", True, rle_len=0)
    add(f0, b"", "rle0-fcs0")
    add(st.frame_header(fcs=0, single=True, magicless=True) + st.block(1, b"A", True, rle_len=0), b"", "rle0-fcs0-ml", ml=True)
    add(st.frame_header(fcs=0, single=True, checksum=True) + st.block(1, b"B", False, rle_len=0) + st.block(0, b"", True)
        + struct.pack("<I", st.xxh64(b"") & 0xFFFFFFFF), b"", "rle0-fcs0-ck")
    # neighbours that every path accepts: empty raw last block in a zero-window frame, RLE 0 in a frame with a window
    add(st.frame_header(fcs=0, single=True) + st.block(0, b"", True), b"", "raw0-fcs0")
    add(st.frame_header(window_log=10) + st.block(1, b"A", True, rle_len=0), b"", "rle0-win")
    add(st.frame_header(fcs=1, single=True) + st.block(1, b"A", True, rle_len=1), b"A", "rle1-fcs1")
    f1 = st.frame_header(fcs=3, single=True) + st.block(0, b"xyz", True)
    add(f1, b"xyz", "raw3-fcs3")
    add(f1 + f0 + f1, b"xyzxyz", "raw3+rle0-fcs0+raw3", parts=[(len(f1), 3), (len(f0), 0), (len(f1), 3)])
    # the historical shapes of the fixed findings
    add(st.frame_header(fcs=2, single=True, fcs_bytes=8) + st.block(0, b"ab", False) + st.block(0, b"", True), b"ab", "fcs8-empty-last")
    return out


# Note (not a finding, see docs/C02.md): a Compressed block of Block_Size 0 is refused by one-shot decompression, by the
# single-pass shortcut and by R, but ZSTD_decompressContinue's block-header stage treats every block with cBlockSize == 0 as an
# empty block.  The stream is invalid, so no property speaks about it; the frames stay here for the lock-step comparison only.


def corpus_damaged_streams():
    """streams that R and one-shot decompression reject (run under the damaged-stream oracle)"""
    out = []

    def add(frame, desc, why, must_reject=True, ml=False):
        out.append(dict(frame=frame, content=None, parts=[(len(frame), 0)], magicless=ml, desc="corpus-" + desc, valid=False, why=why,
                        must_reject=must_reject))
    cb0 = lambda last: st.block(2, b"", last)     # a compressed block of Block_Size 0: no literals / sequences section at all
    add(st.frame_header(fcs=0, single=True) + cb0(True), "cblock0-fcs0", "compressed block of size 0 (last)", False)
    add(st.frame_header(window_log=10) + cb0(True), "cblock0-win", "compressed block of size 0 (last)", False)
    add(st.frame_header(fcs=3, single=True) + st.block(0, b"ABC", False) + cb0(True), "raw3+cblock0", "compressed block of size 0 (last)", False)
    add(st.frame_header(fcs=3, single=True) + cb0(False) + st.block(0, b"ABC", False) + st.block(0, b"", True), "cblock0+raw3+empty",
        "compressed block of size 0 (not last)", False)
    add(st.frame_header(fcs=3, single=True, magicless=True) + cb0(False) + st.block(0, b"ABC", True), "cblock0+raw3-ml",
        "compressed block of size 0 (not last)", False, ml=True)
    # fixed finding f70c502: content-size lie hidden behind an empty last block
    add(bytes.fromhex("28b52ffde002000000000000000a000034010000"), "f70c502", "declares 2 bytes, regenerates 1, empty last block")
    return out


def corpus_decoder_cases(streams):
    cases = []
    for s in streams:
        n = len(s["frame"])
        fl = {"ml": True} if s["magicless"] else {}
        # last entry: hostage byte kept, output flushed by calls without input, ZSTD_NO_FORWARD_PROGRESS_MAX - 1 idle calls, then
        # the call that releases the hostage (reaches an assert(0) that is a no-op in release builds: the code carries on)
        for ops in ["a:r", "1:r", "2:1", "h:r", "h+1:r", "%d:r;a:r" % max(n - 1, 1), "a:0;a:r", "3:r;a:1",
                    "a:1;0:1;0:1;" + "0:r;" * 15 + "a:r"]:
            cases.append(dict(id="c%d" % len(cases), stream=s, ops=ops, flags=dict(fl), maxcalls=2000))
    return cases


# ---------------------------------------------------------------------------------------------
# streams the specification rejects

def _mk_frame(blocks, content, declared=None, checksum=False, ck_value=None, single=False, wl=10, fcs_bytes=None, magicless=False):
    if declared is None:
        hdr = st.frame_header(window_log=wl, magicless=magicless, checksum=checksum)
    elif single:
        hdr = st.frame_header(fcs=declared, single=True, magicless=magicless, checksum=checksum, fcs_bytes=fcs_bytes)
    else:
        hdr = st.frame_header(window_log=wl, fcs=declared, fcs_bytes=fcs_bytes or (4 if declared < 256 else None), magicless=magicless, checksum=checksum)
    tail = b""
    if checksum:
        v = (st.xxh64(bytes(content)) & 0xFFFFFFFF) if ck_value is None else ck_value
        tail = struct.pack("<I", v)
    return hdr + b"".join(blocks) + tail


def damaged_streams(ctx, rng, cd, valid_streams, n):
    """near-valid streams: -> stream dicts with valid=False, kept only when R and the real one-shot decoder both reject"""
    cands = []
    for i in range(n):
        shape = rng.choice(["fcs-empty-last", "fcs-empty-last", "fcs", "fcs-single", "checksum", "reserved", "trunc", "lib-fcs", "lib-ck"])
        ml = rng.random() < 0.15
        nb = rng.randint(1, 4)
        blocks, content = [], bytearray()
        for j in range(nb):
            if rng.random() < 0.6:
                d = rng.randbytes(rng.choice([1, 2, 3, 30, 300, 1000]))
                blocks.append((0, d, 0))
                content += d
            else:
                b, k = rng.randrange(256), rng.choice([1, 2, 50, 1000])
                blocks.append((1, bytes([b]), k))
                content += bytes([b]) * k
        empty_last = shape == "fcs-empty-last" or rng.random() < 0.3

        def ser(bl, empty):
            out = []
            for j, (t, d, k) in enumerate(bl):
                last = (j == len(bl) - 1) and not empty
                out.append(st.block(t, d, last, rle_len=k))
            if empty:
                out.append(st.block(0, b"", True))
            return out
        ck = rng.random() < 0.4
        n_c = len(content)
        frame, why = None, shape
        if shape in ("fcs-empty-last", "fcs", "fcs-single"):
            lie = n_c + rng.choice([1, -1, 1, 7, -n_c])
            if lie < 0 or lie == n_c:
                lie = n_c + 1
            single = shape == "fcs-single" and lie >= max((k if t else len(d)) for t, d, k in blocks)
            frame = _mk_frame(ser(blocks, empty_last), content, declared=lie, checksum=ck, single=single, magicless=ml,
                              fcs_bytes=rng.choice([None, 8]) if not single else None)
            why = "declares %d bytes, regenerates %d%s" % (lie, n_c, ", empty last block" if empty_last else "")
        elif shape == "checksum":
            good = st.xxh64(bytes(content)) & 0xFFFFFFFF
            frame = _mk_frame(ser(blocks, empty_last), content, declared=rng.choice([None, n_c]), checksum=True,
                              ck_value=good ^ (1 << rng.randrange(32)), magicless=ml)
            why = "checksum damaged"
        elif shape == "reserved":
            bl = ser(blocks, empty_last)
            k = rng.randrange(len(bl))
            b0 = bl[k]
            bl[k] = bytes([b0[0] | 6]) + b0[1:]
            frame = _mk_frame(bl, content, declared=None, checksum=ck, magicless=ml)
            why = "reserved block type"
        elif shape == "trunc":
            f = _mk_frame(ser(blocks, empty_last), content, declared=rng.choice([None, n_c]), checksum=ck, magicless=ml)
            frame = f[:max(1, len(f) - rng.choice([1, 1, 2, 3, 4, 5]))]
            why = "truncated"
        else:
            pool = [s for s in valid_streams if s["desc"].startswith("lib-") and len(s["parts"]) == 1 and 8 < len(s["frame"]) < 8000]
            if not pool:
                continue
            s = rng.choice(pool)
            f = bytearray(s["frame"])
            ml = s["magicless"]
            p = 0 if ml else 4
            fhd = f[p]
            if shape == "lib-ck":
                if not (fhd & 4):
                    continue
                f[-1 - rng.randrange(4)] ^= 1 << rng.randrange(8)
                why = "checksum damaged (compressor frame)"
            else:
                hl = cc.header_len(bytes(f), ml)
                nb_f = [1 if (fhd >> 5) & 1 else 0, 2, 4, 8][fhd >> 6]
                if nb_f == 0 or len(s["content"]) < 2:
                    continue
                pos = hl - nb_f
                v = int.from_bytes(f[pos:pos + nb_f], "little")
                v2 = v + rng.choice([1, -1])
                if v2 < 0 or v2 >= 1 << (8 * nb_f):
                    continue
                f[pos:pos + nb_f] = v2.to_bytes(nb_f, "little")
                why = "content-size field changed by one (compressor frame)"
            frame = bytes(f)
        cands.append(dict(frame=frame, content=None, parts=[(len(frame), 0)], magicless=ml, desc="damaged-%s" % shape, valid=False, why=why,
                          must_reject=(shape != "reserved")))
    if not cands:
        return []
    # keep the ones that the specification (R) and the real one-shot decoder both reject
    mres = cd.model([("g%d" % i, ",".join((["magicless"] if s["magicless"] else []) + ["nostrict"]), None, s["frame"]) for i, s in enumerate(cands)])
    dout, derrs = cd.impl(["D g%d oneshot %s - %s %d" % (i, codec.dparams_str({"format": 1}) if s["magicless"] else "-", codec.hx(s["frame"]), 1 << 20)
                           for i, s in enumerate(cands)])
    keep = []
    for i, s in enumerate(cands):
        m = mres.get("g%d" % i, ("ERR", "missing", -1))
        d = codec.parse_ok(dout.get("g%d" % i, "ERR missing"))
        if m[0] == "ERR" and d[0] != "OK":
            keep.append(s)
    return keep


# ---------------------------------------------------------------------------------------------
# boundary-aimed decoding histories

def boundary_decoder_cases(ctx, rng, streams, n_streams, first_id=0):
    cases = []

    def add(s, ops, fl=None, maxcalls=60000):
        fl = dict(fl or {})
        if s["magicless"]:
            fl["ml"] = True
        cases.append(dict(id="b%d" % (first_id + len(cases)), stream=s, ops=ops, flags=fl, maxcalls=maxcalls))
    pool = [s for s in streams if 0 < len(s["frame"]) < 30000]
    rng.shuffle(pool)
    for s in pool[:n_streams]:
        n, c = len(s["frame"]), len(s["content"] or b"")
        hl = cc.header_len(s["frame"], s["magicless"])
        valid = s.get("valid", True)
        # every split point of the frame header and of the first block header (two styles of continuation)
        ks = list(range(1, min(n, hl + 4)))
        if len(ks) > 6:
            ks = rng.sample(ks, 6)
        for k in ks:
            add(s, "%d:r;%s" % (k, rng.choice(["a:r", "h:r", "1:r", "a:%d" % max(c, 1), "h+1:r"])))
        if not valid:
            add(s, rng.choice(["a:r", "h:r", "1:r", "a:3"]))
            continue
        # single-pass shortcut threshold: capacity around the content size, input around the frame size
        first_c = s["parts"][0][1] if s["parts"] else c
        first_n = s["parts"][0][0] if s["parts"] else n
        for cap in {max(first_c - 1, 0), first_c, first_c + 1}:
            add(s, "a:%d;a:r" % cap)
        add(s, "%d:r;a:r" % max(first_n - 1, 1))
        add(s, "%d:%d;a:r" % (first_n, first_c))
        if first_n < n:
            add(s, "%d:r;a:r" % (first_n + rng.choice([1, 2, 4, 5])))
        # stable output buffer with exact / one byte short capacity
        if c < 100000:
            add(s, rng.choice(["a:r", "h:r", "1:r", "h-1:r;2:r"]), dict(so=c))
            if c > 0 and rng.random() < 0.3:
                add(s, "a:r", dict(so=c - 1))
                cases[-1]["legit_error"] = "dstSize_tooSmall"
        # output ring: capacities around the block size, byte-wise output
        bm = st.frame_block_max(s["frame"], s["magicless"]) if (len(s["parts"]) == 1 and s["parts"][0][1] > 0) else 0
        if bm and c > bm:
            for cap in rng.sample([bm - 1, bm, bm + 1, 2 * bm - 1, 2 * bm + 1, 1, 7], 3):
                add(s, "%s:%d" % (rng.choice(["h", "a", "h+1", "100"]), cap), maxcalls=4000)
            if rng.random() < 0.5:
                add(s, "h:r", dict(bm=max(1024, bm)))
    return cases


# ---------------------------------------------------------------------------------------------
# compressor: boundary-aimed histories (direct-to-dst threshold, end shortcut, input-buffer wrap)

def boundary_compressor_cases(ctx, rng, n, first_id=0):
    cases = []
    for i in range(n):
        wl = rng.choice([10, 10, 11, 12])
        p = {"level": rng.choice(cc.FAST_LEVELS), "windowLog": wl}
        if rng.random() < 0.3:
            p["checksum"] = 1
        if rng.random() < 0.3:
            p["maxBlockSize"] = rng.choice([1024, 1025, 2000])
        bs = min(1 << wl, p.get("maxBlockSize", 1 << 17))
        size = rng.choice([bs - 1, bs, bs + 1, 2 * bs - 1, 2 * bs, 2 * bs + 1, 3 * bs, 5 * bs + 3, (1 << wl) + bs, (1 << wl) + bs + 1, 9 * bs])
        x = codec.gen_input(rng, rng.choice(codec.KINDS), size)
        r = rng.random()
        if r < 0.15:
            p["stableIn"] = 1
        elif r < 0.3:
            p["stableOut"] = 1
        style = rng.choice(["direct", "endshort", "wrap", "flushwrap", "stablein"])
        if style == "stablein":     # stable input: a flush starts the frame, then continue calls leave 1 .. blockSize-1 bytes unconsumed
            p.pop("stableOut", None)
            p["stableIn"] = 1
        ops = []
        if style == "direct":       # capacity around compressBound(blockSize): direct-to-dst or through outBuff
            for _ in range(rng.randint(2, 8)):
                ops.append("%s:%s:%d" % (rng.choice(["b", "b", "b+1", "b-1", "h", "a"]), rng.choice(["c", "c-1", "c+1", "c", "5", "r"]), rng.choice([0, 0, 1, 2])))
        elif style == "endshort":   # ZSTD_e_end with capacity around compressBound(remaining input), with and without buffered input
            for _ in range(rng.randint(0, 2)):
                ops.append("%s:r:%d" % (rng.choice(["0", "1", "b", "b-1", "100"]), rng.choice([0, 0, 1])))
            ops.append("a:%s:2" % rng.choice(["C", "C-1", "C+1", "C", "C-1"]))
            ops.append("a:%s:2" % rng.choice(["C", "r", "3"]))
        elif style == "stablein":
            ops.append("%s:r:1" % rng.choice(["1", "100", "b", "b+1"]))
            for _ in range(rng.randint(2, 8)):
                ops.append("%s:%s:%d" % (rng.choice(["b-1", "b-1", "h-1", "1001", "1023", "b+5", "2b-1" if False else "b+1", "1"]), rng.choice(["r", "r", "c", "5"]),
                                         rng.choice([0, 0, 0, 1])))
        elif style == "wrap":       # fill the input buffer to its end: inBuffTarget > inBuffSize restarts at 0
            for _ in range(rng.randint(3, 12)):
                ops.append("%s:%s:0" % (rng.choice(["b", "b", "h", "h", "b-1", "b+1", "1"]), rng.choice(["r", "r", "c", "7"])))
        else:
            for _ in range(rng.randint(3, 12)):
                ops.append("%s:%s:%d" % (rng.choice(["b-1", "h-1", "h", "1", "3", "b+1"]), rng.choice(["r", "1", "c-1", "0"]), rng.choice([0, 1, 1])))
        pledged = size if rng.random() < 0.1 else None
        cases.append(dict(id="e%d" % (first_id + i), x=x, params=p, ops=";".join(ops), pledged=pledged, kind="edge-" + style, mt=False, pre=None))
    return cases


def wrap_alias_cases(ctx, rng, n, first_id=0):
    """histories aimed at the wrap of the compressor's input window buffer (inBuffTarget > inBuffSize) at an off-grid position:
    a small flush at the very start shifts every block, the buffer wraps just above the window size, a second small flush
    right after the wrap makes the first segment after the wrap tiny, then a full contiguous block overwrites the old segment.
    The data is self-similar at the distance of one lap of the buffer (old and new bytes at the same buffer positions share a
    short prefix), so that a match finder that still trusts overwritten positions emits matches the decoder resolves differently."""
    cases = []
    for i in range(n):
        wl = rng.choice([10, 10, 11, 12, 12, 13]) if i % 6 else 17
        lap = 1 << wl
        period = rng.choice([32, 64, 64, 128])
        snip = rng.choice([8, 12, 16, 16, 24])
        q = rng.randbytes(period)
        f1, f2 = rng.choice([1, 1, 2, 3, 5]), rng.choice([1, 1, 2, 3])
        lap1 = bytearray(rng.randbytes(lap))
        for j in range(0, lap, period):
            lap1[j:j + snip] = q[:min(snip, lap - j)]
        lap2 = (q * (lap // period + 1))[:lap]
        x = rng.randbytes(f1) + bytes(lap1) + rng.randbytes(f2) + lap2 + rng.randbytes(rng.choice([0, 1, 100]))
        # with small windows the lazy strategies (levels 5, 6) are the ones that reach back across the wrap point
        p = {"level": rng.choice([1, 2, 3, 4, 5, 6]) if wl == 17 else rng.choice([5, 5, 6, 6, 6, 3, 1]), "windowLog": wl}
        if rng.random() < 0.2:
            p["checksum"] = 1
        ops = "%d:r:1;%d:r:0;%d:r:1;%d:r:0;a:r:2" % (f1, lap, f2, lap)
        if rng.random() < 0.3:      # same shape with the laps offered in several calls
            k = rng.choice([2, 3, 4])
            ops = "%d:r:1;" % f1 + ";".join(["%d:r:0" % (lap // k)] * k + ["%d:r:0" % (lap - (lap // k) * k)] if lap % k else ["%d:r:0" % (lap // k)] * k) \
                  + ";%d:r:1;%d:r:0;a:r:2" % (f2, lap)
        cases.append(dict(id="w%d" % (first_id + i), x=x, params=p, ops=ops, pledged=None, kind="wrap-alias", mt=False, pre=None))
    return cases


def pre_oneshot_cases(ctx, rng, n, first_id=0):
    """the same context served a single-call compression (other size) before the streamed frame"""
    cases = []
    for i in range(n):
        size = rng.choice([100, 300, 1000, 5000])
        x = codec.gen_input(rng, rng.choice(codec.KINDS), size)
        p = cc.stream_cparams(rng)
        p.pop("format", None)
        pre = rng.choice([size, size // 3, size - 1, 1])
        ops = rng.choice(["a:r:2", "100:r:0;a:r:2", "h:r:0", "a:5:2", "1:r:1;a:r:2"])
        cases.append(dict(id="p%d" % (first_id + i), x=x[:rng.choice([size, size // 3, 100])] if rng.random() < 0.7 else x, params=p, ops=ops,
                          pledged=None, kind="pre-oneshot", mt=False, pre=pre))
        cases[-1]["pre"] = min(pre, len(cases[-1]["x"])) if rng.random() < 0.5 else pre
    return cases


# ---------------------------------------------------------------------------------------------
# buffer-less and legacy entry points (differential runs; the state machines behind them are not modelled here
# except ZSTD_decompressContinue)

def run_bufferless_and_legacy(ctx, rng, tie, cd, streams, n):
    lines, meta = [], {}
    for i in range(n):
        size = rng.choice([0, 1, 100, 1000, 3000, 5000, 9000, 20000])
        x = codec.gen_input(rng, rng.choice(codec.KINDS), size)
        p = {"level": rng.choice(cc.FAST_LEVELS), "windowLog": rng.choice([10, 11, 12, 17])}
        if rng.random() < 0.4:
            p["checksum"] = 1
        segs, left = [], size
        while left > 0 and len(segs) < 40:
            k = min(left, rng.choice([1, 2, 3, 100, 1000, 1023, 1024, 1025, 4096, 5000]))
            segs.append(("!" if rng.random() < 0.4 else "") + str(k))
            left -= k
        kid = "K%d" % i
        lines.append("K %s %s %s %s" % (kid, codec.params_str(p), codec.hx(x), ",".join(segs) or "0"))
        meta[kid] = dict(kind="bufferless-compress", x=x, params=p, segments=segs)
        if i < n // 2:
            lid = "L%d" % i
            ic, oc = rng.choice([1, 2, 3, 100, 1000, 131072]), rng.choice([1, 2, 3, 5, 100, 1000, 131072])
            lines.append("L %s %d %s %d %d" % (lid, rng.choice([1, 3, 5]), codec.hx(x), ic, oc))
            meta[lid] = dict(kind="zbuff-roundtrip", x=x, inchunk=ic, outchunk=oc)
    out, errs = tie.impl(lines)
    if errs:
        ctx.violation(dict(kind="harness-crash", detail=errs[:2]), what="c02_stream crashed in a buffer-less / ZBUFF run: %r" % (errs[0],))
    rcases, dlines = [], []
    for cid, m in meta.items():
        r = out.get(cid)
        rep = dict(kind=m["kind"], input_hex=m["x"].hex()[:100000], **{k: v for k, v in m.items() if k not in ("x", "kind")})
        if r is None or not r.startswith("OK "):
            ctx.violation(dict(rep, result=str(r)[:200]), what="%s failed on a legal call sequence: %s" % (m["kind"], str(r)[:120]))
            continue
        t = r.split(" ")
        m["frame"] = codec.unhx(t[1])
        if m["kind"] == "zbuff-roundtrip":
            if codec.unhx(t[2]) != m["x"]:
                ctx.violation(dict(rep, frame_hex=m["frame"].hex()[:100000]), what="ZBUFF_* streaming round trip does not regenerate the input (in chunk %d, out chunk %d)" % (m["inchunk"], m["outchunk"]))
                continue
        rcases.append((cid, "nostrict", None, m["frame"]))
        dlines.append("D %s stream:%d:%d - - %s %d" % (cid, 1 + len(m["frame"]) // 3, 1 + len(m["x"]) // 4, codec.hx(m["frame"]), len(m["x"]) + 16))
    mres = cd.model(rcases) if rcases else {}
    dout, derrs = cd.impl(dlines)
    for cid, m in meta.items():
        if "frame" not in m:
            continue
        rep = dict(kind=m["kind"], input_hex=m["x"].hex()[:100000], frame_hex=m["frame"].hex()[:100000],
                   **{k: v for k, v in m.items() if k not in ("x", "kind", "frame")})
        mr = mres.get(cid, ("ERR", "missing", -1))
        d = codec.parse_ok(dout.get(cid, "ERR missing"))
        if mr[0] != "OK" or mr[1] != m["x"]:
            ctx.violation(rep, what="%s: the reference decoder R does not regenerate the input from the emitted frame (%s)" % (m["kind"], "ERR %s" % (mr[1],) if mr[0] != "OK" else "content differs"))
        elif d[0] != "OK" or d[1] != m["x"]:
            ctx.violation(rep, what="%s: libzstd does not regenerate the input from the emitted frame (%s)" % (m["kind"], d[1] if d[0] != "OK" else "content differs"))
        ctx.count(("BL", m["kind"], len(m.get("segments", [])) > 1, any(s.startswith("!") for s in m.get("segments", [])), len(m["x"]) > 4096), nontrivial=len(m["x"]) > 0)
    # buffer-less decoding: real ZSTD_decompressContinue fed ZSTD_nextSrcSizeToDecompress and the model's protocol run
    vs = [s for s in streams if s.get("valid", True) and not s["magicless"] and len(s["frame"]) < 20000][:n]
    dl = ["D B%d continue - - %s %d" % (i, codec.hx(s["frame"]), len(s["content"]) + 16) for i, s in enumerate(vs)]
    bl = ["B B%d - %s" % (i, codec.hx(s["frame"])) for i, s in enumerate(vs)]
    bo, berrs = cd.impl(dl)
    mo, merrs = tie.model(bl)
    if berrs or merrs:
        ctx.violation(dict(kind="harness-crash", detail=(berrs + merrs)[:2]), what="harness / model crashed in a buffer-less decoding run", no_input=True)
    for i, s in enumerate(vs):
        rep = dict(kind="bufferless-decode", frame_hex=s["frame"].hex(), desc=s["desc"])
        d = codec.parse_ok(bo.get("B%d" % i, "ERR missing"))
        if d[0] != "OK" or d[1] != s["content"]:
            ctx.violation(rep, what="buffer-less decoding (decompressBegin/Continue fed nextSrcSizeToDecompress) of a valid stream %s: %s"
                                    % (s["desc"], d[1] if d[0] != "OK" else "output differs from the one-shot output"))
        m = mo.get("B%d" % i, "ERR missing")
        if not m.startswith("OK ") or codec.unhx(m.split(" ")[1]) != s["content"]:
            ctx.violation(dict(rep, model=m[:200]), what="the buffer-less protocol of DStreamModel does not regenerate the content of a valid stream (%s): %s" % (s["desc"], m[:80]),
                          no_input=(d[0] == "OK" and d[1] == s["content"]))
        ctx.count(("BD", len(s["parts"]) > 1, s["desc"].split("-")[0]), nontrivial=len(s["frame"]) > 0)


def check_spec_against_R(ctx, tie, cd, streams):
    """the theorems speak about DStreamModel.spec_decode (instantiated with R's block decoder); the oracle content of the
    streams comes from the compressor's input / the frame builder.  Validate per run that the executable specification
    agrees with the lead's reference decoder R (coq/Codec/Frame.v) and with that content on every stream used."""
    sl = ["S s%d %s %s" % (i, "ml" if s["magicless"] else "-", codec.hx(s["frame"])) for i, s in enumerate(streams)]
    rl = [("s%d" % i, ",".join((["magicless"] if s["magicless"] else []) + ["nostrict"]), None, s["frame"]) for i, s in enumerate(streams)]
    so, serrs = tie.model(sl)
    ro = cd.model(rl)
    if serrs:
        ctx.violation(dict(kind="model-crash", detail=serrs[:2]), what="the extracted specification decoder crashed: %r" % (serrs[0],), no_input=True)
    for i, s in enumerate(streams):
        sr = so.get("s%d" % i, "ERR missing")
        rr = ro.get("s%d" % i, ("ERR", "missing", -1))
        s_ok = sr.startswith("OK ")
        s_out = codec.unhx(sr.split(" ")[1]) if s_ok else None
        rep = dict(kind="spec-vs-R", frame_hex=s["frame"].hex()[:100000], desc=s["desc"], spec=sr[:120], R=str(rr[:2])[:120])
        if s.get("valid", True):
            if not s_ok or s_out != s["content"] or rr[0] != "OK" or rr[1] != s["content"]:
                ctx.violation(rep, what="specification decoders disagree on a valid stream (%s): DStreamModel.spec_decode %s, R %s"
                                        % (s["desc"], "OK" if s_ok and s_out == s["content"] else sr[:60], "OK" if rr[0] == "OK" and rr[1] == s["content"] else str(rr[:2])[:60]),
                              no_input=True)
        elif s.get("must_reject", True) and (s_ok or rr[0] == "OK"):
            ctx.violation(rep, what="a damaged stream (%s, %s) is accepted by a specification decoder: spec_decode %s, R %s"
                                    % (s["desc"], s.get("why"), sr[:40], rr[0]), no_input=True)
        ctx.count(("SPEC", s.get("valid", True), len(s["parts"]) > 1, s["magicless"]), nontrivial=len(s["frame"]) > 0)


# ---------------------------------------------------------------------------------------------
# ZSTD_window_update: lock-step against coq/Stream/WindowModel.v through the buffer-less API (explicit segment places)

def window_layouts(rng, n):
    """-> list of (arena size, [(offset, length)], data, params): round buffers wrapping at off-grid places, overlapping and
    repeated places, contiguous runs; data self-similar at the distance of one lap so that stale indices would be used"""
    out = []
    for i in range(n):
        wl = rng.choice([10, 10, 11, 12])
        lap = 1 << wl
        style = rng.choice(["ring", "ring", "ringflush", "random", "same", "contig"])
        segs, pos = [], 0
        if style in ("ring", "ringflush"):
            ring = lap + rng.choice([lap, lap // 2, 1, 100])          # like inBuff: window + block (or other round buffers)
            total = rng.choice([2, 3, 4]) * lap + rng.randrange(64)
            left = total
            while left > 0:
                k = min(left, rng.choice([1, 1, 2, 3, lap, lap, lap - 1, lap // 2, 100]) if style == "ringflush" else rng.choice([lap, lap, lap // 2, lap - 1, 100]))
                if pos + k > ring:
                    pos = 0
                segs.append((pos, k))
                pos += k
                left -= k
            asz = ring
        elif style == "random":
            asz = 3 * lap
            for _ in range(rng.randint(3, 12)):
                k = rng.choice([1, 5, 100, lap // 2, lap, lap + 7])
                segs.append((rng.randrange(0, asz - k), k))
        elif style == "same":
            asz = 2 * lap + 16
            off = rng.randrange(0, lap)
            for _ in range(rng.randint(3, 8)):
                segs.append((off + rng.choice([0, 0, 1, 8]), rng.choice([lap // 2, lap, 100, 1])))
        else:
            asz = 6 * lap
            for _ in range(rng.randint(2, 6)):
                k = rng.choice([1, 100, lap, lap // 2])
                segs.append((pos, k))
                pos += k
        total = sum(k for _, k in segs)
        period, snip = rng.choice([32, 64, 128]), rng.choice([8, 16, 24])
        q = rng.randbytes(period)
        data = bytearray(rng.randbytes(total))
        for j in range(0, total, period):
            data[j:j + snip] = q[:min(snip, total - j)]
        if rng.random() < 0.5:      # second half fully periodic: long matches against whatever sits one lap behind
            half = total // 2
            data[half:] = (q * (total // period + 2))[:total - half]
        p = {"level": rng.choice([1, 3, 5, 5, 6, 6]), "windowLog": wl}
        if rng.random() < 0.2:
            p["checksum"] = 1
        out.append(dict(asz=asz, segs=segs, data=bytes(data), params=p, style=style))
    return out


def run_window_tie(ctx, rng, tie, cd, n):
    lays = window_layouts(rng, n)
    lines = ["W v%d %s %d %s %s" % (i, codec.params_str(l["params"]), l["asz"], codec.hx(l["data"]), ",".join("%d:%d" % s for s in l["segs"]))
             for i, l in enumerate(lays)]
    out, errs = tie.impl(lines)
    if errs:
        ctx.violation(dict(kind="harness-crash", detail=errs[:2]), what="c02_stream crashed in a window run: %r" % (errs[0],))
    mlines, rcases, dlines = [], [], []
    for i, l in enumerate(lays):
        r = out.get("v%d" % i)
        l["rep"] = dict(kind="window-layout", params=l["params"], arena=l["asz"], segs=l["segs"], style=l["style"], input_hex=l["data"].hex()[:100000])
        if r is None or not r.startswith("OK "):
            ctx.violation(dict(l["rep"], result=str(r)[:200]), what="buffer-less compression over arena segments failed: %s" % (str(r)[:100],))
            continue
        t = r.split(" ")
        l["frame"] = codec.unhx(t[1])
        l["recs"] = [x for x in t[2].split(";") if x]
        mlines.append("W v%d %s %s %s" % (i, l["recs"][0], ",".join("%d:%d" % s for s in l["segs"]), t[3] if len(t) > 3 else "131072:131072"))
        rcases.append(("v%d" % i, "nostrict", None, l["frame"]))
        dlines.append("D v%d stream:%d:%d - - %s %d" % (i, 1 + len(l["frame"]) // 3, 1 + len(l["data"]) // 4, codec.hx(l["frame"]), len(l["data"]) + 16))
    mo, merrs = tie.model(mlines)
    mres = cd.model(rcases) if rcases else {}
    dout, derrs = cd.impl(dlines)
    if merrs or derrs:
        ctx.violation(dict(kind="harness-crash", detail=(merrs + derrs)[:2]), what="model / harness crashed in a window run", no_input=True)
    for i, l in enumerate(lays):
        if "frame" not in l:
            continue
        rep = dict(l["rep"], frame_hex=l["frame"].hex()[:100000])
        # direct oracle: the frame regenerates the segments in order
        mr = mres.get("v%d" % i, ("ERR", "missing", -1))
        d = codec.parse_ok(dout.get("v%d" % i, "ERR missing"))
        bad = None
        if mr[0] != "OK" or mr[1] != l["data"]:
            bad = "the reference decoder R does not regenerate the input (%s)" % ("ERR %s" % (mr[1],) if mr[0] != "OK" else "content differs")
        elif d[0] != "OK" or d[1] != l["data"]:
            bad = "libzstd does not regenerate the input (%s)" % (d[1] if d[0] != "OK" else "content differs")
        if bad:
            ctx.violation(rep, what="buffer-less compression over arena segments (%s, %s): %s" % (l["style"], l["params"], bad))
        # window after compressBegin on a fresh context = ZSTD_window_clear(ZSTD_window_init)
        r0 = l["recs"][0].split(":")
        if not (r0[2] == r0[3] == "2" and int(r0[4]) - int(r0[0]) == 2 and r0[0] == r0[1]):
            ctx.violation(dict(rep, window=l["recs"][0]), what="match-state window after compressBegin is not the cleared initial window: %s" % l["recs"][0], no_input=True)
        m = mo.get("v%d" % i, "ERR missing")
        mrecs = [x for x in m.split(" ")[1].split(";") if x] if m.startswith("OK ") else None
        if mrecs is None or mrecs != l["recs"][1:]:
            k = next((j for j, (a, b) in enumerate(zip(mrecs or [], l["recs"][1:])) if a != b), min(len(mrecs or []), len(l["recs"]) - 1))
            ctx.violation(dict(rep, segment=k, implementation=(l["recs"][1:] + ["-"])[k], model=((mrecs or []) + ["-"])[k]),
                          what="ZSTD_window_update and WindowModel disagree after segment %d (base:dictBase:dictLimit:lowLimit:nextSrc): implementation %s, model %s (%s)"
                               % (k, (l["recs"][1:] + ["-"])[k], ((mrecs or []) + ["-"])[k], l["style"]),
                          no_input=(bad is None))
        sig = set()
        prev = None
        for x in l["recs"][1:]:
            v = [int(y) for y in x.split(":")]
            sig.add((prev is not None and v[0] != prev[0], v[3] == v[2], v[3] > (prev[2] if prev else 0)))
            prev = v
        ctx.count(("WIN", l["style"], tuple(sorted(sig))), nontrivial=len(l["segs"]) > 1)
        ctx.cov["traces_validated_against_impl"] += 1


def search_after_broken_proof(ctx, tie, cd):
    """a proof obligation no longer checks: run the direct oracles on a widened case set and report what they find"""
    def search(broken):
        rng = random.Random(ctx.seed + 7919)
        streams = cc.build_streams(ctx, rng, cd, 40, 40, 20)
        cases = cc.decoder_cases(ctx, rng, streams, 4)
        cc.run_decoder_lockstep(ctx, tie, cases)
        kc = cc.compressor_cases(ctx, rng, 120)
        cc.run_compressor_lockstep(ctx, tie, cd, kc)
        return []   # concrete inputs were already reported through ctx.violation by the lock-step runs
    return search


def run_round3(ctx, cd, tie, k):
    """round 3: hand-made legacy frames, hand-made frames reaching into tiny dictionaries, frames naming a dictionary ID"""
    a = r3.run_legacy_handmade(ctx, random.Random(ctx.seed + 15485863), 150 * k)
    core.log("hand-made legacy streams (v0.5-v0.7 raw / RLE / empty blocks): %d, violations %d" % a)
    b = r3.run_dict_handmade(ctx, random.Random(ctx.seed + 32452843), cd, 150 * k)
    core.log("hand-made frames reaching into 1..1000-byte raw dictionaries: %d, violations %d" % b)
    c = r3.run_dict_ids(ctx, random.Random(ctx.seed + 49979687), cd, tie, 100 * k)
    core.log("dictionary-ID histories (lock-step with DictIdModel.v): %d, violations %d" % c)
    ctx.notes["round3_cases"] = dict(legacy_handmade=a[0], dict_handmade=b[0], dict_id_histories=c[0])


def run(ctx):
    ctx.cov["rule"] = RULE
    if ctx.replay_file:
        return replay(ctx)
    ctx.prove()
    cd = codec.Codec(ctx)
    tie = st.Tie(ctx)
    ctx.proof_verdict(search_after_broken_proof(ctx, tie, cd))
    rng = random.Random(ctx.seed)
    k = 1 if ctx.quick else 16
    if os.environ.get("C02_ONLY") == "hist":       # development aid: only the reused-context histories
        core.log("reused-context decoding histories: violations %d" % ch.run_hist(ctx, random.Random(ctx.seed + 7919), cd, 150 * k, tie=tie))
        core.log("decoder histories with a dictionary attached: %d, violations %d" % ch.run_dict_lockstep(ctx, random.Random(ctx.seed + 104729), cd, tie, 16 * k, 2))
        run_round3(ctx, cd, tie, k)
        return
    if os.environ.get("C02_ONLY") == "r3":         # development aid: only the round-3 generators
        run_round3(ctx, cd, tie, k)
        return
    # ---- decoder
    streams = cc.build_streams(ctx, rng, cd, 60 * k, 40 * k, 25 * k)
    bad = damaged_streams(ctx, rng, cd, streams, 60 * k)
    corpus = corpus_streams()
    cdam = corpus_damaged_streams()
    check_spec_against_R(ctx, tie, cd, corpus + cdam + streams + bad)
    cases = corpus_decoder_cases(corpus + cdam)
    cases += cc.decoder_cases(ctx, rng, streams, 3 if ctx.quick else 4)
    cases += boundary_decoder_cases(ctx, rng, streams, 45 * k)
    cases += boundary_decoder_cases(ctx, rng, bad, len(bad), first_id=100000)
    hist, nv = cc.run_decoder_lockstep(ctx, tie, cases)
    ctx.notes["decoder_stage_histogram"] = hist
    ctx.notes["decoder_streams"] = dict(valid=len(streams), damaged=len(bad), histories=len(cases))
    core.log("decoder histories: %d (%d streams, %d damaged), violations %d" % (len(cases), len(streams), len(bad), nv))
    # ---- compressor
    kc = cc.compressor_cases(ctx, rng, 150 * k)
    kc += boundary_compressor_cases(ctx, rng, 90 * k)
    kc += pre_oneshot_cases(ctx, rng, 12 * k)
    kc += wrap_alias_cases(ctx, rng, 20 * k)
    mt = cc.compressor_cases(ctx, rng, 24 * k, mt=True, big=1)
    for c in mt:
        c["id"] = "m" + c["id"]
    khist = cc.run_compressor_lockstep(ctx, tie, cd, kc + mt)
    ctx.notes["compressor_histogram"] = khist
    ctx.notes["compressor_cases"] = dict(single_thread=len(kc), multi_thread=len(mt))
    core.log("compressor histories: %d (+%d multithreaded)" % (len(kc), len(mt)))
    # ---- other entry points
    run_bufferless_and_legacy(ctx, rng, tie, cd, streams, 24 * k)
    run_window_tie(ctx, rng, tie, cd, 60 * k)
    nh = ch.run_hist(ctx, random.Random(ctx.seed + 7919), cd, 150 * k, tie=tie)
    core.log("reused-context decoding histories (dictionaries, prefixes, resets, stable-out, legacy frames): violations %d" % nh)
    nd = ch.run_dict_lockstep(ctx, random.Random(ctx.seed + 104729), cd, tie, 16 * k, 2)
    core.log("decoder histories with a dictionary attached (lock-step with StreamInstDict.v): %d, violations %d" % nd)
    run_round3(ctx, cd, tie, k)
    nst = cc.run_store_tie(ctx, rng, tie, 60 * k)
    ctx.notes["store_tie_histories_byte_equal"] = nst
    core.log("store tie: %d histories byte-equal" % nst)
    if not ctx.quick:
        # supporting test: the same harness under ASan+UBSan on a sample of the histories
        atie = st.Tie(ctx, variant="asan")
        atie._m = tie.m
        sub = rng.sample(cases, min(len(cases), 2500))
        for i, c in enumerate(sub):
            sub[i] = dict(id="a%d" % i, stream=c["stream"], ops=c["ops"], flags=c["flags"], maxcalls=c["maxcalls"],
                          legit_error=c.get("legit_error"))
        cc.run_decoder_lockstep(ctx, atie, sub, private=False)
        base_keys = ("x", "params", "ops", "pledged", "kind", "mt", "pre")
        ksub = [dict({k: c.get(k) for k in base_keys}, id="a" + c["id"]) for c in rng.sample(kc + mt, min(len(kc) + len(mt), 900))]
        cc.run_compressor_lockstep(ctx, atie, cd, ksub, private=False, flush_oracle=False)


def replay(ctx):
    """re-execute a recorded failing case (best effort): decoder histories and compressor histories"""
    obj = json.load(open(ctx.replay_file))
    rep = obj.get("replay", {})
    cd = codec.Codec(ctx)
    tie = st.Tie(ctx)
    kind = rep.get("kind")
    if kind == "decoder-history":
        frame = bytes.fromhex(rep["frame_hex"])
        flags = rep.get("flags") or {}
        ml = bool(flags.get("ml"))
        m = cd.model([("r", ",".join((["magicless"] if ml else []) + ["nostrict"]), None, frame)])["r"]
        content = m[1] if m[0] == "OK" else b""
        parts = rep.get("parts") or [(len(frame), len(content))]
        s = dict(frame=frame, content=content, parts=[tuple(p) for p in parts], magicless=ml, desc=rep.get("desc", "replay"),
                 valid=rep.get("valid", m[0] == "OK"), why=rep.get("why"))
        case = dict(id="d0", stream=s, ops=rep["ops"], flags=flags, maxcalls=60000)
        if rep.get("dict_hex"):
            case["dict"] = bytes.fromhex(rep["dict_hex"])
            if rep.get("content_hex") is not None:
                s["content"] = bytes.fromhex(rep["content_hex"])
        cc.run_decoder_lockstep(ctx, tie, [case])
    elif kind == "reuse-history" and rep.get("family") == "dict-id":
        r3.replay_id_history(ctx, rep, tie)
    elif kind == "reuse-history":
        ch.replay_history(ctx, rep)
    elif kind == "compress-history":
        x = bytes.fromhex(rep["input_hex"])
        case = dict(id="k0", x=x, params=dict(rep["params"]), ops=rep["ops"], pledged=rep.get("pledged"),
                    kind="replay", mt=bool(rep["params"].get("nbWorkers")), pre=rep.get("pre"))
        cc.run_compressor_lockstep(ctx, tie, cd, [case])
    else:
        core.log("replay: nothing to re-execute for kind %r (%s)" % (kind, obj.get("what", "")[:200]))
        ctx.prove()
        ctx.proof_verdict(None)
