"""C05 - everything the compressor emits is a conformant, truthful Zstandard frame.

Theorems: coq/Props/Properties_C05.v (what R's acceptance entails: declared size, checksum, block-size and
window rules are checked branches of R).  Per run: every frame emitted through one-shot, streaming,
multithreaded and dictionary entry points is decoded by the extracted R in STRICT mode (window rule, block
size limit incl. maxBlockSize, reserved bits, exact bitstream consumption) and its trace is checked against
the header-truthfulness and old-decoder interoperability rules."""
import random

from .. import codec, core
from . import c05_r2


def rand_ops(rng, n):
    """a streaming call history covering n input bytes: (offered, capacity, directive)"""
    ops = []
    left = n
    while left > 0 and len(ops) < 200:
        k = min(left, rng.choice([1, 2, 3, 7, 100, 1000, 4096, 10000, 65536, 131072, left]))
        d = rng.choice([0, 0, 0, 1, 0])
        ops.append((k, rng.choice([1, 5, 100, 1000, 100000, 1 << 20]), d))
        left -= k
    return ops      # the harness finishes the frame (end directive, all remaining input) when the history is exhausted


def ops_str(ops):
    return ";".join("%d:%d:%d" % o for o in ops) or "-"


def make_dicts(rng):
    ds = [("raw-rand", rng.randbytes(3000)), ("raw-small", rng.randbytes(9)), ("raw-text", codec.gen_input(rng, "text", 20000))]
    try:
        ds.append(("golden", open(core.REPO + "/tests/golden-dictionaries/http-dict-missing-symbols", "rb").read()))
        ds.append(("zero-weight", open(core.REPO + "/tests/dict-files/zero-weight-dict", "rb").read()))
    except OSError:
        pass
    return ds


def make_cases(ctx, rng):
    n = 200 if ctx.quick else 2000
    dicts = make_dicts(rng)
    cases = []
    for i in range(n):
        kind = rng.choice(codec.KINDS)
        r = rng.random()
        size = rng.choice(codec.SIZES_SMALL) if r < 0.5 else rng.choice(codec.SIZES_MED) if r < 0.9 else rng.choice(codec.SIZES_BIG)
        mode = rng.choice(["oneshot", "oneshot", "stream", "stream", "mt", "dict", "dict"])
        p = codec.gen_params(rng, size, mt=(mode == "mt"))
        if mode in ("oneshot", "dict") and rng.random() < 0.5:
            # long-range repetition beyond a tiny window: the window rule must bite
            p["windowLog"] = rng.choice([10, 10, 11, 12])
            if size < 8192:
                size = rng.choice([8192, 20000, 40000, 65537])
            kind = rng.choice(["longdist", "selfcopy", "text", "rep3", "period"])
        x = codec.gen_input(rng, kind, size)
        c = dict(id="c%d" % i, kind=kind, x=x, params=p, mode=mode, dict=None, dictmode="-")
        if mode == "dict":
            dn, db = rng.choice(dicts)
            if dn == "raw-text" and rng.random() < 0.7:
                c["x"] = x = (db[rng.randrange(0, 5000):][:rng.choice([100, 3000, 15000])] + x)[:max(size, 1)]
            c["dict"], c["dictname"] = db, dn
            c["dictmode"] = rng.choice(["load", "loadref", "prefix", "cdict", "cdictref"])
            if rng.random() < 0.3:
                p["forceAttachDict"] = rng.choice([1, 2, 3])
            if rng.random() < 0.2:
                p["dedicatedDictSearch"] = 1
            if rng.random() < 0.15:
                p["dictID"] = 0
        if mode in ("stream", "mt") or (mode == "dict" and rng.random() < 0.3):
            c["ops"] = rand_ops(rng, len(x))
        cases.append(c)
    # corpus: lengths above 65535 (long-length escape) through the block splitter, one-shot and streaming
    for j, (lvl, sz, mode) in enumerate(((16, 131072, "oneshot"), (19, 131072, "oneshot"), (19, 200000, "stream"), (22, 262144, "oneshot"))):
        x = codec.gen_input(rng, "longlen", sz)
        c = dict(id="L%d" % j, kind="longlen", x=x, params={"level": lvl, "checksum": 1, "blockSplitter": 1}, mode=mode, dict=None, dictmode="-")
        if mode == "stream":
            c["ops"] = rand_ops(rng, len(x))
        cases.append(c)
    # corpus: sub-blocks (ZSTD_c_targetCBlockSize) whose first sub-block has no literals, long lengths through the sub-block
    # splitter, Huffman table re-use across blocks, almost-RLE blocks: every emitted frame must be accepted by the strict decoder
    for j, (kind, sz, p) in enumerate((("matchlead", 2 * 131072 + 3000, {"level": 5, "targetCBlockSize": 1340}),
                                       ("matchlead", 2 * 131072 + 3000, {"level": 9, "targetCBlockSize": 2000}),
                                       ("matchlead", 3 * 131072, {"level": 12, "targetCBlockSize": 1340, "checksum": 1}),
                                       ("longlen", 131072, {"level": 3, "targetCBlockSize": 1340}),
                                       ("hufrepeat", 2 * 131072 + 5000, {"level": 3}),
                                       ("nearrle", 131072 + 1000, {"level": 1}))):
        cases.append(dict(id="M%d" % j, kind=kind, x=codec.gen_input(rng, kind, sz), params=p, mode="oneshot", dict=None, dictmode="-"))
    return cases


def check_trace(ctx, c, frames, x):
    """header truthfulness + interoperability rules on R's trace; returns list of problems"""
    bad = []
    p = c["params"]
    zf = [f for f in frames if f["kind"] == "zstd"]
    if len(zf) != 1:
        bad.append("expected exactly one Zstandard frame, got %d" % len(zf))
        return bad
    f = zf[0]
    if f["fcs"] is not None and f["fcs"] != len(x):
        bad.append("declared content size %d != input length %d" % (f["fcs"], len(x)))
    known_size = "ops" not in c
    if known_size and p.get("contentSize", 1) == 1 and f["fcs"] is None:
        bad.append("content size known and contentSizeFlag=1 but the header carries no content size")
    if p.get("contentSize", 1) == 0 and f["fcs"] is not None and not f["single"]:
        pass  # fcs may still be present in single-segment mode only; checked below
    if p.get("contentSize", 1) == 0 and f["fcs"] is not None:
        bad.append("contentSizeFlag=0 but the header carries a content size")
    if bool(p.get("checksum", 0)) != bool(f["checksum"]):
        bad.append("checksum flag in header (%d) differs from the requested one" % f["checksum"])
    if "windowLog" in p and f["window"] > (1 << p["windowLog"]) and not f["single"]:
        bad.append("declared window %d exceeds the requested windowLog %d" % (f["window"], p["windowLog"]))
    if c.get("dict") is not None and c["dict"][:4] == bytes.fromhex("37a430ec") and c["dictmode"] != "prefix":
        did = int.from_bytes(c["dict"][4:8], "little")
        want = did if p.get("dictID", 1) else 0
        if f["dictid"] != want:
            bad.append("header dictID %d, expected %d" % (f["dictid"], want))
    elif f["dictid"] != 0:
        bad.append("header names dictID %d but no formatted dictionary was used" % f["dictid"])
    bl = f["blocks"]
    for i, b in enumerate(bl):
        if b["type"] == 2:
            if b["csize"] >= b["rsize"]:
                bad.append("block %d: compressed block of %d bytes regenerates only %d" % (i, b["csize"], b["rsize"]))
            if b["csize"] >= 131072:
                bad.append("block %d: compressed block of size >= 128 KiB" % i)
            if b["litsize"] == 0 and b["nseq"] == 0:
                bad.append("block %d: compressed block with 0 literals and 0 sequences" % i)
            if b["nseq"] == 0 and b["nbseq_bytes"] != 1:
                bad.append("block %d: zero sequences encoded on %d bytes" % (i, b["nbseq_bytes"]))
            if b["lasttable"] != 0 and b["lasttable"] < 4:
                bad.append("block %d: last FSE table description + bitstream is %d bytes (< 4)" % (i, b["lasttable"]))
    if len(bl) > 1 and bl[0]["type"] == 1:
        bad.append("first block is RLE and more blocks follow")
    return bad


def run(ctx):
    ctx.cov["rule"] = ("cases = input kinds x sizes x random accepted parameter vectors x entry {compress2, compressStream2 under a random "
                       "call history, multithreaded (nbWorkers 1-4), with dictionary (raw / formatted; load, loadref, prefix, cdict, cdictref; "
                       "attach prefs)}, half of the one-shot/dict cases with windowLog 10-12 and long-range repetition so the window rule bites; "
                       "each frame: R strict (window rule, block limit incl. maxBlockSize, reserved bits, exact consumption, content size, checksum) "
                       "+ trace rules (truthful header fields, dictID, interop rules); distinct = distinct (trace signature, mode); "
                       "non-trivial = non-empty input; round 2 (zv/props/c05_r2.py): multi-job multithreaded frames, ZSTD_compress_advanced / buffer-less API / "
                       "ZSTD_compressBlock with raw parameter vectors, ZSTD_copyCCtx, the ZSTD_initCStream* family, several frames on one context, "
                       "ZSTD_writeSkippableFrame, pledged sizes / ZSTD_e_end-only / hints / windowLog up to 31, targetCBlockSize x small windows x dictionaries, "
                       "same judge + frame header and skippable writer compared byte for byte with the serialiser model")
    ctx.prove()
    cd = codec.Codec(ctx)
    rng = random.Random(ctx.seed)
    cases = make_cases(ctx, rng)
    lines = []
    for c in cases:
        ps = codec.params_str(c["params"])
        dh = codec.hx(c["dict"]) if c["dict"] is not None else "-"
        if "ops" in c:
            lines.append("S %s %s %s %s %s %s" % (c["id"], ps, c["dictmode"], dh, ops_str(c["ops"]), codec.hx(c["x"])))
        else:
            lines.append("C %s compress2 %s %s %s %s" % (c["id"], ps, c["dictmode"], dh, codec.hx(c["x"])))
    out, errs = cd.impl(lines)
    if errs:
        ctx.violation(dict(kind="harness-crash", detail=errs[:2]), what="zv_codec crashed while compressing: %r" % (errs[0],))
    rcases = []
    for c in cases:
        r = codec.parse_ok(out.get(c["id"], "ERR missing"))
        if r[0] != "OK":
            if c["dict"] is not None and r[1] in ("Dictionary_is_corrupted", "Dictionary_mismatch"):
                continue        # the loader refused the dictionary: nothing was emitted (C08 studies loader agreement)
            ctx.violation(dict(kind="compress-failed", params=c["params"], mode=c["mode"], dictmode=c["dictmode"], error=r[1],
                               input_hex=c["x"].hex()[:100000]), what="compression failed with %s (mode %s, params %s)" % (r[1], c["mode"], c["params"]))
            continue
        if "ops" in c:
            calls = [t.split(":") for t in r[2].split(";") if t]
            if any(t[2].startswith("E") for t in calls):
                ctx.violation(dict(kind="stream-error", params=c["params"], ops=c["ops"], calls=r[2][:2000]), what="compressStream2 returned an error: %s" % r[2][-80:])
                continue
            if not calls or calls[-1][2].rstrip("t") != "0" or sum(int(t[0]) for t in calls) != len(c["x"]):
                ctx.violation(dict(kind="stream-incomplete", params=c["params"], ops=c["ops"], calls=r[2][-2000:]),
                              what="streaming compression did not finish the frame (consumed %d of %d)" % (sum(int(t[0]) for t in calls), len(c["x"])))
                continue
        c["frame"] = r[1]
        fl = []
        if c["params"].get("format", 0):
            fl.append("magicless")
        if "maxBlockSize" in c["params"]:
            fl.append("bm=%d" % c["params"]["maxBlockSize"])
        rcases.append((c["id"], ",".join(fl), c["dict"], r[1]))
    mres = cd.model(rcases)
    hist = {}
    for c in cases:
        if "frame" not in c:
            continue
        m = mres.get(c["id"], ("ERR", "missing", -1))
        rep = dict(mode=c["mode"], params=c["params"], dictmode=c["dictmode"], dict_hex=(c["dict"].hex() if c["dict"] else None),
                   ops=c.get("ops"), input_hex=c["x"].hex()[:200000], frame_hex=c["frame"].hex()[:200000])
        if m[0] != "OK":
            if m[1] == "dict" and c["dict"] is not None:
                continue   # R's dictionary loader is stricter (Huffman log 12): no verdict
            ctx.violation(dict(rep, result="R: ERR %s site %s" % (m[1], m[2])),
                          what="the strict reference decoder rejects an emitted frame: %s at site %s (mode %s, params %s)" % (m[1], m[2], c["mode"], c["params"]))
            continue
        if m[1] != c["x"]:
            ctx.violation(dict(rep, result="content differs"), what="emitted frame decodes (R) to different bytes (mode %s, params %s)" % (c["mode"], c["params"]))
            continue
        frames = codec.parse_trace(m[2])
        bad = check_trace(ctx, c, frames, c["x"])
        for b in bad:
            ctx.violation(dict(rep, rule=b), what="emitted frame breaks a conformance/truthfulness rule: %s (mode %s, params %s)" % (b, c["mode"], c["params"]))
        ctx.count((codec.trace_signature(frames), c["mode"], c["dictmode"]), nontrivial=len(c["x"]) > 0)
        ctx.cov["traces_validated_against_impl"] += 1
        hist[c["mode"]] = hist.get(c["mode"], 0) + 1
        if len(c["x"]) < 40:
            ctx.sample(dict(mode=c["mode"], params=c["params"], input_hex=c["x"].hex(), frame_hex=c["frame"].hex()))
    ctx.notes["modes_validated"] = hist
    # round 2: entry points x parameter combinations x histories of zv/props/c05_r2.py (harness/c05_entries.c)
    c05_r2.run_r2(ctx, cd, random.Random(ctx.seed * 7919 + 5))
    ctx.proof_verdict(None)
