"""C19 — the zstd command-line tool never loses or silently damages user data.

Decision: Coq theorems (coq/Props/Properties_C19.v) about the executable model of the CLI file
protocol (coq/Cli/FsModel.v, FioModel.v) and of the sparse writer (SparseModel.v).
Tie (checked on every run, differential testing -- supports, never replaces the theorems):
  * the real `zstd` binary, rebuilt from /repo's working tree, runs under a ptrace supervisor
    (harness/c19_killer.c) in scratch directories; its file-system system calls are canonicalised
    and compared with `fio_ops` of the extracted model for the same invocation, with the
    library's own per-frame verdicts (harness/c19_lib.c) as the codec parameter of the model;
  * kill-point enumeration: the process tree is killed on entry of the k-th file-system system
    call; the directory must satisfy the crash_safe / no_clobber predicates (direct oracle) and
    be one of the model's prefix states; the same with SIGINT delivered at the k-th call;
  * exit status 0 iff the library accepts the same bytes; output bytes == library's decoding;
  * programs/fileio_asyncio.c's static sparse writer is driven directly (harness/c19_sparse.c,
    seek/write calls logged) and compared call by call with `sparse_frames_ops`; the CLI's
    --sparse and --no-sparse outputs are compared byte for byte on zero-run layouts.
"""
import hashlib
import json
import os
import random
import shutil
import subprocess

from zv import core

PID = "C19"
DIR = "<DIR>"          # marker for a directory in a case's initial file set

SYS = {257: "openat", 2: "open", 85: "creat", 87: "unlink", 263: "unlinkat", 3: "close", 1: "write",
       18: "pwrite64", 20: "writev", 8: "lseek", 280: "utimensat", 91: "fchmod", 93: "fchown", 90: "chmod",
       82: "rename", 264: "renameat", 316: "renameat2", 231: "exit_group", 76: "truncate", 77: "ftruncate",
       268: "fchmodat", 285: "fallocate"}
O_WRONLY, O_RDWR, O_CREAT, O_TRUNC = 1, 2, 0o100, 0o1000


# ----------------------------------------------------------------------------- builds

class Tools:
    pass


def build_tools():
    t = Tools()
    P = os.path.join(core.REPO, "programs")
    srcs = [os.path.join(P, f) for f in
            "zstdcli.c fileio.c fileio_asyncio.c util.c timefn.c benchfn.c benchzstd.c datagen.c dibio.c lorem.c zstdcli_trace.c".split()]
    t.zstd = core.build_harness("zstdcli", srcs, extra_inc=[P])
    t.lib = core.build_harness("c19_lib", ["c19_lib.c"])
    t.sparse = core.build_harness("c19_sparse", ["c19_sparse.c"], extra_inc=[P], extra_flags=["-fno-builtin"])
    t.killer = core.build_harness("c19_killer", ["c19_killer.c"], link_lib=False, libs=())
    os.makedirs(os.path.join(core.COQ, "Extract", "out"), exist_ok=True)
    t.model = core.build_extracted("c19model", "Extract/Extract_C19.v", "c19_driver.ml")
    return t


# ----------------------------------------------------------------------------- the model side

class Model:
    def __init__(self, exe):
        self.p = subprocess.Popen([exe], stdin=subprocess.PIPE, stdout=subprocess.PIPE)

    def ask(self, line):
        self.p.stdin.write((line + "\n").encode())
        self.p.stdin.flush()
        out = []
        while True:
            l = self.p.stdout.readline()
            if not l:
                raise RuntimeError("model driver died on: " + line[:200])
            l = l.decode().rstrip("\n")
            if l == "END":
                return out
            out.append(l)

    def close(self):
        try:
            self.p.stdin.close()
            self.p.wait(timeout=10)
        except Exception:
            self.p.kill()


class Tokens:
    """blobs <-> the integer tokens the model concatenates"""

    def __init__(self):
        self.blob = {}
        self.n = 0

    def new(self, data):
        self.n += 1
        self.blob[self.n] = data          # bytes, or ("Z", src) = unpredicted compressed frame, or ("P",) = partial
        return self.n

    def resolve(self, toks):
        """bytes if every token is known, else None"""
        out = b""
        for t in toks:
            b = self.blob[t]
            if not isinstance(b, bytes):
                return None
            out += b
        return out


def parse_toks(s):
    return [int(x) for x in s.split("+")] if s else []


# ----------------------------------------------------------------------------- one invocation

class Case:
    """mode C/D/T, srcs [names], out '-'|'c'|'o:name', force, rm, quiet, answer ('y'/'n'/None),
    files {name: bytes | DIR}, extra [args]"""

    def __init__(self, name, mode, srcs, out="-", force=False, rm=False, quiet=True, answer=None,
                 files=None, extra=()):
        self.name, self.mode, self.srcs, self.out = name, mode, list(srcs), out
        self.force, self.rm, self.quiet, self.answer = force, rm, quiet, answer
        self.files = dict(files or {})
        self.extra = list(extra)

    @property
    def confirm(self):
        return (not self.quiet) and self.answer == "y" and self.out != "c" and self.mode != "T"

    def argv(self):
        a = []
        if self.mode == "D":
            a.append("-d")
        elif self.mode == "T":
            a.append("-t")
        if self.quiet:
            a.append("-q")
        if self.force:
            a.append("-f")
        if self.rm:
            a.append("--rm")
        if self.out == "c":
            a.append("-c")
        a += self.extra
        a += self.srcs
        if self.out.startswith("o:"):
            a += ["-o", self.out[2:]]
        return a

    def to_json(self):
        return dict(name=self.name, mode=self.mode, srcs=self.srcs, out=self.out, force=self.force, rm=self.rm,
                    quiet=self.quiet, answer=self.answer, extra=self.extra,
                    files={k: (DIR if v == DIR else v.hex()) for k, v in self.files.items()})

    @staticmethod
    def from_json(j):
        return Case(j["name"], j["mode"], j["srcs"], j["out"], j["force"], j["rm"], j["quiet"], j["answer"],
                    {k: (DIR if v == DIR else bytes.fromhex(v)) for k, v in j["files"].items()}, j["extra"])

    def shape(self):
        """canonical shape of the invocation (for distinct_nontrivial)"""
        kinds = []
        for s in self.srcs:
            v = self.files.get(s)
            kinds.append("missing" if v is None else ("dir" if v == DIR else "file"))
        return (self.mode, self.out.split(":")[0], self.force, self.rm, self.confirm, len(self.srcs), tuple(kinds))


class Runner:
    def __init__(self, ctx, tools, model):
        self.ctx, self.t, self.m = ctx, tools, model
        self.n_dirs = 0
        self.dict = None          # dictionary (-D) of the case being checked, for the library oracle
        self.env = {k: v for k, v in os.environ.items() if not k.startswith("ZSTD_")}

    def fresh(self, case):
        self.n_dirs += 1
        base = os.path.join(self.ctx.scratch, "r%05d" % self.n_dirs)
        w = os.path.join(base, "w")
        os.makedirs(w)
        for n, v in case.files.items():
            p = os.path.join(w, n)
            if v == DIR:
                os.makedirs(p)
            else:
                with open(p, "wb") as f:
                    f.write(v)
                os.utime(p, (1500000000, 1500000000))
        return base, w

    def execute(self, case, k=0, action="none", wide=False):
        """run the real binary under the supervisor; returns dict(base, w, log, status, stdout)"""
        base, w = self.fresh(case)
        log = os.path.join(base, "klog")
        so = os.path.join(base, "stdout")
        si = os.path.join(base, "stdin")
        with open(si, "wb") as f:
            f.write(((case.answer or "n") + "\n").encode() * 16 if not case.quiet else b"")
        env = dict(self.env)
        if wide:
            env["C19_WIDE"] = "1"
        with open(si, "rb") as fi, open(so, "wb") as fo, open(os.path.join(base, "stderr"), "wb") as fe:
            p = subprocess.run([self.t.killer, str(k), action, log, "--", self.t.zstd] + case.argv(),
                               cwd=w, stdin=fi, stdout=fo, stderr=fe, env=env, timeout=120)
        if p.returncode != 0:
            raise RuntimeError("supervisor failed rc=%d" % p.returncode)
        entries, status = parse_klog(log)
        return dict(base=base, w=w, entries=entries, status=status, stdout=open(so, "rb").read())

    def cleanup(self, r):
        shutil.rmtree(r["base"], ignore_errors=True)

    # -- the library's verdict on a source (decompression / test)
    def classify(self, data, tk):
        base = os.path.join(self.ctx.scratch, "cls")
        shutil.rmtree(base, ignore_errors=True)
        os.makedirs(base)
        fn = os.path.join(base, "in")
        with open(fn, "wb") as f:
            f.write(data)
        cmd = [self.t.lib, "classify", fn, os.path.join(base, "p")]
        if self.dict is not None:
            with open(os.path.join(base, "dict"), "wb") as f:
                f.write(self.dict)
            cmd.append(os.path.join(base, "dict"))
        rc, out, err = core.sh(cmd, timeout=120)
        if rc != 0:
            raise RuntimeError("c19_lib classify failed: " + err[-500:])
        items = []
        k = 0
        oneshot = None
        for l in out.split("\n"):
            f = l.split()
            if not f:
                continue
            if f[0] in ("K", "B"):
                payload = open(os.path.join(base, "p.%d" % k), "rb").read()
                k += 1
                if f[0] == "K":
                    items.append(("K", tk.new(payload)))
                else:
                    items.append(("B", tk.new(("P", payload))))
            elif f[0] == "J":
                items.append(("J", tk.new(data[len(data) - int(f[1]):])))
            elif f[0] == "ONESHOT":
                if f[1] == "ok":
                    oneshot = open(os.path.join(base, "p.9999"), "rb").read()
        accepted = len(data) > 0 and oneshot is not None
        return items, accepted, oneshot

    def lib_decode(self, data):
        tk = Tokens()
        items, accepted, oneshot = self.classify(data, tk)
        return oneshot if accepted else None


def parse_klog(path):
    entries = []
    status = None
    byidx = {}
    for l in open(path, errors="replace"):
        f = l.split()
        if not f:
            continue
        if f[0] == "RET":
            e = byidx.get(int(f[1]))
            if e is not None:
                e["ret"] = int(f[3])
        elif f[0] == "ACT":
            entries.append(dict(act=f[1]))
        elif f[0] in ("EXIT", "SIGNALED", "UNKNOWN"):
            status = (f[0], int(f[1]) if len(f) > 1 else -1)
        elif f[0].isdigit() and len(f) >= 8:
            e = dict(idx=int(f[0]), tid=int(f[1]), nr=int(f[2]), path=f[3], a=[int(x) for x in f[4:8]], ret=None)
            byidx[e["idx"]] = e
            entries.append(e)
    return entries, status


def canon_real(entries, relevant):
    """system calls of the real run -> canonical events on the relevant paths"""
    ev = []
    fd = {}
    for e in entries:
        if "act" in e:
            continue
        name = SYS.get(e["nr"], str(e["nr"]))
        p = e["path"]
        if p.startswith("./"):
            p = p[2:]
        if name in ("openat", "open", "creat"):
            flags = e["a"][2] if name == "openat" else (e["a"][1] if name == "open" else O_CREAT | O_TRUNC | O_WRONLY)
            mode = e["a"][3] if name == "openat" else (e["a"][2] if name == "open" else e["a"][1])
            if p in relevant and e["ret"] is not None and e["ret"] >= 0:
                if flags & O_CREAT or flags & O_TRUNC or flags & (O_WRONLY | O_RDWR):
                    kind = "c"
                    ev.append("c:%s:%o%s" % (p, mode & 0o7777, "" if (flags & O_CREAT and flags & O_TRUNC) else ":flags=%o" % flags))
                else:
                    kind = "r"
                    ev.append("r:" + p)
                fd[e["ret"]] = (p, kind)
        elif name == "close":
            x = fd.pop(e["a"][0], None)
            if x:
                ev.append(("x:" if x[1] == "c" else "xs:") + x[0])
        elif name in ("write", "pwrite64", "writev", "lseek", "ftruncate", "fallocate"):
            pass                                   # placement of the data flushes is libc's business
        elif name in ("fchmod", "fchown"):
            x = fd.get(e["a"][0])
            if x and (not ev or ev[-1] != "s:" + x[0]):
                ev.append("s:" + x[0])
        elif name in ("chmod", "fchmodat"):
            if p in relevant and (not ev or ev[-1] != "s:" + p):
                ev.append("s:" + p)
        elif name == "utimensat":
            if p in relevant:
                ev.append("t:" + p)
        elif name in ("unlink", "unlinkat"):
            if p in relevant and e["ret"] == 0:
                ev.append("u:" + p)
        elif name in ("rename", "renameat", "renameat2", "truncate"):
            if p in relevant:
                ev.append(name + ":" + p)
        elif name == "exit_group":
            ev.append("exit:%d" % (e["a"][0] & 0xff))
    return ev


def canon_model(ops):
    ev = []
    for o in ops:
        f = o.split(":")
        k = f[0]
        if k == "r":
            ev.append("r:" + f[1])
        elif k == "c":
            ev.append("c:%s:%s" % (f[1], f[2]))
        elif k in ("w", "o", "reg", "clr"):
            pass
        elif k == "s":
            ev.append("s:" + f[1])
        elif k == "x":
            ev.append("x:" + f[1])
        elif k == "t":
            ev.append("t:" + f[1])
        elif k in ("ud", "us"):
            ev.append("u:" + f[1])
        elif k == "xs":
            ev.append("xs:" + f[1])
        elif k == "exit":
            ev.append("exit:" + f[1])
    return ev


class Prepared:
    """a case + the library's verdicts + the model's answer"""
    pass


def prepare(rn, case):
    pr = Prepared()
    pr.case = case
    tk = pr.tk = Tokens()
    pr.filetok = {}
    fsl = []
    for n, v in sorted(case.files.items()):
        if v == DIR:
            fsl.append("%s=D" % n)
        else:
            pr.filetok[n] = tk.new(v)
            fsl.append("%s=R%d" % (n, pr.filetok[n]))
    verd = []
    pr.accept = {}
    pr.decoded = {}
    pr.items = {}
    for s in dict.fromkeys(case.srcs):
        v = case.files.get(s)
        if v is None or v == DIR:
            continue
        if case.mode == "C":
            z = tk.new(("Z", s))
            verd.append("%s=1:0:%d:" % (s, z))
        else:
            items, accepted, oneshot = rn.classify(v, tk)
            pr.accept[s], pr.decoded[s], pr.items[s] = accepted, oneshot, items
            verd.append("%s=1:0::%s" % (s, "/".join("%s+%d" % (k, t) for k, t in items)))
    dsts = []
    line0 = "FIO;%s;%s;%s;%d%d%d;%s;%s;" % (case.mode, ",".join(case.srcs), case.out, case.force, case.rm,
                                              case.confirm, ",".join(fsl), ",".join(verd))
    first = rn.m.ask(line0)          # to learn the destinations
    pr.dst = {}
    for l in first:
        if l.startswith("DST"):
            for kv in l.split()[1:]:
                s, d = kv.split("=")
                pr.dst[s] = None if d == "-" else d
    probes = list(dict.fromkeys(list(case.files.keys()) + case.srcs + [d for d in pr.dst.values() if d] +
                                ([case.out[2:]] if case.out.startswith("o:") else [])))
    pr.probes = probes
    out = rn.m.ask(line0 + ",".join(probes))
    pr.ops = []
    pr.st, pr.si = [], []
    for l in out:
        if l.startswith("OPS"):
            pr.ops = l.split()[1:]
        elif l.startswith("ST ") or l.startswith("SI "):
            f = l.split()
            st = {}
            for kv in f[3:]:
                n, v = kv.split("=", 1)
                st[n] = v
            (pr.st if f[0] == "ST" else pr.si).append(st)
    pr.model_line = line0 + ",".join(probes)
    pr.events = canon_model(pr.ops)
    pr.vis = [len(canon_model(pr.ops[:j])) for j in range(len(pr.ops) + 1)]
    pr.exit = int([o for o in pr.ops if o.startswith("exit:")][-1].split(":")[1]) if any(o.startswith("exit:") for o in pr.ops) else None
    # well-formedness (hypothesis of crash_safe): sources distinct, no destination is a source, destinations distinct
    srcs = case.srcs
    dl = [pr.dst.get(s) for s in srcs if pr.dst.get(s)]
    shared = case.out[2:] if case.out.startswith("o:") else None
    pr.wf = (len(set(srcs)) == len(srcs) and not (set(dl) & set(srcs)) and len(set(dl)) == len(dl)
             and (shared is None or shared not in srcs))
    # total payload a destination may receive (for the "prefix while open" rule)
    pr.total = {}
    for o in pr.ops:
        f = o.split(":")
        if f[0] == "w":
            pr.total.setdefault(f[1], []).extend(parse_toks(f[2]))
        elif f[0] == "c":
            pr.total[f[1]] = []
    return pr


def read_dir(w):
    st = {}
    for n in os.listdir(w):
        p = os.path.join(w, n)
        st[n] = DIR if os.path.isdir(p) else open(p, "rb").read()
    return st


def node_matches(pr, zbytes, name, mnode, real):
    """does the real node `real` (bytes | DIR | None) match the model node string?"""
    if mnode == "A":
        return real is None
    if mnode == "D":
        return real == DIR
    if real is None or real == DIR:
        return False
    toks = parse_toks(mnode[1:])
    if mnode[0] == "C":
        exp = resolve(pr, zbytes, toks)
        if exp is None:
            return True        # closed file holding an unpredicted blob (failed frame's partial output)
        return real == exp
    # open: any prefix of everything this destination may receive before it is closed
    tot = resolve(pr, zbytes, pr.total.get(name, toks))
    if tot is None:
        known = resolve_prefix(pr, zbytes, pr.total.get(name, toks))
        return real.startswith(known) or known.startswith(real)
    return tot.startswith(real)


def resolve(pr, zbytes, toks):
    out = b""
    for t in toks:
        b = pr.tk.blob[t]
        if isinstance(b, bytes):
            out += b
        elif b[0] == "Z" and b[1] in zbytes:
            out += zbytes[b[1]]
        else:
            return None
    return out


def resolve_prefix(pr, zbytes, toks):
    out = b""
    for t in toks:
        b = pr.tk.blob[t]
        if isinstance(b, bytes):
            out += b
        elif b[0] == "Z" and b[1] in zbytes:
            out += zbytes[b[1]]
        else:
            break
    return out


def state_in(pr, zbytes, real, states, nvisible=None):
    """index j of a model state that matches the real directory; with nvisible = (lo, hi): only prefixes of the
    model's operation list whose number of visible (system-call level) operations lies in that range are candidates"""
    for j, st in enumerate(states):
        if nvisible is not None and not (nvisible[0] <= pr.vis[j] <= nvisible[1]):
            continue
        if all(node_matches(pr, zbytes, n, v, real.get(n)) for n, v in st.items()):
            return j
    return -1


def visible_done(entries, k, inclusive, relevant):
    """(lo, hi): number of canonical events of the calls certainly completed before (kill) / up to (signal)
    call #k, and that number plus the calls of other threads that were in flight (entered, not yet returned)"""
    before = [e for e in entries if "act" not in e and (e["idx"] <= k if inclusive else e["idx"] < k)]
    lo = len(canon_real([e for e in before if e["ret"] is not None or SYS.get(e["nr"]) == "exit_group"], relevant))
    inflight = [e for e in before if e["ret"] is None and SYS.get(e["nr"]) != "exit_group"]
    return lo, lo + len(inflight)


# ----------------------------------------------------------------------------- direct oracles

def oracle_safe(rn, pr, real, zcache):
    """the crash_safe predicate on a real directory: every source intact, or its destination stands for it"""
    case = pr.case
    bad = []
    alld = [pr.dst.get(x) for x in case.srcs if pr.dst.get(x)]
    shared = case.out[2:] if case.out.startswith("o:") else None
    for s in dict.fromkeys(case.srcs):
        orig = case.files.get(s)
        if orig is None or orig == DIR:
            continue
        if real.get(s) == orig:
            continue
        d = pr.dst.get(s)
        if not pr.wf:
            # outside the theorem's hypothesis: judge only the sources whose names do not collide with another
            # source's destination (destination == the source itself stays judged: the same-file rule)
            if case.srcs.count(s) > 1 or (d is not None and (alld.count(d) > 1 or (d in case.srcs and d != s))) \
                    or any(pr.dst.get(x) == s for x in case.srcs if x != s) or (shared == s and len(case.srcs) > 1):
                continue
        ok = False
        if d is not None and isinstance(real.get(d), bytes):
            got = real[d]
            if case.mode == "C":
                key = hashlib.sha1(got).hexdigest()
                if key not in zcache:
                    zcache[key] = rn.lib_decode(got)
                ok = zcache[key] == orig
            elif case.mode == "D":
                ok = pr.accept.get(s) and got == pr.decoded.get(s)
        if not ok:
            bad.append("source %s is gone/changed and its destination %s does not hold its data" % (s, d))
    return bad


def oracle_noclobber(pr, real, final=False):
    """pre-existing files: untouched unless (-f / confirmed and it is a destination) or (a source removed by --rm)"""
    case = pr.case
    bad = []
    dsts = set(d for d in pr.dst.values() if d)
    if case.out.startswith("o:"):
        dsts.add(case.out[2:])
    may_rm = case.rm and case.mode != "T" and case.out != "c"
    for n, v in case.files.items():
        if real.get(n) == v:
            continue
        if n in dsts and (case.force or case.confirm):
            continue            # the user asked for the overwrite
        if n in case.srcs and may_rm:
            continue            # judged by oracle_safe
        bad.append("pre-existing %s %s although %s" % (n, "vanished" if real.get(n) is None else "was modified",
                                                       "no -f was given" if n in dsts else "it is not a destination"))
    return bad


# ----------------------------------------------------------------------------- checking one case

def fs_idx(entries, relevant):
    """indices (1-based count) of the system calls from the first one that names a file of the case"""
    first = None
    for e in entries:
        if "act" in e:
            continue
        p = e["path"][2:] if e["path"].startswith("./") else e["path"]
        if p in relevant:
            first = e["idx"]
            break
    last = max([e["idx"] for e in entries if "act" not in e] or [0])
    return first, last


def check_case(rn, case, nkill, nint, rng, replay_only=None):
    """returns number of violations reported"""
    ctx = rn.ctx
    rn.dict = case.files.get(case.extra[case.extra.index("-D") + 1]) if "-D" in case.extra else None
    pr = prepare(rn, case)
    relevant = set(pr.probes)
    if "-D" in case.extra:
        relevant.discard(case.extra[case.extra.index("-D") + 1])     # reading the dictionary is not part of the protocol
    nviol = 0
    zcache = {}

    def report(kind, what, extra=None, no_input=False, key=None):
        nonlocal nviol
        nviol += 1
        rep = dict(kind=kind, case=case.to_json(), argv=case.argv(), model_ops=pr.ops)
        if extra:
            rep.update(extra)
        ctx.violation(rep, what="%s [%s: zstd %s]" % (what, case.name, " ".join(case.argv())), no_input=no_input, key=key)

    # ---- reference run
    r = rn.execute(case)
    real_ev = canon_real(r["entries"], relevant)
    real = read_dir(r["w"])
    status = r["status"]
    code = status[1] if status and status[0] == "EXIT" else None
    zbytes = {}
    if case.mode == "C":
        for s in case.srcs:
            d = pr.dst.get(s)
            if d and isinstance(real.get(d), bytes):
                zbytes[s] = real[d]
    pr.zbytes = zbytes
    final_model = pr.st[-1]
    sig = ("trace", case.shape(), tuple(e.split(":")[0] for e in pr.events))
    ctx.count(sig, nontrivial=len(pr.events) > 1)
    ctx.cov["traces_validated_against_impl"] += 1
    ctx.sample(dict(argv=case.argv(), files={k: (DIR if v == DIR else len(v)) for k, v in case.files.items()},
                    model_events=pr.events, real_events=real_ev, exit=code))
    mismatch = []
    if real_ev != pr.events:
        mismatch.append("file-operation sequence differs from fio_ops: real=%s model=%s" % (real_ev, pr.events))
    if code != pr.exit:
        mismatch.append("exit status %s, model says %s" % (status, pr.exit))
    # final state vs model
    for n, v in final_model.items():
        # (a file made of unpredicted compressed frames matches any bytes here: it is judged by decoding it below)
        if not node_matches(pr, zbytes, n, v, real.get(n)):
            mismatch.append("final state of %s: model %s, real %s" % (n, v[:40], "absent" if real.get(n) is None else
                                                                       ("dir" if real.get(n) == DIR else "%d bytes" % len(real[n]))))
    # ---- direct oracles on the completed run
    concrete = []
    concrete += oracle_safe(rn, pr, real, zcache)
    concrete += oracle_noclobber(pr, real, final=True)
    srcs_ok = [s for s in case.srcs if isinstance(case.files.get(s), bytes)]
    if case.mode == "C":
        # every destination that exists at the end must decode to its source(s)
        for s in srcs_ok:
            d = pr.dst.get(s)
            if d and isinstance(real.get(d), bytes) and final_model.get(d, "A")[0] == "C" and d not in case.files:
                if rn.lib_decode(real[d]) != case.files[s]:
                    concrete.append("destination %s does not decode to source %s" % (d, s))
        if code == 0:
            for s in srcs_ok:
                d = pr.dst.get(s)
                if d and not isinstance(real.get(d), bytes):
                    concrete.append("exit status 0 but destination %s is missing" % d)
        if case.out == "c" or (case.out.startswith("o:") and len(case.srcs) > 1 and code == 0):
            blob = r["stdout"] if case.out == "c" else real.get(case.out[2:])
            want = b"".join(case.files[s] for s in srcs_ok)
            if code == 0 and (not isinstance(blob, bytes) or (rn.lib_decode(blob) if blob else b"") != want):
                if not (want == b"" and not srcs_ok):
                    concrete.append("concatenated output does not decode to the concatenation of the sources")
    else:
        passthrough = case.force and case.out == "c" and case.mode == "D"
        all_ok = all(isinstance(case.files.get(s), bytes) and pr.accept.get(s) for s in case.srcs)
        if case.mode == "D" and case.out == "-":
            all_ok = all_ok and all(pr.dst.get(s) for s in case.srcs)
        # "every input accepted => status 0" is only claimed when no destination rule can refuse the operation
        refused = False
        if case.mode == "D" and case.out != "c":
            dl = [pr.dst.get(s) for s in case.srcs]
            o = case.out[2:] if case.out.startswith("o:") else None
            refused = (not pr.wf or any(d in case.files for d in dl if d) or (o is not None and o in case.files)
                       or (o is not None and len(case.srcs) > 1 and not (case.force or case.confirm)))
        if not passthrough:
            if code == 0 and not all_ok:
                concrete.append("exit status 0 although the library rejects an input (or an input is missing)")
            if code != 0 and all_ok and not refused:
                concrete.append("exit status %s although the library accepts every input" % (status,))
        if case.mode == "D":
            for s in srcs_ok:
                d = pr.dst.get(s)
                if not d or d in case.srcs:
                    continue
                got = real.get(d)
                pre = case.files.get(d)
                if pr.accept.get(s) and code == 0 and got != pr.decoded[s]:
                    concrete.append("destination %s differs from the library's decoding of %s" % (d, s))
                if not pr.accept.get(s) and got is not None and got != pre and len(case.srcs) == 1:
                    concrete.append("failed decompression of %s left an output file %s behind (%d bytes)" % (s, d, len(got) if isinstance(got, bytes) else -1))
            if case.out == "c" and not passthrough:
                want = b""
                for s in case.srcs:
                    if isinstance(case.files.get(s), bytes) and pr.accept.get(s):
                        want += pr.decoded[s]
                    else:
                        break
                if not r["stdout"].startswith(want) or (code == 0 and r["stdout"] != want):
                    concrete.append("stdout differs from the library's decoding")
    if code is not None and code != 0 and len(case.srcs) == 1 and case.mode != "T" and case.out != "c":
        d = pr.dst.get(case.srcs[0])
        if d and d != case.srcs[0] and real.get(d) is not None and real.get(d) != case.files.get(d):
            concrete.append("non-zero exit status but an output file %s from this run is left behind" % d)
    for w_ in concrete:
        report("oracle-final", w_, dict(real_events=real_ev, status=status))
    rn.cleanup(r)
    if concrete:
        return nviol
    if mismatch:
        # SEARCH: the tie broke; look for a concrete failing kill point with the direct oracles (every k)
        first, last = fs_idx(r["entries"], relevant)
        found = False
        for k in (range(first, last + 2) if first is not None else []):
            kr = rn.execute(case, k=k, action="kill")
            kreal = read_dir(kr["w"])
            bad = oracle_safe(rn, pr, kreal, zcache) + oracle_noclobber(pr, kreal)
            rn.cleanup(kr)
            if bad:
                report("kill", "killed at system call #%d: %s (the run's file-operation sequence also differs from fio_ops: real=%s model=%s)" %
                       (k, bad[0], real_ev, pr.events), dict(k=k, dir={n: (DIR if v == DIR else len(v)) for n, v in kreal.items()}))
                found = True
                break
        if not found:
            report("tie-trace", "; ".join(mismatch)[:1500], dict(real_events=real_ev, status=status), no_input=True)
        return nviol

    # ---- kill points
    first, last = fs_idx(r["entries"], relevant)
    if first is None:
        return nviol
    ks = list(range(first, last + 1))
    if nkill is not None and len(ks) > nkill:
        keep = set(rng.sample(ks, nkill))
        # always keep the calls around unlink / close / creat: the interesting boundaries
        for e in r["entries"]:
            if "act" not in e and SYS.get(e["nr"]) in ("unlink", "unlinkat") and e["idx"] >= first:
                keep.update({e["idx"], min(last, e["idx"] + 1)})
        ks = sorted(keep)
    for k in ks:
        kr = rn.execute(case, k=k, action="kill")
        kreal = read_dir(kr["w"])
        acted = any("act" in e for e in kr["entries"])
        nv = visible_done(kr["entries"], k, False, relevant) if acted else (len(pr.events), len(pr.events))
        j = state_in(pr, zbytes, kreal, pr.st, nv)
        bad = oracle_safe(rn, pr, kreal, zcache) + oracle_noclobber(pr, kreal)
        ctx.count(("kill", case.shape(), j), nontrivial=True)
        for w_ in bad:
            report("kill", "killed at system call #%d: %s" % (k, w_),
                   dict(k=k, dir={n: (DIR if v == DIR else len(v)) for n, v in kreal.items()}))
        if j < 0 and not bad:
            report("tie-kill", "directory after kill at system call #%d (%s file operations completed) is not the state of fio_ops after that many operations: %s" %
                   (k, nv, {n: (DIR if v == DIR else len(v)) for n, v in kreal.items()}), dict(k=k), no_input=True)
            rn.cleanup(kr)
            return nviol
        rn.cleanup(kr)
        if bad:
            return nviol

    # ---- SIGINT points (finer grid: also reads / stats / sigaction)
    if nint:
        wr = rn.execute(case, wide=True)
        wfirst, wlast = fs_idx(wr["entries"], relevant)
        rn.cleanup(wr)
        if wfirst is not None:
            ks = list(range(wfirst, wlast + 1))
            if len(ks) > nint:
                ks = sorted(rng.sample(ks, nint))
            for k in ks:
                kr = rn.execute(case, k=k, action="int", wide=True)
                kreal = read_dir(kr["w"])
                acted = any("act" in e for e in kr["entries"])
                main_tid = next((e["tid"] for e in kr["entries"] if "act" not in e), None)
                at = next((e for e in kr["entries"] if "act" not in e and e["idx"] == k), None)
                on_main = at is None or at["tid"] == main_tid
                if acted:
                    # the handler's own calls come after the ACT mark: count only what the run did up to call #k
                    nv = visible_done(kr["entries"], k, True, relevant)
                else:
                    nv = (len(pr.events), len(pr.events))
                # the model's handler is an atomic step of the main thread: the state tie applies when the signal
                # lands there (on an I/O pool thread the main thread keeps running while the handler executes)
                j = state_in(pr, zbytes, kreal, pr.si, nv) if on_main else 0
                bad = oracle_safe(rn, pr, kreal, zcache) + oracle_noclobber(pr, kreal)
                st = kr["status"]
                handled = st == ("EXIT", 2)
                ctx.count(("sigint", case.shape(), j, handled), nontrivial=True)
                for w_ in bad:
                    report("sigint", "SIGINT at system call #%d (wide grid): %s" % (k, w_), dict(k=k))
                if j < 0 and not bad:
                    report("tie-sigint", "directory after SIGINT at system call #%d of the wide grid (%s file operations completed) is not a state of sigint_ops after that many operations: %s" %
                           (k, nv, {n: (DIR if v == DIR else len(v)) for n, v in kreal.items()}), dict(k=k), no_input=True)
                    rn.cleanup(kr)
                    return nviol
                rn.cleanup(kr)
                if bad:
                    return nviol
    return nviol


# ----------------------------------------------------------------------------- case generators

def text(rng, n):
    words = [b"alpha", b"beta", b"gamma", b"delta", b"zstd", b"frame", b"block", b"\n", b" ", b"0123456789"]
    out = bytearray()
    while len(out) < n:
        out += rng.choice(words)
        if rng.random() < 0.1:
            out += bytes(rng.randrange(256) for _ in range(rng.randrange(1, 9)))
    return bytes(out[:n])


class Gen:
    def __init__(self, rn, rng):
        self.rn, self.rng = rn, rng
        self.n = 0

    def z(self, data, level=3, checksum=1):
        base = os.path.join(self.rn.ctx.scratch, "gen")
        os.makedirs(base, exist_ok=True)
        a, b = os.path.join(base, "i"), os.path.join(base, "o")
        with open(a, "wb") as f:
            f.write(data)
        rc, out, err = core.sh([self.rn.t.lib, "compress", a, b, str(level), str(checksum)], timeout=120)
        if rc != 0:
            raise RuntimeError("c19_lib compress failed " + err)
        return open(b, "rb").read()

    def skippable(self, n):
        return (0x184D2A50 + self.rng.randrange(16)).to_bytes(4, "little") + n.to_bytes(4, "little") + bytes(self.rng.randrange(256) for _ in range(n))

    def zfile(self, kind, size=None):
        """a .zst source of a given kind -> bytes"""
        rng = self.rng
        size = size if size is not None else rng.choice([0, 1, 37, 1000, 5000, 70000])
        good = self.z(text(rng, size))
        if kind == "good":
            return good
        if kind == "multi":
            return good + self.skippable(rng.randrange(0, 20)) + self.z(text(rng, rng.randrange(0, 3000)), checksum=0)
        if kind == "corrupt":
            g = bytearray(self.z(text(rng, max(size, 200))))
            i = rng.randrange(len(g) // 2, len(g))
            g[i] ^= 1 << rng.randrange(8)
            return bytes(g)
        if kind == "trunc":
            g = self.z(text(rng, max(size, 200)))
            return g[:rng.randrange(5, len(g) - 1)]
        if kind == "junk-short":
            return good + bytes(rng.randrange(1, 256) for _ in range(rng.randrange(1, 4)))
        if kind == "junk-long":
            return good + b"trailing garbage " + bytes(rng.randrange(256) for _ in range(rng.randrange(0, 30)))
        if kind == "empty":
            return b""
        if kind == "notzstd":
            return b"plain text, no frame here " * rng.randrange(1, 4)
        if kind == "good-then-corrupt":
            g = bytearray(self.z(text(rng, 3000)))
            g[len(g) - 2] ^= 0x10
            return good + bytes(g)
        raise ValueError(kind)


def corpus(g):
    """boundary cases first (each mechanism of the property at least once)"""
    rng = g.rng
    A = text(rng, 5000)
    B = text(rng, 700)
    OLD = b"previous content of the destination\n"
    ZA = g.zfile("good", 5000)
    cs = []
    C = Case
    cs.append(C("c-rm", "C", ["a"], rm=True, files={"a": A}))
    cs.append(C("c-exists-refused", "C", ["a"], rm=True, files={"a": A, "a.zst": OLD}))
    cs.append(C("c-exists-force-rm", "C", ["a"], force=True, rm=True, files={"a": A, "a.zst": OLD}))
    cs.append(C("c-concat-refused", "C", ["a", "b"], out="o:out", rm=True, files={"a": A, "b": B}))
    cs.append(C("c-concat-force", "C", ["a", "b"], out="o:out", force=True, rm=True, files={"a": A, "b": B, "out": OLD}))
    cs.append(C("c-stdout-rm", "C", ["a", "b"], out="c", rm=True, files={"a": A, "b": B}))
    cs.append(C("c-missing-dir", "C", ["a", "nope", "d"], rm=True, files={"a": A, "d": DIR}))
    cs.append(C("c-same-file", "C", ["a"], out="o:a", force=True, rm=True, files={"a": A}))
    cs.append(C("c-prompt-yes", "C", ["a"], quiet=False, answer="y", files={"a": A, "a.zst": OLD}))
    cs.append(C("c-prompt-no", "C", ["a"], quiet=False, answer="n", rm=True, files={"a": A, "a.zst": OLD}))
    cs.append(C("c-o-rm", "C", ["a"], out="o:b.zst", rm=True, files={"a": A}))
    cs.append(C("c-empty", "C", ["e"], rm=True, files={"e": b""}))
    cs.append(C("d-rm", "D", ["a.zst"], rm=True, files={"a.zst": ZA}))
    cs.append(C("d-corrupt-rm", "D", ["a.zst"], rm=True, files={"a.zst": g.zfile("corrupt", 5000)}))
    cs.append(C("d-trunc-rm", "D", ["a.zst"], rm=True, files={"a.zst": g.zfile("trunc", 5000)}))
    cs.append(C("d-multi", "D", ["a.zst"], rm=True, files={"a.zst": g.zfile("multi", 2000)}))
    cs.append(C("d-junk-short", "D", ["a.zst"], rm=True, files={"a.zst": g.zfile("junk-short", 100)}))
    cs.append(C("d-junk-long", "D", ["a.zst"], rm=True, files={"a.zst": g.zfile("junk-long", 100)}))
    cs.append(C("d-empty-input", "D", ["a.zst"], rm=True, files={"a.zst": b""}))
    cs.append(C("d-stdout-mixed", "D", ["a.zst", "b.zst"], out="c", rm=True,
                files={"a.zst": ZA, "b.zst": g.zfile("good-then-corrupt")}))
    cs.append(C("d-passthrough", "D", ["p.zst"], out="c", force=True, files={"p.zst": g.zfile("notzstd")}))
    cs.append(C("d-exists-refused", "D", ["a.zst"], rm=True, files={"a.zst": ZA, "a": OLD}))
    cs.append(C("d-exists-force", "D", ["a.zst"], force=True, rm=True, files={"a.zst": ZA, "a": OLD}))
    cs.append(C("d-suffixes", "D", ["x.tzst", "noext", "y.zstd", ".zst"], rm=True,
                files={"x.tzst": ZA, "noext": ZA, "y.zstd": g.zfile("good", 10), ".zst": ZA}))
    cs.append(C("d-concat-force", "D", ["a.zst", "b.zst"], out="o:out", force=True, rm=True,
                files={"a.zst": ZA, "b.zst": g.zfile("good", 300)}))
    cs.append(C("d-concat-refused", "D", ["a.zst", "b.zst"], out="o:out", rm=True,
                files={"a.zst": ZA, "b.zst": g.zfile("good", 300), "out": OLD}))
    cs.append(C("d-same-file", "D", ["a.zst"], out="o:a.zst", force=True, rm=True, files={"a.zst": ZA}))
    cs.append(C("d-two-one-bad", "D", ["a.zst", "b.zst", "c.zst"], rm=True,
                files={"a.zst": ZA, "b.zst": g.zfile("corrupt", 800), "c.zst": g.zfile("good", 90)}))
    cs.append(C("t-rm", "T", ["a.zst"], rm=True, files={"a.zst": ZA}))
    cs.append(C("t-mixed", "T", ["a.zst", "b.zst"], rm=True, files={"a.zst": ZA, "b.zst": g.zfile("trunc", 400)}))
    return cs


def random_case(g, i, big=False):
    rng = g.rng
    mode = rng.choice(["C", "C", "D", "D", "D", "T"])
    n = rng.choice([1, 1, 1, 2, 3])
    files = {}
    srcs = []
    for j in range(n):
        base = rng.choice(["a", "b", "c", "data", "x.y"]) + str(j)
        if mode == "C":
            name = base + rng.choice(["", ".txt", ".zst"])
            kind = rng.choice(["file"] * 6 + ["missing", "dir"])
            if kind == "file":
                files[name] = text(rng, rng.choice([0, 1, 100, 4000, 20000] + ([500000] if big else [])))
            elif kind == "dir":
                files[name] = DIR
        else:
            name = base + rng.choice([".zst", ".zst", ".zst", ".zstd", ".tzst", ".dat"])
            kind = rng.choice(["good"] * 5 + ["multi", "corrupt", "trunc", "junk-short", "junk-long", "empty", "notzstd",
                                              "good-then-corrupt", "missing", "dir"])
            if kind == "dir":
                files[name] = DIR
            elif kind != "missing":
                files[name] = g.zfile(kind, rng.choice([0, 10, 3000, 30000] + ([600000] if big else [])) if kind in ("good", "multi") else None)
        srcs.append(name)
    out = rng.choice(["-", "-", "-", "c", "o:out.bin"])
    force = rng.random() < 0.35
    rm = rng.random() < 0.6
    quiet = rng.random() < 0.75
    answer = rng.choice(["y", "n"])
    case = Case("rnd%d" % i, mode, srcs, out=out, force=force, rm=rm, quiet=quiet, answer=answer, files=files)
    # sometimes a destination pre-exists
    if rng.random() < 0.4:
        if out.startswith("o:"):
            files["out.bin"] = b"old output\n"
        elif out == "-":
            s = srcs[0]
            d = (s + ".zst") if mode == "C" else (s.rsplit(".", 1)[0] if "." in s else None)
            if d and d not in files:
                files[d] = b"old destination\n"
        case.files = files
    return case


# ----------------------------------------------------------------------------- sparse writer

def sparse_specs(rng, thorough):
    S = 32768
    fixed = [
        "z8",                                  # one zero word only: End writes the last byte
        "x8", "x1", "z1", "z7", "z9", "x3+z5", "z5+x3",
        "z%d" % S, "z%d+x8" % S, "x8+z%d" % S, "z%d" % (S - 8), "z%d+x1" % (S + 8),
        "z%d,z%d" % (S, S), "z%d,x8" % (3 * S), "x8+z%d+x8" % (2 * S),
        "z%d+x5+z3,z%d|x9+z100" % (40000, S),
        "z%d|z%d|x1" % (S, S),                 # several frames: End after each
        "z131072,z131072,z4096+x16+z4080",     # write-job sized chunks
        "x8+z%d" % (S - 8), "z%d+x8+z%d" % (S - 8, S),   # exact multiples of the segment
        "z%d+x1+z6" % (S + 1),                 # unaligned tail
        "z100000+x1,z100000",                  # ends in a zero run across jobs
    ]
    specs = [("0", s) for s in fixed]
    specs += [("1073741829", "z16+x8|z5"), ("1073741825", "z8"), ("1073741824", "z24+x8"), ("3221225472", "x8")]
    for _ in range(40 if thorough else 12):
        frames = []
        for _f in range(rng.randrange(1, 4)):
            chunks = []
            for _c in range(rng.randrange(1, 4)):
                runs = []
                for _r in range(rng.randrange(1, 5)):
                    n = rng.choice([1, 3, 7, 8, 9, 64, 4096, S - 8, S, S + 8, 2 * S, 50000])
                    runs.append(("z" if rng.random() < 0.6 else "x") + str(n))
                chunks.append("+".join(runs))
            frames.append(",".join(chunks))
        specs.append(("0", "|".join(frames)))
    return specs


def spec_bytes(spec):
    out = bytearray()
    for fr in spec.split("|"):
        for ch in fr.split(","):
            for r in ch.split("+"):
                n = int(r[1:])
                out += bytes(n) if r[0] == "z" else bytes(1 + (j % 255) for j in range(n))
    return bytes(out)


def check_sparse(ctx, t, m, rng):
    nviol = 0
    out = os.path.join(ctx.scratch, "sparse.out")
    for sk0, spec in sparse_specs(rng, ctx.tier == "thorough"):
        ml = m.ask("SP;%s;%s" % (sk0, spec))
        mops = [l for l in ml if l.startswith("SOPS")][0].split()[1:]
        rc, so, se = core.sh([t.sparse, out, "1", sk0, spec], timeout=120)
        if rc != 0:
            ctx.violation(dict(kind="sparse", spec=spec, skips0=sk0, err=se[-500:]), what="sparse writer harness failed: " + se[-200:], no_input=True)
            nviol += 1
            continue
        lines = so.strip().split("\n")
        rops = lines[0].split()
        size = int(lines[-1].split()[1])
        want = spec_bytes(spec)
        ctx.count(("sparse", tuple(o[0] for o in mops), sk0 != "0"), nontrivial=len(mops) > 0)
        ctx.cov["traces_validated_against_impl"] += 1
        concrete = None
        if sk0 == "0":
            got = open(out, "rb").read()
            if got != want:
                concrete = "sparse writer output differs from the plain bytes: %d bytes vs %d, first difference at %d" % (
                    len(got), len(want), next((i for i in range(min(len(got), len(want))) if got[i] != want[i]), min(len(got), len(want))))
            if any(l.startswith("SRES") and "equal_plain=false" in l for l in ml):
                concrete = (concrete or "") + " (model: sparse != plain)"
        else:
            if size != int(sk0) + len(want):
                concrete = "sparse writer file size %d, expected %d" % (size, int(sk0) + len(want))
            else:
                with open(out, "rb") as f:
                    f.seek(int(sk0))
                    if f.read() != want:
                        concrete = "sparse writer tail bytes differ after a >1GB skip"
        if nviol >= 3:
            break
        if concrete:
            ctx.violation(dict(kind="sparse", spec=spec, skips0=sk0, real_ops=rops, model_ops=mops), what=concrete + " [spec %s]" % spec[:200])
            nviol += 1
        elif rops != mops:
            ctx.violation(dict(kind="sparse-tie", spec=spec, skips0=sk0, real_ops=rops, model_ops=mops),
                          what="seek/write calls of AIO_fwriteSparse differ from sparse_frames_ops: real=%s model=%s [spec %s]" % (rops[:12], mops[:12], spec[:120]),
                          no_input=True)
            nviol += 1
        try:
            os.unlink(out)
        except OSError:
            pass
    return nviol


def check_cli_sparse(rn, g, thorough):
    """the real CLI: --sparse and --no-sparse outputs are byte-identical (and equal the library's decoding)"""
    ctx = rn.ctx
    S = 32768
    rng = g.rng
    layouts = [bytes(S), bytes(3 * S) + b"x", b"x" + bytes(3 * S), bytes(S - 1), bytes(S + 1),
               bytes(200000), b"head" + bytes(131072 * 2) + b"tail" + bytes(131072), bytes(1),
               bytes(8), bytes(70000) + text(rng, 100) + bytes(40000)]
    if thorough:
        layouts += [bytes(5 * 131072 + 3), text(rng, 1000) + bytes(1 << 20), bytes(1 << 20) + text(rng, 7) + bytes(12345)]
    nviol = 0
    for i, content in enumerate(layouts):
        zs = [g.z(content)]
        if i % 3 == 0:
            zs.append(g.z(content[:len(content) // 2]) + g.z(content[len(content) // 2:]))     # two frames
        for z in zs:
            outs = {}
            for flag in ("--sparse", "--no-sparse"):
                case = Case("sparse%d%s" % (i, flag), "D", ["s.zst"], extra=[flag], files={"s.zst": z})
                r = rn.execute(case)
                real = read_dir(r["w"])
                outs[flag] = (real.get("s"), r["status"], os.stat(os.path.join(r["w"], "s")).st_blocks if "s" in real else -1)
                rn.cleanup(r)
            ctx.count(("cli-sparse", len(content), len(zs), outs["--sparse"][2] < outs["--no-sparse"][2]), nontrivial=True)
            for flag in outs:
                if nviol >= 2:
                    return nviol
                if outs[flag][0] != content or outs[flag][1] != ("EXIT", 0):
                    got = outs[flag][0]
                    ctx.violation(dict(kind="cli-sparse", flag=flag, zst=z.hex() if len(z) < 4096 else None, content_len=len(content),
                                       got_len=None if got is None else len(got), status=outs[flag][1]),
                                  what="zstd -d %s: output differs from the library's decoding (%s bytes instead of %d)" % (
                                      flag, None if got is None else len(got), len(content)))
                    nviol += 1
    return nviol


# ----------------------------------------------------------------------------- entry

def run(ctx):
    rng = random.Random(ctx.seed * 7919 + 19)
    ctx.cov["rule"] = (
        "cases = CLI invocations from the grammar {compress, decompress, test} x {1..3 sources: regular / missing / directory; "
        ".zst sources good / multi-frame+skippable / corrupted / truncated / trailing junk / empty / not-zstd} x {default destination, -c, -o} x "
        "{-f, --rm, -q or interactive y/n} x {destination pre-exists or not}: a fixed boundary corpus first, then cases from one PRNG seeded by VERIF_SEED. "
        "Each case: reference run under the ptrace supervisor (canonical file-operation trace vs extracted fio_ops, final directory vs model, exit status vs "
        "library verdict), then the process tree is killed at system call k (every k from the first call naming a case file; sampled in quick) and SIGINT is "
        "delivered at sampled calls of a finer grid; sparse-writer cases = run specs (zero / non-zero runs around the 8-byte word, the 32 KiB segment, job and frame "
        "boundaries, >1 GiB stored skips) driven through AIO_fwriteSparse/End vs the model call by call. distinct_nontrivial counts distinct signatures "
        "(kind, invocation shape, model operation-kind sequence | matched model prefix state index | sparse op-kind sequence); a trace is trivial if the model "
        "predicts no file operation besides exit.")
    import glob
    import time
    t0 = time.time()
    if not ctx.replay_file:
        for old in glob.glob(os.path.join(core.REPLAY, "C19-*.json")):      # replay files of earlier runs
            os.unlink(old)
    tools = build_tools()
    core.log("C19 tools built %.1fs" % (time.time() - t0))
    r = ctx.prove()
    core.log("C19 proofs checked %.1fs" % (time.time() - t0))
    ctx.proof_verdict(lambda broken: [])
    ctx.assumptions += [
        "the theorems are about the Gallina model (coq/Cli); the model is tied to programs/*.c by differential testing of the rebuilt binary (trace, kill points, SIGINT points, sparse calls)",
        "crash points are system-call boundaries of the traced process tree; libc stdio buffering and kernel/file-system durability are outside (no fsync is claimed)",
        "verdict_sound (codec right when it reports success) is a hypothesis of crash_safe: properties C01/C02/C04 carry it; per run the destination is decoded/compared with the library",
        "I/O faults (EXM_THROW paths: write error, close error) are in the model as Throw/close_ok but are not injected on the real binary",
    ]
    if ctx.replay_file:
        return replay(ctx, tools)
    m = Model(tools.model)
    try:
        rn = Runner(ctx, tools, m)
        g = Gen(rn, rng)
        quick = ctx.quick
        nviol = 0
        nviol += check_sparse(ctx, tools, m, rng)
        core.log("C19 sparse writer tie done %.1fs" % (time.time() - t0))
        nviol += check_cli_sparse(rn, g, not quick)
        core.log("C19 CLI sparse/no-sparse done %.1fs" % (time.time() - t0))
        cases = corpus(g)
        nrand = 24 if quick else 400
        for i in range(nrand):
            cases.append(random_case(g, i, big=(not quick and i % 10 == 0)))
        if not quick:
            A = text(rng, 900000)
            cases.append(Case("c-big-async-rm", "C", ["big"], rm=True, files={"big": A}))
            cases.append(Case("c-big-T2", "C", ["big"], rm=True, extra=["-T2"], files={"big": A}))
            cases.append(Case("c-long", "C", ["big"], rm=True, extra=["--long=20"], files={"big": A}))
            cases.append(Case("d-big-async-rm", "D", ["big.zst"], rm=True, files={"big.zst": g.z(A)}))
            dic = text(rng, 4000)
            cases.append(Case("c-dict", "C", ["a"], rm=True, extra=["-D", "dict"], files={"a": text(rng, 3000), "dict": dic}))
        hist = {}
        for ci, case in enumerate(cases):
            corpus_case = not case.name.startswith("rnd")
            nk = None if not quick else (12 if corpus_case else 6)
            ni = (4 if corpus_case else 2) if quick else 40
            if case.name in ("c-rm", "d-rm", "d-corrupt-rm", "c-exists-force-rm"):
                ni = 10 ** 6          # every SIGINT point of the basic --rm runs, in both tiers
            hist[case.mode + ":" + case.out.split(":")[0]] = hist.get(case.mode + ":" + case.out.split(":")[0], 0) + 1
            try:
                nviol += check_case(rn, case, nk, ni, rng)
            except subprocess.TimeoutExpired:
                ctx.violation(dict(kind="timeout", case=case.to_json()), what="zstd did not terminate under the supervisor: " + " ".join(case.argv()))
                nviol += 1
            if nviol >= 6:
                break
        core.log("C19 invocations done %.1fs (%d supervised runs)" % (time.time() - t0, rn.n_dirs))
        ctx.notes["supervised_runs"] = rn.n_dirs
        ctx.notes["invocations_by_mode_output"] = hist
        ctx.notes["invocations"] = len(cases)
    finally:
        m.close()


def replay(ctx, tools):
    j = json.load(open(ctx.replay_file))
    rep = j.get("replay", {})
    m = Model(tools.model)
    try:
        rn = Runner(ctx, tools, m)
        rng = random.Random(ctx.seed)
        kind = rep.get("kind", "")
        if kind.startswith("sparse"):
            out = os.path.join(ctx.scratch, "sparse.out")
            rc, so, se = core.sh([tools.sparse, out, "1", rep["skips0"], rep["spec"]], timeout=120)
            ml = m.ask("SP;%s;%s" % (rep["skips0"], rep["spec"]))
            core.log("real :", so.strip()[:2000])
            core.log("model:", " ".join(ml)[:2000])
            got = open(out, "rb").read() if rep["skips0"] == "0" else None
            if got is not None and got != spec_bytes(rep["spec"]):
                ctx.violation(rep, what="replay: sparse writer output differs from the plain bytes")
            elif so.strip().split("\n")[0].split() != [l for l in ml if l.startswith("SOPS")][0].split()[1:]:
                ctx.violation(rep, what="replay: sparse call sequence differs from the model", no_input=True)
        elif "case" in rep:
            case = Case.from_json(rep["case"])
            check_case(rn, case, None, 40, rng)
        else:
            core.log("nothing to replay in", ctx.replay_file)
    finally:
        m.close()
