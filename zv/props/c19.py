"""C19 — the zstd command-line tool never loses or silently damages user data.

Decision: Coq theorems (coq/Props/Properties_C19.v) about the executable model of the CLI file
protocol (coq/Cli/FsModel.v, FioModel.v) and of the sparse writer (SparseModel.v).
Tie (checked on every run, differential testing -- supports, never replaces the theorems):
  * the real `zstd` binary, rebuilt from /repo's working tree, runs under a ptrace supervisor
    (harness/c19_killer.c) in scratch directories; its file-system system calls are canonicalised
    and compared with `fio_ops` of the extracted model for the same invocation, with the
    library's own per-frame verdicts (harness/c19_lib.c) as the codec parameter of the model;
  * kill-point enumeration: the process tree is killed on entry of the k-th file-system system
    call; the directory must satisfy the crash_safe / no_clobber predicates (direct oracle) and
    be one of the model's prefix states; the same with SIGINT delivered at the k-th call;
  * exit status 0 iff the library accepts the same bytes; output bytes == library's decoding;
  * programs/fileio_asyncio.c's static sparse writer is driven directly (harness/c19_sparse.c,
    seek/write calls logged) and compared call by call with `sparse_frames_ops`; the CLI's
    --sparse and --no-sparse outputs are compared byte for byte on zero-run layouts.
"""
import hashlib
import json
import os
import random
import shutil
import subprocess

from zv import core

PID = "C19"
DIR = "<DIR>"          # marker for a directory in a case's initial file set

SYS = {257: "openat", 2: "open", 85: "creat", 87: "unlink", 263: "unlinkat", 3: "close", 1: "write",
       18: "pwrite64", 20: "writev", 8: "lseek", 280: "utimensat", 91: "fchmod", 93: "fchown", 90: "chmod",
       82: "rename", 264: "renameat", 316: "renameat2", 231: "exit_group", 76: "truncate", 77: "ftruncate",
       268: "fchmodat", 285: "fallocate"}
O_WRONLY, O_RDWR, O_CREAT, O_TRUNC = 1, 2, 0o100, 0o1000


# ----------------------------------------------------------------------------- builds

class Tools:
    pass


def build_tools():
    t = Tools()
    P = os.path.join(core.REPO, "programs")
    srcs = [os.path.join(P, f) for f in
            "zstdcli.c fileio.c fileio_asyncio.c util.c timefn.c benchfn.c benchzstd.c datagen.c dibio.c lorem.c zstdcli_trace.c".split()]
    t.zstd = core.build_harness("zstdcli", srcs, extra_inc=[P])
    t.lib = core.build_harness("c19_lib", ["c19_lib.c"])
    t.sparse = core.build_harness("c19_sparse", ["c19_sparse.c"], extra_inc=[P], extra_flags=["-fno-builtin"])
    t.killer = core.build_harness("c19_killer", ["c19_killer.c"], link_lib=False, libs=())
    os.makedirs(os.path.join(core.COQ, "Extract", "out"), exist_ok=True)
    t.model = core.build_extracted("c19model", "Extract/Extract_C19.v", "c19_driver.ml")
    return t


# ----------------------------------------------------------------------------- the model side

class Model:
    def __init__(self, exe):
        self.p = subprocess.Popen([exe], stdin=subprocess.PIPE, stdout=subprocess.PIPE)

    def ask(self, line):
        self.p.stdin.write((line + "\n").encode())
        self.p.stdin.flush()
        out = []
        while True:
            l = self.p.stdout.readline()
            if not l:
                raise RuntimeError("model driver died on: " + line[:200])
            l = l.decode().rstrip("\n")
            if l == "END":
                return out
            out.append(l)

    def close(self):
        try:
            self.p.stdin.close()
            self.p.wait(timeout=10)
        except Exception:
            self.p.kill()


class Tokens:
    """blobs <-> the integer tokens the model concatenates"""

    def __init__(self):
        self.blob = {}
        self.n = 0

    def new(self, data):
        self.n += 1
        self.blob[self.n] = data          # bytes, or ("Z", src) = unpredicted compressed frame, or ("P",) = partial
        return self.n

    def resolve(self, toks):
        """bytes if every token is known, else None"""
        out = b""
        for t in toks:
            b = self.blob[t]
            if not isinstance(b, bytes):
                return None
            out += b
        return out


def parse_toks(s):
    return [int(x) for x in s.split("+")] if s else []


# ----------------------------------------------------------------------------- one invocation

class Case:
    """mode C/D/T, srcs [names] ('-' = stdin), out '-'|'c'|'o:name'|'O:dir', force, rm (or rmk = the --rm / -k flags in order),
    quiet, answer ('y'/'n'/None), files {name: bytes | DIR} (names may contain '/'), links {name: target},
    stdin bytes, rec (-r), excl (--exclude-compressed), dict / patch (file names), extra [args]"""

    def __init__(self, name, mode, srcs, out="-", force=False, rm=False, quiet=True, answer=None,
                 files=None, extra=(), links=None, stdin=None, rec=False, excl=False, dictf=None, patch=None, rmk=None):
        self.name, self.mode, self.srcs, self.out = name, mode, list(srcs), out
        self.force, self.quiet, self.answer = force, quiet, answer
        self.rmk = list(rmk) if rmk is not None else (["r"] if rm else [])
        self.files = dict(files or {})
        self.links = dict(links or {})
        self.stdin = stdin
        self.rec, self.excl, self.dict, self.patch = rec, excl, dictf, patch
        self.extra = list(extra)

    @property
    def rm(self):
        return bool(self.rmk) and self.rmk[-1] == "r"

    def typed(self):
        """what the run finds on its standard input"""
        if self.stdin is not None:
            return self.stdin
        return ((self.answer or "n") + "\n").encode() * 16 if not self.quiet else b""

    def answer_byte(self):
        """first byte of the answer typed at a prompt (256 = end of input); None when no interaction is possible (-q)
        or no prompt exists (-c, -t) or stdin is a source (the prompt is not asked: outside the model's grammar)"""
        if self.quiet or self.out == "c" or self.mode == "T" or "-" in self.srcs:
            return None
        t = self.typed()
        return t[0] if t else 256

    @property
    def confirm(self):
        return self.answer_byte() in (ord("y"), ord("Y"))

    def argv(self):
        a = []
        if self.mode == "D":
            a.append("-d")
        elif self.mode == "T":
            a.append("-t")
        if self.quiet:
            a.append("-q")
        if self.force:
            a.append("-f")
        for f in self.rmk:
            a.append("--rm" if f == "r" else "-k")
        if self.out == "c":
            a.append("-c")
        if self.rec:
            a.append("-r")
        if self.excl:
            a.append("--exclude-compressed")
        if self.dict is not None:
            a += ["-D", self.dict]
        if self.patch is not None:
            a.append("--patch-from=" + self.patch)
        a += self.extra
        if self.out.startswith("O:"):
            a += ["--output-dir-flat", self.out[2:]]
        a += self.srcs
        if self.out.startswith("o:"):
            a += ["-o", self.out[2:]]
        return a

    def to_json(self):
        return dict(name=self.name, mode=self.mode, srcs=self.srcs, out=self.out, force=self.force, rmk=self.rmk,
                    quiet=self.quiet, answer=self.answer, extra=self.extra, links=self.links,
                    stdin=None if self.stdin is None else self.stdin.hex(), rec=self.rec, excl=self.excl,
                    dict=self.dict, patch=self.patch,
                    files={k: (DIR if v == DIR else v.hex()) for k, v in self.files.items()})

    @staticmethod
    def from_json(j):
        return Case(j["name"], j["mode"], j["srcs"], j["out"], j["force"], False, j["quiet"], j["answer"],
                    {k: (DIR if v == DIR else bytes.fromhex(v)) for k, v in j["files"].items()}, j["extra"],
                    links=j.get("links"), stdin=None if j.get("stdin") is None else bytes.fromhex(j["stdin"]),
                    rec=j.get("rec", False), excl=j.get("excl", False), dictf=j.get("dict"), patch=j.get("patch"),
                    rmk=j.get("rmk", ["r"] if j.get("rm") else []))

    def kind_of(self, s):
        if s == "-":
            return "stdin"
        if s in self.links:
            return "link"
        v = self.files.get(s)
        return "missing" if v is None else ("dir" if v == DIR else "file")

    def shape(self):
        """canonical shape of the invocation (for distinct_nontrivial)"""
        kinds = tuple(self.kind_of(s) for s in self.srcs)
        return (self.mode, self.out.split(":")[0], self.force, "".join(self.rmk), self.confirm, len(self.srcs), kinds,
                self.rec, self.excl, self.dict is not None, self.patch is not None)


class Runner:
    def __init__(self, ctx, tools, model):
        self.ctx, self.t, self.m = ctx, tools, model
        self.n_dirs = 0
        self.dict = None          # dictionary (-D) of the case being checked, for the library oracle
        self.env = {k: v for k, v in os.environ.items() if not k.startswith("ZSTD_")}

    def fresh(self, case):
        self.n_dirs += 1
        base = os.path.join(self.ctx.scratch, "r%05d" % self.n_dirs)
        w = os.path.join(base, "w")
        os.makedirs(w)
        for n, v in sorted(case.files.items()):
            p = os.path.join(w, n)
            if v == DIR:
                os.makedirs(p, exist_ok=True)
            else:
                os.makedirs(os.path.dirname(p), exist_ok=True)
                with open(p, "wb") as f:
                    f.write(v)
                os.utime(p, (1500000000, 1500000000))
        for n, t in sorted(case.links.items()):
            p = os.path.join(w, n)
            os.makedirs(os.path.dirname(p), exist_ok=True)
            os.symlink(os.path.relpath(os.path.join(w, t), os.path.dirname(p)), p)
        return base, w

    def execute(self, case, k=0, action="none", wide=False, setup=None):
        """run the real binary under the supervisor; returns dict(base, w, log, status, stdout)"""
        base, w = self.fresh(case)
        if setup is not None:
            setup(w)
        log = os.path.join(base, "klog")
        so = os.path.join(base, "stdout")
        si = os.path.join(base, "stdin")
        with open(si, "wb") as f:
            f.write(case.typed())
        env = dict(self.env)
        if wide:
            env["C19_WIDE"] = "1"
        with open(si, "rb") as fi, open(so, "wb") as fo, open(os.path.join(base, "stderr"), "wb") as fe:
            p = subprocess.run([self.t.killer, str(k), action, log, "--", self.t.zstd] + case.argv(),
                               cwd=w, stdin=fi, stdout=fo, stderr=fe, env=env, timeout=120)
        if p.returncode != 0:
            raise RuntimeError("supervisor failed rc=%d" % p.returncode)
        entries, status = parse_klog(log)
        return dict(base=base, w=w, entries=entries, status=status, stdout=open(so, "rb").read())

    def cleanup(self, r):
        shutil.rmtree(r["base"], ignore_errors=True)

    # -- the library's verdict on a source (decompression / test)
    def classify(self, data, tk):
        base = os.path.join(self.ctx.scratch, "cls")
        shutil.rmtree(base, ignore_errors=True)
        os.makedirs(base)
        fn = os.path.join(base, "in")
        with open(fn, "wb") as f:
            f.write(data)
        cmd = [self.t.lib, "classify", fn, os.path.join(base, "p")]
        if self.dict is not None:
            with open(os.path.join(base, "dict"), "wb") as f:
                f.write(self.dict)
            cmd.append(os.path.join(base, "dict"))
        rc, out, err = core.sh(cmd, timeout=120)
        if rc != 0:
            raise RuntimeError("c19_lib classify failed: " + err[-500:])
        items = []
        k = 0
        oneshot = None
        for l in out.split("\n"):
            f = l.split()
            if not f:
                continue
            if f[0] in ("K", "B"):
                payload = open(os.path.join(base, "p.%d" % k), "rb").read()
                k += 1
                if f[0] == "K":
                    items.append(("K", tk.new(payload)))
                else:
                    items.append(("B", tk.new(("P", payload))))
            elif f[0] == "J":
                items.append(("J", tk.new(data[len(data) - int(f[1]):])))
            elif f[0] == "ONESHOT":
                if f[1] == "ok":
                    oneshot = open(os.path.join(base, "p.9999"), "rb").read()
        accepted = len(data) > 0 and oneshot is not None
        return items, accepted, oneshot

    def lib_decode(self, data):
        tk = Tokens()
        items, accepted, oneshot = self.classify(data, tk)
        return oneshot if accepted else None


def parse_klog(path):
    entries = []
    status = None
    byidx = {}
    for l in open(path, errors="replace"):
        f = l.split()
        if not f:
            continue
        if f[0] == "RET":
            e = byidx.get(int(f[1]))
            if e is not None:
                e["ret"] = int(f[3])
        elif f[0] == "ACT":
            entries.append(dict(act=f[1]))
        elif f[0] in ("EXIT", "SIGNALED", "UNKNOWN"):
            status = (f[0], int(f[1]) if len(f) > 1 else -1)
        elif f[0].isdigit() and len(f) >= 8:
            e = dict(idx=int(f[0]), tid=int(f[1]), nr=int(f[2]), path=f[3], a=[int(x) for x in f[4:8]], ret=None)
            byidx[e["idx"]] = e
            entries.append(e)
    return entries, status


def canon_real(entries, relevant, links=None, stdin_src=False):
    """system calls of the real run -> canonical events on the relevant paths.
    links: the symbolic links of the case {name: target}: an open(O_CREAT) through a link that still exists is an
    event on the target key (the model's operations name the key they act on)"""
    ev = []
    fd = {}
    live = dict(links or {})
    if stdin_src:
        fd[0] = ("-", "r")
    for e in entries:
        if "act" in e:
            continue
        name = SYS.get(e["nr"], str(e["nr"]))
        p = e["path"]
        if p.startswith("./"):
            p = p[2:]
        if name in ("openat", "open", "creat"):
            flags = e["a"][2] if name == "openat" else (e["a"][1] if name == "open" else O_CREAT | O_TRUNC | O_WRONLY)
            mode = e["a"][3] if name == "openat" else (e["a"][2] if name == "open" else e["a"][1])
            if flags & 0o200000:
                continue                           # opendir (-r): reading a directory is not part of the protocol
            if p in relevant and e["ret"] is not None and e["ret"] >= 0:
                if flags & O_CREAT or flags & O_TRUNC or flags & (O_WRONLY | O_RDWR):
                    kind = "c"
                    key = live.get(p, p)
                    ev.append("c:%s:%o%s" % (key, mode & 0o7777, "" if (flags & O_CREAT and flags & O_TRUNC) else ":flags=%o" % flags))
                    fd[e["ret"]] = (key, kind)
                else:
                    kind = "r"
                    ev.append("r:" + p)
                    fd[e["ret"]] = (p, kind)
        elif name == "close":
            x = fd.pop(e["a"][0], None)
            if x:
                ev.append(("x:" if x[1] == "c" else "xs:") + x[0])
        elif name in ("write", "pwrite64", "writev", "lseek", "ftruncate", "fallocate"):
            pass                                   # placement of the data flushes is libc's business
        elif name in ("fchmod", "fchown"):
            x = fd.get(e["a"][0])
            if x and (not ev or ev[-1] != "s:" + x[0]):
                ev.append("s:" + x[0])
        elif name in ("chmod", "fchmodat"):
            if p in relevant and (not ev or ev[-1] != "s:" + p):
                ev.append("s:" + p)
        elif name == "utimensat":
            if p in relevant:
                ev.append("t:" + p)
        elif name in ("unlink", "unlinkat"):
            if p in relevant and e["ret"] == 0:
                ev.append("u:" + p)
                live.pop(p, None)
        elif name in ("rename", "renameat", "renameat2", "truncate", "mkdir", "mkdirat", "rmdir"):
            if p in relevant:
                ev.append(name + ":" + p)
        elif name == "exit_group":
            ev.append("exit:%d" % (e["a"][0] & 0xff))
    return ev


def canon_model(ops):
    ev = []
    for o in ops:
        f = o.split(":")
        k = f[0]
        if k == "r":
            ev.append("r:" + f[1])
        elif k == "c":
            ev.append("c:%s:%s" % (f[1], f[2]))
        elif k in ("w", "o", "reg", "clr"):
            pass
        elif k == "s":
            ev.append("s:" + f[1])
        elif k == "x":
            ev.append("x:" + f[1])
        elif k == "t":
            ev.append("t:" + f[1])
        elif k in ("ud", "us"):
            ev.append("u:" + f[1])
        elif k == "xs":
            ev.append("xs:" + f[1])
        elif k == "exit":
            ev.append("exit:" + f[1])
    return ev


class Prepared:
    """a case + the library's verdicts + the model's answer"""
    pass


FAULT_FIELDS = ("open", "ovw_unlink", "creat", "close", "art_unlink", "close_src", "rm")


def fault_str(f):
    """f: dict with the failing call sites of one file -> the model's fault field"""
    f = f or {}
    return "".join("0" if f.get(k) else "1" for k in FAULT_FIELDS) + ("-" if f.get("wfail") is None else str(f["wfail"]))


def listing(rn, case):
    """readdir order of the directories of the case, as the tool will see it (a fresh copy of the case's tree)"""
    if not case.rec:
        return {}
    base, w = rn.fresh(case)
    ls = {}
    for root, dirs, files in os.walk(w, followlinks=True):
        rel = os.path.relpath(root, w)
        if rel == ".":
            continue
        ls[rel] = [os.path.join(rel, n) for n in os.listdir(root)]
    shutil.rmtree(base, ignore_errors=True)
    return ls


def model_line(case, fsl, ls, verd, faults):
    vl = []
    for n, (co, cc, items) in verd.items():
        vl.append("%s=%s:%s:%s:%s" % (n, fault_str(faults.get(n)), co, cc, items))
    for n, f in faults.items():
        if n not in verd:
            vl.append("%s=%s:0::" % (n, fault_str(f)))
    ab = case.answer_byte()
    return "FIO;%s;%s;%s;%d%d%d:%s;%s;%s;%s;%s;%s;%s;" % (
        case.mode, ",".join(case.srcs), case.out, case.force, case.rec, case.excl, "-" if ab is None else str(ab), "".join(case.rmk),
        case.dict or "", case.patch or "", ",".join(fsl),
        ",".join("%s>%s" % (d, "|".join(c)) for d, c in ls.items()), ",".join(vl))


def ask_model(rn, pr, faults):
    """the model's answer for the prepared case under the given faults -> (ops, st, si, exit)"""
    out = rn.m.ask(model_line(pr.case, pr.fsl, pr.ls, pr.verd, faults) + ",".join(pr.probes))
    ops, st, si = [], [], []
    for l in out:
        if l.startswith("OPS"):
            ops = l.split()[1:]
        elif l.startswith("ST ") or l.startswith("SI "):
            f = l.split()
            d = {}
            for kv in f[3:]:
                n, v = kv.split("=", 1)
                d[n] = v
            (st if f[0] == "ST" else si).append(d)
    ex = [o for o in ops if o.startswith("exit:")]
    return ops, st, si, (int(ex[-1].split(":")[1]) if ex else None)


def prepare(rn, case):
    pr = Prepared()
    pr.case = case
    tk = pr.tk = Tokens()
    pr.filetok = {}
    fsl = []
    for n, v in sorted(case.files.items()):
        if v == DIR:
            fsl.append("%s=D" % n)
        else:
            pr.filetok[n] = tk.new(v)
            fsl.append("%s=R%d" % (n, pr.filetok[n]))
    for n, t in sorted(case.links.items()):
        fsl.append("%s=L%s" % (n, t))
    if case.stdin is not None and "-" in case.srcs:
        pr.filetok["-"] = tk.new(case.stdin)
        fsl.append("-=R%d" % pr.filetok["-"])
    pr.fsl = fsl
    pr.ls = listing(rn, case)
    # first question: which names does the run process, and into which destinations
    first = rn.m.ask(model_line(case, fsl, pr.ls, {}, {}))
    pr.names, pr.dst = [], {}
    for l in first:
        if l.startswith("NAMES"):
            pr.names = l.split()[1:]
        elif l.startswith("DST"):
            for kv in l.split()[1:]:
                s, d = kv.rsplit("=", 1)
                pr.dst[s] = None if d == "-" else d
    pr.accept, pr.decoded, pr.items = {}, {}, {}
    pr.verd = {}
    pr.content = {}          # effective name -> the bytes it denotes (through a link), when it is a regular file

    def deref(n):
        if n == "-":
            return case.stdin
        v = case.files.get(case.links.get(n, n))
        return v if isinstance(v, bytes) else None

    for s in dict.fromkeys(pr.names):
        v = deref(s)
        if v is None:
            continue
        pr.content[s] = v
        if case.mode == "C":
            z = tk.new(("Z", s))
            pr.verd[s] = ("0", str(z), "")
        else:
            items, accepted, oneshot = rn.classify(v, tk)
            pr.accept[s], pr.decoded[s], pr.items[s] = accepted, oneshot, items
            pr.verd[s] = ("0", "", "/".join("%s+%d" % (k, t) for k, t in items))
    probes = list(dict.fromkeys(list(case.files.keys()) + list(case.links.keys()) + list(case.links.values()) +
                                [s for s in pr.names if s != "-"] + [d for d in pr.dst.values() if d] +
                                ([case.out[2:]] if case.out.startswith("o:") else [])))
    pr.probes = probes
    pr.ops, pr.st, pr.si, pr.exit = ask_model(rn, pr, {})
    pr.model_line = model_line(case, fsl, pr.ls, pr.verd, {}) + ",".join(probes)
    pr.events = canon_model(pr.ops)
    pr.vis = [len(canon_model(pr.ops[:j])) for j in range(len(pr.ops) + 1)]
    # well-formedness (hypothesis of crash_safe): sources distinct, no destination is a source, destinations distinct,
    # no destination name is a link, no link source points at a source or a destination
    srcs = pr.names
    dl = [pr.dst.get(s) for s in srcs if pr.dst.get(s)]
    shared = case.out[2:] if case.out.startswith("o:") else None
    alld = set(dl) | ({shared} if shared else set())
    origins = [case.links.get(s, s) for s in srcs]
    pr.wf = (len(set(srcs)) == len(srcs) and not (set(dl) & set(srcs)) and len(set(dl)) == len(dl)
             and (shared is None or shared not in srcs)
             and not any(d in case.links for d in alld)
             and len(set(origins)) == len(origins)
             and not any(case.links[s] in srcs or case.links[s] in alld for s in srcs if s in case.links))
    pr.total = totals(pr.ops)
    return pr


def totals(ops):
    """for every destination key: the payloads it may receive, one token list per creation (for the "prefix while open" rule)"""
    total = {}
    for o in ops:
        f = o.split(":")
        if f[0] == "w":
            total.setdefault(f[1], [[]])[-1].extend(parse_toks(f[2]))
        elif f[0] == "c":
            total.setdefault(f[1], []).append([])
    return total


def read_dir(w):
    """relative path -> bytes | DIR | ("L", target relative to w)"""
    st = {}
    for root, dirs, files in os.walk(w):
        for n in dirs + files:
            p = os.path.join(root, n)
            rel = os.path.relpath(p, w)
            if os.path.islink(p):
                st[rel] = ("L", os.path.normpath(os.path.join(os.path.dirname(rel), os.readlink(p))))
            elif os.path.isdir(p):
                st[rel] = DIR
            else:
                st[rel] = open(p, "rb").read()
    return st


def show_dir(d):
    return {n: (DIR if v == DIR else ("->" + v[1] if isinstance(v, tuple) else len(v))) for n, v in d.items()}


def node_matches(pr, zbytes, name, mnode, real, cut=False):
    """does the real node `real` (bytes | DIR | None) match the model node string?"""
    if mnode == "A":
        return real is None
    if mnode == "D":
        return real == DIR
    if mnode[0] == "L":
        return real == ("L", mnode[1:])
    if real is None or real == DIR or isinstance(real, tuple):
        return False
    toks = parse_toks(mnode[1:])
    if mnode[0] == "C":
        exp = resolve(pr, zbytes, toks)
        if exp is None:
            return True        # closed file holding an unpredicted blob (failed frame's partial output)
        if cut:
            return exp.startswith(real)     # fclose failed: what libc had not flushed yet is missing
        return real == exp
    # open: any prefix of everything this destination may receive before it is closed
    for cand in pr.total.get(name, [toks]):
        tot = resolve(pr, zbytes, cand)
        if tot is None:
            known = resolve_prefix(pr, zbytes, cand)
            if real.startswith(known) or known.startswith(real):
                return True
        elif tot.startswith(real):
            return True
    return False


def resolve(pr, zbytes, toks):
    out = b""
    for t in toks:
        b = pr.tk.blob[t]
        if isinstance(b, bytes):
            out += b
        elif b[0] == "Z" and b[1] in zbytes:
            out += zbytes[b[1]]
        else:
            return None
    return out


def resolve_prefix(pr, zbytes, toks):
    out = b""
    for t in toks:
        b = pr.tk.blob[t]
        if isinstance(b, bytes):
            out += b
        elif b[0] == "Z" and b[1] in zbytes:
            out += zbytes[b[1]]
        else:
            break
    return out


def state_in(pr, zbytes, real, states, nvisible=None):
    """index j of a model state that matches the real directory; with nvisible = (lo, hi): only prefixes of the
    model's operation list whose number of visible (system-call level) operations lies in that range are candidates"""
    for j, st in enumerate(states):
        if nvisible is not None and not (nvisible[0] <= pr.vis[j] <= nvisible[1]):
            continue
        if all(node_matches(pr, zbytes, n, v, real.get(n)) for n, v in st.items()):
            return j
    return -1


def visible_done(entries, k, inclusive, relevant, links=None, stdin_src=False):
    """(lo, hi): number of canonical events of the calls certainly completed before (kill) / up to (signal)
    call #k, and that number plus the calls of other threads that were in flight (entered, not yet returned)"""
    before = [e for e in entries if "act" not in e and (e["idx"] <= k if inclusive else e["idx"] < k)]
    lo = len(canon_real([e for e in before if e["ret"] is not None or SYS.get(e["nr"]) == "exit_group"], relevant, links, stdin_src))
    inflight = [e for e in before if e["ret"] is None and SYS.get(e["nr"]) != "exit_group"]
    return lo, lo + len(inflight)


# ----------------------------------------------------------------------------- direct oracles

def stdout_out(pr):
    """is stdout the destination of every source (zstdcli's hasStdout)"""
    case = pr.case
    return case.out == "c" or (case.out in ("-",) or case.out.startswith("O:")) and pr.names == ["-"]


def deref(real, n):
    """what name n denotes in a directory snapshot, following one symbolic link"""
    v = real.get(n)
    if isinstance(v, tuple):
        v = real.get(v[1])
    return v


def oracle_safe(rn, pr, real, zcache):
    """the crash_safe predicate on a real directory: every source intact, or its destination stands for it.
    (A source reached through a symbolic link is protected as a pre-existing file by oracle_noclobber.)"""
    case = pr.case
    bad = []
    names = pr.names
    alld = [pr.dst.get(x) for x in names if pr.dst.get(x)]
    shared = case.out[2:] if case.out.startswith("o:") else None
    for s in dict.fromkeys(names):
        orig = case.files.get(s)
        if orig is None or orig == DIR:
            continue
        if real.get(s) == orig:
            continue
        d = pr.dst.get(s)
        if not pr.wf:
            # outside the theorem's hypothesis: judge only the sources whose names do not collide with another
            # source's destination (destination == the source itself stays judged: the same-file rule)
            if names.count(s) > 1 or (d is not None and (alld.count(d) > 1 or (d in names and d != s))) \
                    or any(pr.dst.get(x) == s for x in names if x != s) or (shared == s and len(names) > 1) \
                    or s in case.links.values():
                continue
        ok = False
        if d is not None and isinstance(deref(real, d), bytes):
            got = deref(real, d)
            if case.mode == "C":
                key = hashlib.sha1(got).hexdigest()
                if key not in zcache:
                    zcache[key] = rn.lib_decode(got)
                ok = zcache[key] == orig
            elif case.mode == "D":
                ok = pr.accept.get(s) and got == pr.decoded.get(s)
        if not ok:
            bad.append("source %s is gone/changed and its destination %s does not hold its data" % (s, d))
    return bad


COLLISION = " (two sources of this run share the destination name: the second output replaced the first one after the first source had been removed)"


def oracle_collision(rn, pr, real, zcache):
    """final state only, outside wf: two sources of ONE run map to the same destination name.  A source that is gone must
    still be represented by the destination (finding C19-destination-collision-rm-loses-source: with -f --rm the first
    source is removed and its output is then overwritten by the second source's output)."""
    case = pr.case
    bad = []
    names = pr.names
    alld = [pr.dst.get(x) for x in names if pr.dst.get(x)]
    for s in dict.fromkeys(names):
        orig = case.files.get(s)
        d = pr.dst.get(s)
        if not isinstance(orig, bytes) or d is None or alld.count(d) < 2 or names.count(s) > 1 or d in names:
            continue
        if real.get(s) == orig:
            continue
        got = deref(real, d)
        ok = False
        if isinstance(got, bytes):
            if case.mode == "C":
                key = hashlib.sha1(got).hexdigest()
                if key not in zcache:
                    zcache[key] = rn.lib_decode(got)
                ok = zcache[key] == orig
            elif case.mode == "D":
                ok = bool(pr.accept.get(s)) and got == pr.decoded.get(s)
        if not ok:
            bad.append("source %s is gone and the destination %s does not hold its data%s" % (s, d, COLLISION))
    return bad


UNPROCESSED = " (an input of this command was replaced by the output of an earlier input before it was read)"


def oracle_unprocessed_input(rn, pr, real, zcache):
    """final state only, outside wf: a source that is also the destination name of an EARLIER source of the same run and
    pre-existed as a regular file.  If it is gone / changed, some file must still stand for its original bytes
    (candidate C19-output-replaces-unprocessed-input: `zstd -f --rm a a.zst` with a pre-existing a.zst)."""
    case = pr.case
    bad = []
    names = pr.names
    for k, s in enumerate(names):
        orig = case.files.get(s)
        if not isinstance(orig, bytes) or names.count(s) > 1:
            continue
        if not any(pr.dst.get(x) == s for x in names[:k]):
            continue
        if real.get(s) == orig:
            continue
        d = pr.dst.get(s)
        got = deref(real, d) if d else None
        ok = False
        if isinstance(got, bytes):
            if case.mode == "C":
                key = hashlib.sha1(got).hexdigest()
                if key not in zcache:
                    zcache[key] = rn.lib_decode(got)
                ok = zcache[key] == orig
            elif case.mode == "D":
                ok = bool(pr.accept.get(s)) and got == pr.decoded.get(s)
        if not ok:
            bad.append("input %s was overwritten by the output of an earlier input and its original content is represented nowhere%s" % (s, UNPROCESSED))
    return bad


def oracle_noclobber(pr, real, final=False):
    """pre-existing files, directories and links: untouched unless (-f / confirmed and it is a destination) or
    (a source removed by --rm)"""
    case = pr.case
    bad = []
    dsts = set(d for d in pr.dst.values() if d)
    if case.out.startswith("o:"):
        dsts.add(case.out[2:])
    may_rm = case.rm and case.mode != "T" and not stdout_out(pr)
    for n, v in case.files.items():
        if real.get(n) == v:
            continue
        if n in dsts and (case.force or case.confirm):
            continue            # the user asked for the overwrite
        if n in pr.names and may_rm:
            continue            # judged by oracle_safe
        bad.append("pre-existing %s %s although %s" % (n, "vanished" if real.get(n) is None else "was modified",
                                                       "no -f was given" if n in dsts else "it is not a destination"))
    for n, t in case.links.items():
        if real.get(n) == ("L", t):
            continue
        if n in dsts and (case.force or case.confirm):
            continue            # the link itself is replaced by the new file
        if n in pr.names and may_rm and case.force:
            continue            # --rm removes the link (its target is protected above)
        shape = (n in dsts and t not in case.files and t not in case.links and real.get(n) is None and isinstance(real.get(t), bytes))
        bad.append("pre-existing symbolic link %s %s although %s%s" % (
            n, "vanished" if real.get(n) is None else "was replaced", "no -f was given" if n in dsts else "it is not a destination",
            DANGLING if shape else ""))
    return bad


# ----------------------------------------------------------------------------- checking one case

def fs_idx(entries, relevant):
    """indices (1-based count) of the system calls from the first one that names a file of the case"""
    first = None
    for e in entries:
        if "act" in e:
            continue
        p = e["path"][2:] if e["path"].startswith("./") else e["path"]
        if p in relevant:
            first = e["idx"]
            break
    last = max([e["idx"] for e in entries if "act" not in e] or [0])
    return first, last


def check_case(rn, case, nkill, nint, rng, replay_only=None, nfault=0):
    """returns number of violations reported"""
    ctx = rn.ctx
    dname = case.dict if case.dict is not None else case.patch
    rn.dict = case.files.get(case.links.get(dname, dname)) if dname is not None else None
    if not isinstance(rn.dict, bytes):
        rn.dict = None
    pr = prepare(rn, case)
    relevant = set(pr.probes)
    if dname is not None:
        relevant.discard(dname)     # reading the dictionary is not part of the protocol
    pr.relevant = relevant
    nviol = 0
    zcache = {}
    names = pr.names
    so = stdout_out(pr)
    stdin_src = "-" in names

    def report(kind, what, extra=None, no_input=False, key=None):
        nonlocal nviol
        nviol += 1
        rep = dict(kind=kind, case=case.to_json(), argv=case.argv(), model_ops=pr.ops)
        if extra:
            rep.update(extra)
        if not ctx.violation(rep, what="%s [%s: zstd %s]" % (what, case.name, " ".join(case.argv())), no_input=no_input, key=key):
            nviol -= 1          # a known finding: printed as KNOWN-FINDING, does not stop the run
            return False
        return True

    # ---- reference run
    r = rn.execute(case)
    real_ev = canon_real(r["entries"], relevant, case.links, stdin_src)
    real = read_dir(r["w"])
    status = r["status"]
    code = status[1] if status and status[0] == "EXIT" else None
    zbytes = {}
    if case.mode == "C":
        alld_ = [pr.dst.get(x) for x in names]
        for s in names:
            d = pr.dst.get(s)
            if d and isinstance(real.get(d), bytes) and alld_.count(d) == 1:
                zbytes[s] = real[d]         # (two sources into one name: which frame the file holds is not predicted)
    pr.zbytes = zbytes
    final_model = pr.st[-1]
    sig = ("trace", case.shape(), tuple(e.split(":")[0] for e in pr.events))
    ctx.count(sig, nontrivial=len(pr.events) > 1)
    ctx.cov["traces_validated_against_impl"] += 1
    ctx.sample(dict(argv=case.argv(), files={k: (DIR if v == DIR else len(v)) for k, v in case.files.items()}, links=case.links,
                    model_events=pr.events, real_events=real_ev, exit=code))
    mismatch = []
    if real_ev != pr.events:
        mismatch.append("file-operation sequence differs from fio_ops: real=%s model=%s" % (real_ev, pr.events))
    if code != pr.exit:
        mismatch.append("exit status %s, model says %s" % (status, pr.exit))
    # final state vs model
    for n, v in final_model.items():
        # (a file made of unpredicted compressed frames matches any bytes here: it is judged by decoding it below)
        if not node_matches(pr, zbytes, n, v, real.get(n)):
            mismatch.append("final state of %s: model %s, real %s" % (n, v[:40], show_dir({n: real.get(n)})[n] if real.get(n) is not None else "absent"))
    # ---- direct oracles on the completed run
    concrete = []
    concrete += oracle_safe(rn, pr, real, zcache)
    concrete += oracle_noclobber(pr, real, final=True)
    if not pr.wf:
        concrete += oracle_collision(rn, pr, real, zcache)
        concrete += oracle_unprocessed_input(rn, pr, real, zcache)
    srcs_ok = [s for s in names if s in pr.content]
    skipped = [s for s in names if case.mode == "C" and case.excl and s != "-" and
               os.path.splitext(s)[1] in (".zst", ".tzst", ".gz", ".tgz", ".lzma", ".xz", ".txz", ".lz4", ".tlz4") and os.path.basename(s) != os.path.splitext(s)[1]]
    sfile = dname is not None and [s for s in names if s != "-" and case.links.get(s, s) == case.links.get(dname, dname)] or []
    if case.mode == "C":
        # every destination that exists at the end must decode to its source(s)
        for s in srcs_ok:
            d = pr.dst.get(s)
            if pr.wf and d and isinstance(real.get(d), bytes) and final_model.get(d, "A")[0] == "C" and d not in case.files:
                if rn.lib_decode(real[d]) != pr.content[s]:
                    concrete.append("destination %s does not decode to source %s" % (d, s))
        if code == 0:
            for s in srcs_ok:
                d = pr.dst.get(s)
                if d and not isinstance(deref(real, d), bytes) and s not in skipped and d not in names:
                    concrete.append("exit status 0 but destination %s is missing" % d)     # (a destination that is also a source may be removed by --rm)
        if so or (case.out.startswith("o:") and len(names) > 1 and code == 0):
            blob = r["stdout"] if so else real.get(case.out[2:])
            want = b"".join(pr.content[s] for s in srcs_ok if s not in skipped and s not in sfile)
            if code == 0 and (not isinstance(blob, bytes) or (rn.lib_decode(blob) if blob else b"") != want):
                if not (want == b"" and not srcs_ok):
                    concrete.append("concatenated output does not decode to the concatenation of the sources")
    elif names:
        passthrough = case.force and so and case.mode == "D"
        all_ok = all(s in pr.content and pr.accept.get(s) for s in names)
        if case.mode == "D" and not so and not case.out.startswith("o:"):
            all_ok = all_ok and all(pr.dst.get(s) for s in names if s != "-")
        # "every input accepted => status 0" is only claimed when no destination rule can refuse the operation
        refused = False
        if case.mode == "D" and not so:
            dl = [pr.dst.get(s) for s in names]
            o = case.out[2:] if case.out.startswith("o:") else None
            refused = (not pr.wf or any(d in case.files or d in case.links for d in dl if d) or (o is not None and (o in case.files or o in case.links))
                       or (o is not None and len(names) > 1 and not (case.force or case.confirm))
                       or any(os.path.dirname(d) and case.files.get(os.path.dirname(d)) != DIR for d in dl if d))
        if not passthrough:
            if code == 0 and not all_ok:
                concrete.append("exit status 0 although the library rejects an input (or an input is missing)")
            if code != 0 and all_ok and not refused and pr.exit not in (31, 32, 33):
                concrete.append("exit status %s although the library accepts every input" % (status,))
        if case.mode == "D":
            for s in srcs_ok:
                d = pr.dst.get(s)
                if not d or d in names or [pr.dst.get(x) for x in names].count(d) > 1 or any(pr.dst.get(x) == s for x in names):
                    continue            # (two sources into one name: the last one wins; judged by oracle_collision;
                                        #  a source that is another source's destination: judged by oracle_unprocessed_input)
                got = real.get(d)
                pre = case.files.get(d)
                if pr.accept.get(s) and code == 0 and got != pr.decoded[s]:
                    concrete.append("destination %s differs from the library's decoding of %s" % (d, s))
                if not pr.accept.get(s) and got is not None and got != pre and len(names) == 1 and d not in case.links:
                    concrete.append("failed decompression of %s left an output file %s behind (%d bytes)" % (s, d, len(got) if isinstance(got, bytes) else -1))
            if so and not passthrough:
                want = b""
                for s in names:
                    if s in pr.content and pr.accept.get(s):
                        want += pr.decoded[s]
                    else:
                        break
                if not r["stdout"].startswith(want) or (code == 0 and r["stdout"] != want):
                    concrete.append("stdout differs from the library's decoding")
    if code is not None and code != 0 and len(names) == 1 and case.mode != "T" and not so:
        d = pr.dst.get(names[0])
        if d and d != names[0] and d not in case.links and real.get(d) is not None and real.get(d) != case.files.get(d):
            concrete.append("non-zero exit status but an output file %s from this run is left behind" % d)
    if dname is not None and names and not (case.dict is not None and case.patch is not None):
        dv = case.files.get(case.links.get(dname, dname))
        if not isinstance(dv, bytes):
            if code == 0:
                concrete.append("exit status 0 although the dictionary %s is missing / not a regular file" % dname)
            for n, v in case.files.items():
                if real.get(n) != v:
                    concrete.append("the dictionary %s is missing / not a regular file, yet %s was %s" % (dname, n, "removed" if real.get(n) is None else "modified"))
            for n in real:
                if n not in case.files and n not in case.links:
                    concrete.append("the dictionary %s is missing / not a regular file, yet %s was created" % (dname, n))
    if case.mode == "C" and code == 0 and not case.rec:
        for s in names:
            if s != "-" and s not in pr.content and s not in skipped:
                concrete.append("exit status 0 although the input %s is missing or not a regular file" % s)
    for w_ in concrete:
        report("oracle-final", w_, dict(real_events=real_ev, status=status),
               key=("C19-dangling-destination-link-artefact" if (DANGLING in w_ and code not in (0, None)) else
                    ("C19-destination-collision-rm-loses-source"
                     if case.out.startswith("O:") and len(set(os.path.basename(x) for x in names)) < len(names) else
                     "C19-destination-collision-default-names") if COLLISION in w_ else
                    "C19-output-replaces-unprocessed-input" if UNPROCESSED in w_ else
                    "C19-prompt-nul-byte-accepted-as-yes" if (NULANSWER(case) and "no -f was given" in w_) else None))
    rn.cleanup(r)
    if concrete:
        return nviol
    if mismatch:
        # SEARCH: the tie broke; look for a concrete failing kill point with the direct oracles (every k)
        first, last = fs_idx(r["entries"], relevant)
        found = False
        for k in (range(first, last + 2) if first is not None else []):
            kr = rn.execute(case, k=k, action="kill")
            kreal = read_dir(kr["w"])
            bad = oracle_safe(rn, pr, kreal, zcache) + oracle_noclobber(pr, kreal)
            rn.cleanup(kr)
            if bad:
                report("kill", "killed at system call #%d: %s (the run's file-operation sequence also differs from fio_ops: real=%s model=%s)" %
                       (k, bad[0], real_ev, pr.events), dict(k=k, dir=show_dir(kreal)))
                found = True
                break
        if not found:
            report("tie-trace", "; ".join(mismatch)[:1500], dict(real_events=real_ev, status=status), no_input=True)
        return nviol

    # ---- injected I/O faults
    if nfault:
        if check_faults(rn, pr, r["entries"], nfault, rng, report, zcache):
            return nviol

    # ---- kill points
    first, last = fs_idx(r["entries"], relevant)
    if first is None:
        return nviol
    ks = list(range(first, last + 1))
    if nkill is not None and len(ks) > nkill:
        keep = set(rng.sample(ks, nkill))
        # always keep the calls around unlink / close / creat: the interesting boundaries
        for e in r["entries"]:
            if "act" not in e and SYS.get(e["nr"]) in ("unlink", "unlinkat") and e["idx"] >= first:
                keep.update({e["idx"], min(last, e["idx"] + 1)})
        ks = sorted(keep)
    for k in ks:
        kr = rn.execute(case, k=k, action="kill")
        kreal = read_dir(kr["w"])
        acted = any("act" in e for e in kr["entries"])
        nv = visible_done(kr["entries"], k, False, relevant, case.links, stdin_src) if acted else (len(pr.events), len(pr.events))
        j = state_in(pr, zbytes, kreal, pr.st, nv)
        bad = oracle_safe(rn, pr, kreal, zcache) + oracle_noclobber(pr, kreal)
        ctx.count(("kill", case.shape(), j), nontrivial=True)
        for w_ in bad:
            report("kill", "killed at system call #%d: %s" % (k, w_),
                   dict(k=k, dir=show_dir(kreal)))
        if j < 0 and not bad:
            report("tie-kill", "directory after kill at system call #%d (%s file operations completed) is not the state of fio_ops after that many operations: %s" %
                   (k, nv, show_dir(kreal)), dict(k=k), no_input=True)
            rn.cleanup(kr)
            return nviol
        rn.cleanup(kr)
        if bad:
            return nviol

    # ---- SIGINT points (finer grid: also reads / stats / sigaction)
    if nint:
        wr = rn.execute(case, wide=True)
        wfirst, wlast = fs_idx(wr["entries"], relevant)
        rn.cleanup(wr)
        if wfirst is not None:
            ks = list(range(wfirst, wlast + 1))
            if len(ks) > nint:
                ks = sorted(rng.sample(ks, nint))
            for k in ks:
                kr = rn.execute(case, k=k, action="int", wide=True)
                kreal = read_dir(kr["w"])
                acted = any("act" in e for e in kr["entries"])
                main_tid = next((e["tid"] for e in kr["entries"] if "act" not in e), None)
                at = next((e for e in kr["entries"] if "act" not in e and e["idx"] == k), None)
                on_main = at is None or at["tid"] == main_tid
                if acted:
                    # the handler's own calls come after the ACT mark: count only what the run did up to call #k
                    nv = visible_done(kr["entries"], k, True, relevant, case.links, stdin_src)
                else:
                    nv = (len(pr.events), len(pr.events))
                # the model's handler is an atomic step of the main thread: the state tie applies when the signal
                # lands there (on an I/O pool thread the main thread keeps running while the handler executes)
                j = state_in(pr, zbytes, kreal, pr.si, nv) if on_main else 0
                bad = oracle_safe(rn, pr, kreal, zcache) + oracle_noclobber(pr, kreal)
                st = kr["status"]
                handled = st == ("EXIT", 2)
                ctx.count(("sigint", case.shape(), j, handled), nontrivial=True)
                for w_ in bad:
                    report("sigint", "SIGINT at system call #%d (wide grid): %s" % (k, w_), dict(k=k),
                           key="C19-dangling-destination-link-artefact" if (DANGLING in w_ and handled) else None)
                if j < 0 and not bad:
                    report("tie-sigint", "directory after SIGINT at system call #%d of the wide grid (%s file operations completed) is not a state of sigint_ops after that many operations: %s" %
                           (k, nv, show_dir(kreal)), dict(k=k), no_input=True)
                    rn.cleanup(kr)
                    return nviol
                rn.cleanup(kr)
                if bad:
                    return nviol
    return nviol


# ----------------------------------------------------------------------------- injected I/O faults

def NULANSWER(case):
    """the answer typed at the prompt starts with a NUL byte (stdin is not a source)"""
    return case.stdin is not None and case.stdin[:1] == b"\0" and "-" not in case.srcs and not case.quiet


DANGLING = " (dangling destination link: the failed run removed the link and left the partial output under the link's target name)"
WRITE_CODES = (70, 91, 92, 93, 95, 69)      # EXM_THROW codes of the write pool (plain write, 1 GB skip, sparse skip / write, last zero)
ERRNOS = {"open": (13, 5, 24), "creat": (28, 13, 5), "wfail": (28, 5, 122), "close": (5, 28, 122), "close_src": (5,),
          "ovw_unlink": (13, 5), "art_unlink": (13, 5), "rm": (13, 5, 30), "ignored": (1, 28)}
MATTERS = ("open", "creat", "wfail", "close", "rm")     # a failure at these sites must end in a non-zero exit status


def fault_sites(pr, entries):
    """classify the system calls of the reference run by the model's fault sites:
    list of dict(k, nr, path, site, key = whose verdict carries the fault, src = the source being processed)"""
    case, names = pr.case, pr.names
    own = {d: s for s, d in pr.dst.items() if d}
    shared = case.out[2:] if case.out.startswith("o:") and len(names) > 1 else None
    if case.out.startswith("o:") and len(names) == 1:
        own[case.out[2:]] = names[0]
    so = stdout_out(pr)
    dname = case.dict if case.dict is not None else case.patch
    fd = {}
    if "-" in names:
        fd[0] = ("-", "r", "-")
    cur = "-" if names == ["-"] else None
    created = set()
    sites = []
    ents = [e for e in entries if "act" not in e]
    first, _last = fs_idx(entries, pr.relevant | ({dname} if dname else set()))
    if first is None:
        first = min([e["idx"] for e in ents if e["a"][0] in (0, 1) and SYS.get(e["nr"]) in ("write", "close")] or [10 ** 9])
    for j, e in enumerate(ents):
        name = SYS.get(e["nr"], str(e["nr"]))
        p = e["path"][2:] if e["path"].startswith("./") else e["path"]
        nxt = ents[j + 1] if j + 1 < len(ents) else None
        site = key = None
        if name in ("openat", "open", "creat"):
            flags = e["a"][2] if name == "openat" else (e["a"][1] if name == "open" else O_CREAT | O_TRUNC | O_WRONLY)
            if flags & (O_CREAT | O_TRUNC | O_WRONLY | O_RDWR):
                if p in own or p == shared:
                    key = own.get(p, p)
                    site = "creat"
                    created.add(p)
                    if e["ret"] is not None and e["ret"] >= 0:
                        fd[e["ret"]] = (p, "c", key)
            elif p in names:
                site, key, cur = "open", p, p
                created = set()
                if e["ret"] is not None and e["ret"] >= 0:
                    fd[e["ret"]] = (p, "r", p)
            elif dname is not None and p == dname:
                site, key = "open", p
        elif name == "close":
            x = fd.pop(e["a"][0], None)
            if x:
                site, key = ("close", x[2]) if x[1] == "c" else ("close_src", x[0])
            elif e["a"][0] == 1 and case.mode != "T" and (so or "-" in names):
                site, key = "close", (cur if (len(names) == 1 or not so) else "<stdout>")
        elif name in ("write", "pwrite64", "writev", "lseek"):
            x = fd.get(e["a"][0])
            is_out = (x is not None and x[1] == "c") or (e["a"][0] == 1 and case.mode != "T" and (so or "-" in names))
            if is_out:
                flush_in_close = (name != "lseek" and nxt is not None and SYS.get(nxt["nr"]) == "close" and nxt["a"][0] == e["a"][0]
                                  and nxt["tid"] == e["tid"])
                if flush_in_close:
                    site = "close"
                    key = x[2] if x is not None else (cur if (len(names) == 1 or not so) else "<stdout>")
                else:
                    site, key = "wfail", (x[2] if (x is not None and x[2] in names) else cur)
        elif name in ("unlink", "unlinkat"):
            if p in own or p == shared:
                site, key = ("art_unlink" if p in created else "ovw_unlink"), own.get(p, p)
            elif p in names:
                site, key = "rm", p
        elif name in ("fchmod", "fchown"):
            if e["a"][0] in fd:
                site, key = "ignored", None
        elif name == "utimensat":
            if p in own:
                site, key = "ignored", None
        if site is not None and e["idx"] >= first and (key is not None or site == "ignored"):
            sites.append(dict(k=e["idx"], nr=e["nr"], path=p, fd=e["a"][0], site=site, key=key, src=cur))
    return sites


def check_faults(rn, pr, entries, nfault, rng, report, zcache):
    """every chosen system call of the run fails once (ptrace: the call is skipped and returns -errno):
    direct oracles (no source lost, nothing clobbered, non-zero status, no partial destination left) and the
    model's prediction of trace, exit status and final directory under the same fault"""
    ctx, case = rn.ctx, pr.case
    sites = fault_sites(pr, entries)
    if nfault < len(sites):
        keep = set(rng.sample(range(len(sites)), nfault))
        # one of each kind at least
        seen = set()
        for j, x in enumerate(sites):
            if x["site"] not in seen:
                seen.add(x["site"])
                keep.add(j)
        sites = [x for j, x in enumerate(sites) if j in keep]
    nviol = 0
    thorough = ctx.tier == "thorough"
    for x in sites:
        errs = ERRNOS[x["site"]]
        plans = [("fail", E) for E in (errs if thorough else (errs[rng.randrange(len(errs))],))]
        if thorough and x["site"] == "wfail":
            plans.append(("failp", 28))
        for mode, E in plans:
            kr = rn.execute(case, k=x["k"], action="%s:%d" % (mode, E))
            at = next((e for e in kr["entries"] if "act" not in e and e["idx"] == x["k"]), None)
            injected = any(e.get("act") == "fail" for e in kr["entries"])
            atp = None if at is None else (at["path"][2:] if at["path"].startswith("./") else at["path"])
            if at is None or not injected or at["nr"] != x["nr"] or (atp != x["path"] if x["path"] != "-" else at["a"][0] != x["fd"]):
                ctx.notes["fault_points_skipped"] = ctx.notes.get("fault_points_skipped", 0) + 1
                if os.environ.get("C19_DEBUG"):
                    core.log("skipped fault point", case.name, x, "at", at, "injected", injected)
                rn.cleanup(kr)
                continue
            kreal = read_dir(kr["w"])
            st = kr["status"]
            code = st[1] if st and st[0] == "EXIT" else None
            faults = {}
            if x["site"] != "ignored":
                faults[x["key"]] = {x["site"]: (0 if x["site"] == "wfail" else 1)}
            if x["site"] == "close_src" and case.mode == "C":
                pass
            mops, mst, msi, mexit = ask_model(rn, pr, faults)
            mev = canon_model(mops)
            rev = canon_real(kr["entries"], pr.relevant, case.links, "-" in pr.names)
            ctx.count(("fault", case.shape(), x["site"], tuple(e.split(":")[0] for e in mev)), nontrivial=True)
            ctx.cov["traces_validated_against_impl"] += 1
            what = "%s of %s failing with errno %d at system call #%d%s" % (
                SYS.get(x["nr"]), x["path"] if x["path"] != "-" else "fd %d" % x["fd"], E, x["k"], " and from then on" if mode == "failp" else "")
            bad = []
            keyed = None
            # direct oracles
            bad += oracle_safe(rn, pr, kreal, zcache)
            bad += [b for b in oracle_noclobber(pr, kreal) if not (x["site"] == "creat" and (case.force or case.confirm))]
            if x["site"] in MATTERS and code == 0:
                bad.append("exit status 0 although the call failed")
            if code is None:
                bad.append("the tool was killed by a signal: %s" % (st,))
            if code not in (0, None) and x["site"] != "art_unlink" and x["key"] in pr.dst and x["site"] != "ignored":
                d = pr.dst.get(x["key"])
                if d and d not in case.files and d not in case.links and isinstance(kreal.get(d), bytes):
                    got = kreal[d]
                    if case.mode == "C":
                        h = hashlib.sha1(got).hexdigest()
                        if h not in zcache:
                            zcache[h] = rn.lib_decode(got)
                        complete = zcache[h] == pr.content.get(x["key"])
                    else:
                        complete = bool(pr.accept.get(x["key"])) and got == pr.decoded.get(x["key"])
                    if not complete:
                        bad.append("exit status %d and the partial destination %s (%d bytes) is left behind" % (code, d, len(got)))
                        if x["site"] == "wfail":
                            keyed = "C19-write-error-leaves-partial-destination"
            for b in bad:
                kk = "C19-dangling-destination-link-artefact" if (DANGLING in b and code not in (0, None)) else keyed
                if report("fault", "%s: %s" % (what, b), dict(k=x["k"], errno=E, site=x["site"], dir=show_dir(kreal), status=st), key=kk):
                    nviol += 1
            if not bad:
                # the model's prediction under the same fault
                tie = []
                if x["site"] == "wfail":
                    if not (mexit == 70 and code in WRITE_CODES):
                        tie.append("exit status %s, model says %s (write error)" % (st, mexit))
                elif code != mexit:
                    tie.append("exit status %s, model says %s" % (st, mexit))
                if x["site"] == "wfail":     # the model has one code for the write pool's EXM_THROWs
                    rev = [("exit:70" if (e.startswith("exit:") and int(e[5:]) in WRITE_CODES) else e) for e in rev]
                if rev != mev:
                    tie.append("file-operation sequence differs from fio_ops under the fault: real=%s model=%s" % (rev, mev))
                for n, v in mst[-1].items():
                    if not node_matches(pr, pr.zbytes, n, v, kreal.get(n), cut=(x["site"] == "close")):
                        tie.append("final state of %s: model %s, real %s" % (n, v[:40], show_dir({n: kreal.get(n)})[n] if kreal.get(n) is not None else "absent"))
                if tie:
                    if report("tie-fault", "%s (model fault site %s of %s): %s" % (what, x["site"], x["key"], "; ".join(tie)[:1200]),
                              dict(k=x["k"], errno=E, site=x["site"], real_events=rev, model_events=mev, status=st), no_input=True):
                        nviol += 1
            rn.cleanup(kr)
            if nviol:
                return nviol
    return nviol


# ----------------------------------------------------------------------------- case generators

def text(rng, n):
    words = [b"alpha", b"beta", b"gamma", b"delta", b"zstd", b"frame", b"block", b"\n", b" ", b"0123456789"]
    out = bytearray()
    while len(out) < n:
        out += rng.choice(words)
        if rng.random() < 0.1:
            out += bytes(rng.randrange(256) for _ in range(rng.randrange(1, 9)))
    return bytes(out[:n])


class Gen:
    def __init__(self, rn, rng):
        self.rn, self.rng = rn, rng
        self.n = 0

    def z(self, data, level=3, checksum=1):
        base = os.path.join(self.rn.ctx.scratch, "gen")
        os.makedirs(base, exist_ok=True)
        a, b = os.path.join(base, "i"), os.path.join(base, "o")
        with open(a, "wb") as f:
            f.write(data)
        rc, out, err = core.sh([self.rn.t.lib, "compress", a, b, str(level), str(checksum)], timeout=120)
        if rc != 0:
            raise RuntimeError("c19_lib compress failed " + err)
        return open(b, "rb").read()

    def zcli(self, args, files, outname):
        """run the real CLI (unsupervised) to manufacture an input"""
        base = os.path.join(self.rn.ctx.scratch, "gencli")
        shutil.rmtree(base, ignore_errors=True)
        os.makedirs(base)
        for n, v in files.items():
            with open(os.path.join(base, n), "wb") as f:
                f.write(v)
        rc, out, err = core.sh([self.rn.t.zstd, "-q"] + args, cwd=base, timeout=120)
        if rc != 0:
            raise RuntimeError("zstd %s failed: %s" % (args, err))
        return open(os.path.join(base, outname), "rb").read()

    def zdict(self, data, dic):
        return self.zcli(["-D", "dict", "in", "-o", "out"], {"in": data, "dict": dic}, "out")

    def zpatch(self, new, old):
        return self.zcli(["--patch-from=old", "new", "-o", "out"], {"new": new, "old": old}, "out")

    def skippable(self, n):
        return (0x184D2A50 + self.rng.randrange(16)).to_bytes(4, "little") + n.to_bytes(4, "little") + bytes(self.rng.randrange(256) for _ in range(n))

    def zfile(self, kind, size=None):
        """a .zst source of a given kind -> bytes"""
        rng = self.rng
        size = size if size is not None else rng.choice([0, 1, 37, 1000, 5000, 70000])
        good = self.z(text(rng, size))
        if kind == "good":
            return good
        if kind == "multi":
            return good + self.skippable(rng.randrange(0, 20)) + self.z(text(rng, rng.randrange(0, 3000)), checksum=0)
        if kind == "corrupt":
            g = bytearray(self.z(text(rng, max(size, 200))))
            i = rng.randrange(len(g) // 2, len(g))
            g[i] ^= 1 << rng.randrange(8)
            return bytes(g)
        if kind == "trunc":
            g = self.z(text(rng, max(size, 200)))
            return g[:rng.randrange(5, len(g) - 1)]
        if kind == "junk-short":
            return good + bytes(rng.randrange(1, 256) for _ in range(rng.randrange(1, 4)))
        if kind == "junk-long":
            return good + b"trailing garbage " + bytes(rng.randrange(256) for _ in range(rng.randrange(0, 30)))
        if kind == "empty":
            return b""
        if kind == "notzstd":
            return b"plain text, no frame here " * rng.randrange(1, 4)
        if kind == "skip-only":
            return self.skippable(rng.randrange(0, 40)) + self.skippable(0)
        if kind == "skip-first":
            return self.skippable(rng.randrange(0, 40)) + good
        if kind == "good-then-trunc":
            g = self.z(text(rng, 3000))
            return good + g[:len(g) - rng.randrange(1, 9)]
        if kind == "good-then-corrupt":
            g = bytearray(self.z(text(rng, 3000)))
            g[len(g) - 2] ^= 0x10
            return good + bytes(g)
        raise ValueError(kind)


def corpus(g):
    """boundary cases first (each mechanism of the property at least once)"""
    rng = g.rng
    A = text(rng, 5000)
    B = text(rng, 700)
    OLD = b"previous content of the destination\n"
    ZA = g.zfile("good", 5000)
    cs = []
    C = Case
    cs.append(C("c-rm", "C", ["a"], rm=True, files={"a": A}))
    cs.append(C("c-exists-refused", "C", ["a"], rm=True, files={"a": A, "a.zst": OLD}))
    cs.append(C("c-exists-force-rm", "C", ["a"], force=True, rm=True, files={"a": A, "a.zst": OLD}))
    cs.append(C("c-concat-refused", "C", ["a", "b"], out="o:out", rm=True, files={"a": A, "b": B}))
    cs.append(C("c-concat-force", "C", ["a", "b"], out="o:out", force=True, rm=True, files={"a": A, "b": B, "out": OLD}))
    cs.append(C("c-stdout-rm", "C", ["a", "b"], out="c", rm=True, files={"a": A, "b": B}))
    cs.append(C("c-missing-dir", "C", ["a", "nope", "d"], rm=True, files={"a": A, "d": DIR}))
    cs.append(C("c-same-file", "C", ["a"], out="o:a", force=True, rm=True, files={"a": A}))
    cs.append(C("c-prompt-yes", "C", ["a"], quiet=False, answer="y", files={"a": A, "a.zst": OLD}))
    cs.append(C("c-prompt-no", "C", ["a"], quiet=False, answer="n", rm=True, files={"a": A, "a.zst": OLD}))
    cs.append(C("c-o-rm", "C", ["a"], out="o:b.zst", rm=True, files={"a": A}))
    cs.append(C("c-empty", "C", ["e"], rm=True, files={"e": b""}))
    cs.append(C("d-rm", "D", ["a.zst"], rm=True, files={"a.zst": ZA}))
    cs.append(C("d-corrupt-rm", "D", ["a.zst"], rm=True, files={"a.zst": g.zfile("corrupt", 5000)}))
    cs.append(C("d-trunc-rm", "D", ["a.zst"], rm=True, files={"a.zst": g.zfile("trunc", 5000)}))
    cs.append(C("d-multi", "D", ["a.zst"], rm=True, files={"a.zst": g.zfile("multi", 2000)}))
    cs.append(C("d-junk-short", "D", ["a.zst"], rm=True, files={"a.zst": g.zfile("junk-short", 100)}))
    cs.append(C("d-junk-long", "D", ["a.zst"], rm=True, files={"a.zst": g.zfile("junk-long", 100)}))
    cs.append(C("d-empty-input", "D", ["a.zst"], rm=True, files={"a.zst": b""}))
    cs.append(C("d-stdout-mixed", "D", ["a.zst", "b.zst"], out="c", rm=True,
                files={"a.zst": ZA, "b.zst": g.zfile("good-then-corrupt")}))
    cs.append(C("d-passthrough", "D", ["p.zst"], out="c", force=True, files={"p.zst": g.zfile("notzstd")}))
    cs.append(C("d-exists-refused", "D", ["a.zst"], rm=True, files={"a.zst": ZA, "a": OLD}))
    cs.append(C("d-exists-force", "D", ["a.zst"], force=True, rm=True, files={"a.zst": ZA, "a": OLD}))
    cs.append(C("d-suffixes", "D", ["x.tzst", "noext", "y.zstd", ".zst"], rm=True,
                files={"x.tzst": ZA, "noext": ZA, "y.zstd": g.zfile("good", 10), ".zst": ZA}))
    cs.append(C("d-concat-force", "D", ["a.zst", "b.zst"], out="o:out", force=True, rm=True,
                files={"a.zst": ZA, "b.zst": g.zfile("good", 300)}))
    cs.append(C("d-concat-refused", "D", ["a.zst", "b.zst"], out="o:out", rm=True,
                files={"a.zst": ZA, "b.zst": g.zfile("good", 300), "out": OLD}))
    cs.append(C("d-same-file", "D", ["a.zst"], out="o:a.zst", force=True, rm=True, files={"a.zst": ZA}))
    cs.append(C("d-two-one-bad", "D", ["a.zst", "b.zst", "c.zst"], rm=True,
                files={"a.zst": ZA, "b.zst": g.zfile("corrupt", 800), "c.zst": g.zfile("good", 90)}))
    cs.append(C("t-rm", "T", ["a.zst"], rm=True, files={"a.zst": ZA}))
    cs.append(C("t-mixed", "T", ["a.zst", "b.zst"], rm=True, files={"a.zst": ZA, "b.zst": g.zfile("trunc", 400)}))
    return cs


def corpus2(g, quick):
    """the widened grammar (stdin / stdout, -O, -r, --exclude-compressed, --rm / -k, -D, --patch-from, symbolic links),
    the fault catalogue (every call of these runs fails once) and decompression of multi-frame inputs under every flag set"""
    rng = g.rng
    A = text(rng, 5000)
    B = text(rng, 700)
    Cc = text(rng, 90)
    OLD = b"previous content of the destination\n"
    ZA = g.zfile("good", 5000)
    ZB = g.zfile("good", 300)
    cs = []
    C = Case

    def add(case, nk=4, ni=1, nfault=0):
        case.nk, case.ni, case.nfault = nk, ni, nfault
        cs.append(case)
        return case

    # ---- fault catalogue: every file-system call of these runs fails once
    F = 10 ** 6
    add(C("f-c-rm", "C", ["a"], rm=True, files={"a": A}), nfault=F)
    add(C("f-c-force-exists-rm", "C", ["a"], force=True, rm=True, files={"a": A, "a.zst": OLD}), nfault=F)
    add(C("f-d-rm", "D", ["a.zst"], rm=True, files={"a.zst": ZA}), nfault=F)
    add(C("f-d-force-exists-rm", "D", ["a.zst"], force=True, rm=True, files={"a.zst": ZA, "a": OLD}), nfault=F)
    add(C("f-c-o-rm", "C", ["a"], out="o:x.zst", rm=True, files={"a": A}), nfault=F)
    add(C("f-d-multiframe-rm", "D", ["m.zst"], rm=True, files={"m.zst": g.zfile("multi", 6000)}), nfault=F)
    add(C("f-d-corrupt-rm", "D", ["a.zst"], rm=True, files={"a.zst": g.zfile("corrupt", 5000)}), nfault=F)
    add(C("f-c-concat", "C", ["a", "b"], out="o:out", force=True, rm=True, files={"a": A, "b": B}), nfault=F)
    add(C("f-d-concat", "D", ["a.zst", "b.zst"], out="o:out", force=True, files={"a.zst": ZA, "b.zst": ZB, "out": OLD}), nfault=F)
    add(C("f-c-stdout", "C", ["a"], out="c", files={"a": A}), nfault=F)
    add(C("f-d-stdout-two", "D", ["a.zst", "b.zst"], out="c", rm=True, files={"a.zst": ZA, "b.zst": ZB}), nfault=F)
    add(C("f-c-three-rm", "C", ["a", "b", "c"], rm=True, files={"a": A, "b": B, "c": Cc}), nfault=F)
    add(C("f-d-two-one-bad-rm", "D", ["a.zst", "b.zst", "c.zst"], rm=True,
          files={"a.zst": ZA, "b.zst": g.zfile("trunc", 800), "c.zst": ZB}), nfault=F)
    add(C("f-c-stdin-o", "C", ["-"], out="o:x.zst", stdin=A), nfault=F)
    add(C("f-c-outdir-rm", "C", ["d/a", "b"], out="O:out", rm=True, files={"d": DIR, "d/a": A, "b": B, "out": DIR}), nfault=F)
    dic = text(rng, 3000)
    add(C("f-c-dict-rm", "C", ["a"], rm=True, dictf="dict", files={"a": A, "dict": dic}), nfault=F)
    add(C("f-t-two", "T", ["a.zst", "b.zst"], rm=True, files={"a.zst": ZA, "b.zst": ZB}), nfault=F)

    # ---- stdin / stdout
    add(C("io-c-stdin-stdout", "C", [], stdin=A))
    add(C("io-c-dash-force", "C", ["-"], force=True, stdin=A))
    add(C("io-c-dash-c-rm", "C", ["-"], out="c", rm=True, stdin=B))
    add(C("io-d-stdin-stdout", "D", ["-"], stdin=ZA))
    add(C("io-d-stdin-o", "D", ["-"], out="o:x", rm=True, stdin=ZA))
    add(C("io-d-stdin-o-exists", "D", ["-"], out="o:x", stdin=ZA, files={"x": OLD}))
    add(C("io-d-stdin-passthrough", "D", ["-"], out="c", force=True, stdin=b"not a frame at all\n"))
    add(C("io-d-stdin-junk", "D", ["-"], out="c", stdin=b"not a frame at all\n"))
    add(C("io-c-stdin-and-file-rm", "C", ["-", "a"], rm=True, stdin=B, files={"a": A}))
    add(C("io-d-file-and-stdin-rm", "D", ["a.zst", "-"], rm=True, stdin=ZB, files={"a.zst": ZA}))
    add(C("io-c-stdin-empty", "C", ["-"], stdin=b""))
    add(C("io-d-stdin-empty", "D", ["-"], stdin=b""))
    add(C("io-d-c-force-rm", "D", ["a.zst", "p.bin"], out="c", force=True, rm=True, files={"a.zst": ZA, "p.bin": b"plain bytes\n"}))
    # ---- output directory (flat)
    add(C("od-c", "C", ["a", "d/b"], out="O:out", files={"a": A, "d": DIR, "d/b": B, "out": DIR}))
    add(C("od-c-missing-dir", "C", ["a"], out="O:nodir", rm=True, files={"a": A}))
    add(C("od-c-collision", "C", ["d1/a", "d2/a"], out="O:out", rm=True, files={"d1": DIR, "d2": DIR, "d1/a": A, "d2/a": B, "out": DIR}))
    add(C("od-c-collision-force", "C", ["d1/a", "d2/a"], out="O:out", force=True, files={"d1": DIR, "d2": DIR, "d1/a": A, "d2/a": B, "out": DIR}))
    # two sources of one run into one destination name, -f --rm (finding C19-destination-collision-rm-loses-source)
    add(C("col-c-flat-force-rm", "C", ["d1/a", "d2/a"], out="O:out", force=True, rm=True,
          files={"d1": DIR, "d2": DIR, "d1/a": A, "d2/a": B, "out": DIR}))
    add(C("col-d-flat-force-rm", "D", ["d1/a.zst", "d2/a.zst"], out="O:out", force=True, rm=True,
          files={"d1": DIR, "d2": DIR, "d1/a.zst": ZA, "d2/a.zst": ZB, "out": DIR}), nk=2, ni=0)
    add(C("col-d-zst-zstd-force-rm", "D", ["a.zst", "a.zstd"], force=True, rm=True, files={"a.zst": ZA, "a.zstd": ZB}), nk=2, ni=0)
    add(C("col-d-tzst-tarzst-force-rm", "D", ["a.tzst", "a.tar.zst"], force=True, rm=True, files={"a.tzst": ZA, "a.tar.zst": ZB}), nk=2, ni=0)
    add(C("unp-c-force-rm", "C", ["a", "a.zst"], force=True, rm=True, files={"a": A, "a.zst": OLD}), nk=2, ni=0)
    add(C("unp-c-force-rm-reversed", "C", ["a.zst", "a"], force=True, rm=True, files={"a": A, "a.zst": OLD}), nk=2, ni=0)
    add(C("unp-d-force-rm", "D", ["a.zst.zst", "a.zst"], force=True, rm=True, files={"a.zst.zst": g.z(ZA), "a.zst": ZB}), nk=2, ni=0)
    add(C("col-d-zst-zstd-rm", "D", ["a.zst", "a.zstd"], rm=True, files={"a.zst": ZA, "a.zstd": ZB}), nk=2, ni=0)
    add(C("col-d-flat-zst-zstd-force-rm", "D", ["d1/a.zst", "d2/a.zstd"], out="O:out", force=True, rm=True,
          files={"d1": DIR, "d2": DIR, "d1/a.zst": ZA, "d2/a.zstd": ZB, "out": DIR}), nk=2, ni=0)
    add(C("col-c-flat-three-force-rm", "C", ["d1/a", "b", "d2/a"], out="O:out/", force=True, rm=True,
          files={"d1": DIR, "d2": DIR, "d1/a": A, "d2/a": B, "b": Cc, "out": DIR}), nk=2, ni=0)
    add(C("col-c-flat-nocollision-rm", "C", ["d1/a", "d2/ab"], out="O:out", force=True, rm=True,
          files={"d1": DIR, "d2": DIR, "d1/a": A, "d2/ab": B, "out": DIR}), nk=2, ni=0)
    add(C("col-c-r-flat-force-rm", "C", ["t"], rec=True, out="O:out", force=True, rm=True,
          files={"t": DIR, "t/x": DIR, "t/y": DIR, "t/x/f": A, "t/y/f": B, "out": DIR}), nk=2, ni=0)
    add(C("od-d-rm", "D", ["d/a.zst", "b.tzst"], out="O:out/", rm=True, files={"d": DIR, "d/a.zst": ZA, "b.tzst": ZB, "out": DIR}))
    add(C("od-d-exists", "D", ["a.zst"], out="O:out", rm=True, files={"a.zst": ZA, "out": DIR, "out/a": OLD}))
    add(C("od-is-file", "C", ["a"], out="O:out", rm=True, files={"a": A, "out": OLD}))
    # ---- -r
    tree = {"t": DIR, "t/a": A, "t/sub": DIR, "t/sub/b": B, "t/sub/deep": DIR, "t/sub/deep/c.zst": ZB, "t/empty": DIR}
    add(C("r-c", "C", ["t"], rec=True, files=tree))
    add(C("r-c-rm", "C", ["t", "x"], rec=True, rm=True, files=dict(tree, x=Cc)))
    add(C("r-c-excl-rm", "C", ["t"], rec=True, rm=True, excl=True, files=tree))
    add(C("r-c-links", "C", ["t"], rec=True, rm=True, files=tree, links={"t/l": "t/a", "t/sub/ld": "t/sub/deep"}))
    add(C("r-c-links-force", "C", ["t"], rec=True, force=True, files={"t": DIR, "t/a": A, "other": B}, links={"t/l": "other"}))
    add(C("r-d-rm", "D", ["t"], rec=True, rm=True, files={"t": DIR, "t/a.zst": ZA, "t/sub": DIR, "t/sub/b.zst": ZB, "t/sub/n.txt": Cc}))
    add(C("r-empty-dir", "C", ["e"], rec=True, rm=True, files={"e": DIR}))
    add(C("r-c-outdir", "C", ["t"], rec=True, out="O:out", files=dict(tree, out=DIR)))
    add(C("dir-without-r", "C", ["t", "x"], rm=True, files=dict(tree, x=Cc)))
    # ---- --exclude-compressed
    add(C("x-c-rm", "C", ["a", "b.zst", "c.gz", "d.txt", ".zst"], excl=True, rm=True,
          files={"a": A, "b.zst": ZB, "c.gz": Cc, "d.txt": B, ".zst": Cc}))
    add(C("x-missing", "C", ["nope.zst", "a"], excl=True, files={"a": A}))
    add(C("x-concat", "C", ["a", "b.zst"], excl=True, out="o:out", force=True, files={"a": A, "b.zst": ZB}))
    # ---- --rm / --keep
    add(C("k-rm-k", "C", ["a"], rmk=["r", "k"], files={"a": A}))
    add(C("k-k-rm", "C", ["a"], rmk=["k", "r"], files={"a": A}))
    add(C("k-rm-o", "C", ["a"], rmk=["k", "r"], out="o:x.zst", files={"a": A}))
    add(C("k-rm-k-o-d", "D", ["a.zst"], rmk=["r", "k"], out="o:x", files={"a.zst": ZA}))
    add(C("k-rm-o-two", "D", ["a.zst", "b.zst"], rmk=["r"], out="o:x", force=True, files={"a.zst": ZA, "b.zst": ZB}))
    # ---- -D
    add(C("m-c-mid-missing", "C", ["a", "nope", "b"], rm=True, files={"a": A, "b": B}))
    add(C("m-c-mid-dir-O", "C", ["a", "dd", "b"], rm=True, out="O:out", files={"a": A, "b": B, "dd": DIR, "out": DIR}))
    add(C("m-d-mid-exists", "D", ["a.zst", "b.zst", "c.zst"], rm=True, files={"a.zst": ZA, "b.zst": ZB, "c.zst": ZB, "b": OLD}))
    add(C("D-c-rm", "C", ["a", "b"], rm=True, dictf="dict", files={"a": A, "b": B, "dict": dic}))
    add(C("D-missing", "C", ["a"], rm=True, force=True, dictf="nodict", files={"a": A, "a.zst": OLD}))
    add(C("D-missing-d", "D", ["a.zst"], rm=True, force=True, dictf="nodict", files={"a.zst": ZA, "a": OLD}))
    add(C("D-is-dir", "C", ["a", "b"], rm=True, out="o:out", force=True, dictf="dd", files={"a": A, "b": B, "dd": DIR, "out": OLD}))
    add(C("D-is-source", "C", ["dict", "a"], rm=True, dictf="dict", files={"a": A, "dict": dic}))
    add(C("D-is-source-link", "C", ["l", "a"], rm=True, force=True, dictf="dict", files={"a": A, "dict": dic}, links={"l": "dict"}))
    zd = g.zdict(A, dic)
    add(C("D-d-rm", "D", ["a.zst"], rm=True, dictf="dict", files={"a.zst": zd, "dict": dic}))
    add(C("D-d-wrong", "D", ["a.zst"], rm=True, dictf="dict", files={"a.zst": zd, "dict": text(rng, 3000)}))
    add(C("D-dangling-link", "C", ["a"], rm=True, dictf="dl", files={"a": A}, links={"dl": "gone"}))
    # ---- --patch-from
    NEWV = A[:2000] + text(rng, 300) + A[2000:]
    add(C("P-c", "C", ["new"], patch="old", out="o:patch", rm=True, files={"old": A, "new": NEWV}))
    add(C("P-c-missing-ref", "C", ["new"], patch="nope", out="o:patch", force=True, rm=True, files={"new": NEWV, "patch": OLD}))
    add(C("P-c-two", "C", ["new", "b"], patch="old", rm=True, files={"old": A, "new": NEWV, "b": B}))
    add(C("P-and-D", "C", ["new"], patch="old", dictf="dict", rm=True, files={"old": A, "new": NEWV, "dict": dic}))
    add(C("P-ref-is-source", "C", ["old"], patch="old", rm=True, files={"old": A}))
    zp = g.zpatch(NEWV, A)
    add(C("P-d", "D", ["patch.zst"], patch="old", out="o:new", rm=True, files={"old": A, "patch.zst": zp}))
    add(C("P-d-wrong-ref", "D", ["patch.zst"], patch="old", out="o:new", rm=True, files={"old": B, "patch.zst": zp}))
    # ---- symbolic links
    add(C("l-src-ignored", "C", ["l"], rm=True, files={"a": A}, links={"l": "a"}))
    add(C("l-src-ignored-among", "C", ["l", "b"], rm=True, files={"a": A, "b": B}, links={"l": "a"}))
    add(C("l-src-force-rm", "C", ["l"], force=True, rm=True, files={"a": A}, links={"l": "a"}))
    add(C("l-src-force-d-rm", "D", ["l.zst"], force=True, rm=True, files={"a.zst": ZA}, links={"l.zst": "a.zst"}))
    add(C("l-src-dangling-force", "C", ["l", "b"], force=True, rm=True, files={"b": B}, links={"l": "gone"}))
    add(C("l-dst-refused", "C", ["a"], rm=True, files={"a": A, "precious": OLD}, links={"a.zst": "precious"}))
    add(C("l-dst-force", "C", ["a"], force=True, rm=True, files={"a": A, "precious": OLD}, links={"a.zst": "precious"}))
    add(C("l-dst-d-refused", "D", ["a.zst"], rm=True, files={"a.zst": ZA, "precious": OLD}, links={"a": "precious"}))
    add(C("l-dst-d-force", "D", ["a.zst"], force=True, rm=True, files={"a.zst": ZA, "precious": OLD}, links={"a": "precious"}))
    add(C("l-dst-o-refused", "C", ["a"], out="o:lnk", rm=True, files={"a": A, "precious": OLD}, links={"lnk": "precious"}))
    add(C("l-dst-concat-force", "C", ["a", "b"], out="o:lnk", force=True, files={"a": A, "b": B, "precious": OLD}, links={"lnk": "precious"}))
    add(C("l-dst-dangling", "C", ["a"], rm=True, files={"a": A}, links={"a.zst": "elsewhere"}))
    add(C("l-dst-dangling-d-corrupt", "D", ["a.zst"], rm=True, files={"a.zst": g.zfile("corrupt", 3000)}, links={"a": "elsewhere"}))
    add(C("l-dst-to-dir", "C", ["a"], force=True, rm=True, files={"a": A, "dd": DIR}, links={"a.zst": "dd"}))
    add(C("l-dst-is-src-via-link", "C", ["a"], out="o:lnk", force=True, rm=True, files={"a": A}, links={"lnk": "a"}))
    add(C("l-src-is-dst-via-link", "D", ["l.zst"], out="o:a.zst", force=True, rm=True, files={"a.zst": ZA}, links={"l.zst": "a.zst"}))
    add(C("l-prompt-yes", "C", ["a"], quiet=False, answer="y", files={"a": A, "precious": OLD}, links={"a.zst": "precious"}))
    # ---- the prompts answered with a NUL byte / EOF / garbage (finding C19-prompt-nul-byte-accepted-as-yes)
    add(C("p-nul-overwrite", "C", ["a"], quiet=False, stdin=b"\0\n", rm=True, files={"a": A, "a.zst": OLD}))
    add(C("p-nul-overwrite-d", "D", ["a.zst"], quiet=False, stdin=b"\0", files={"a.zst": ZA, "a": OLD}), nk=2, ni=0)
    add(C("p-nul-concat", "C", ["a", "b"], out="o:out", quiet=False, stdin=b"\0\n", rm=True, files={"a": A, "b": B}), nk=2, ni=0)
    add(C("p-eof-overwrite", "C", ["a"], quiet=False, stdin=b"", rm=True, files={"a": A, "a.zst": OLD}), nk=2, ni=0)
    add(C("p-other-overwrite", "C", ["a"], quiet=False, stdin=b"\xff\n", files={"a": A, "a.zst": OLD}), nk=2, ni=0)
    add(C("p-newline-overwrite", "C", ["a"], quiet=False, stdin=b"\n", rm=True, files={"a": A, "a.zst": OLD}), nk=2, ni=0)
    add(C("p-Y-overwrite", "C", ["a"], quiet=False, answer="y", stdin=b"Yes\n", files={"a": A, "a.zst": OLD}), nk=2, ni=0)
    # ---- decompression of several frames / skippable frames / trailing garbage under every flag set
    kinds = ["multi", "skip-only", "skip-first", "junk-short", "junk-long", "good-then-corrupt", "empty", "notzstd", "good-then-trunc"]
    flagsets = [dict(), dict(force=True), dict(out="c"), dict(out="c", force=True), dict(rm=True), dict(force=True, rm=True),
                dict(out="c", rm=True), dict(out="c", force=True, rm=True), dict(mode="T"), dict(mode="T", rm=True), dict(mode="T", force=True, rm=True)]
    combos = [(k, fi) for k in kinds for fi in range(len(flagsets))]
    if quick:
        combos = rng.sample(combos, 30)
    for k, fi in combos:
        fl = dict(flagsets[fi])
        mode = fl.pop("mode", "D")
        add(C("fr-%s-%d" % (k, fi), mode, ["s.zst"], files={"s.zst": g.zfile(k, 2000)}, **fl), nk=3, ni=0)
    return cs


def random_case(g, i, big=False):
    rng = g.rng
    mode = rng.choice(["C", "C", "D", "D", "D", "T"])
    n = rng.choice([1, 1, 1, 2, 3])
    files = {}
    srcs = []
    for j in range(n):
        base = rng.choice(["a", "b", "c", "data", "x.y"]) + str(j)
        if mode == "C":
            name = base + rng.choice(["", ".txt", ".zst"])
            kind = rng.choice(["file"] * 6 + ["missing", "dir"])
            if kind == "file":
                files[name] = text(rng, rng.choice([0, 1, 100, 4000, 20000] + ([500000] if big else [])))
            elif kind == "dir":
                files[name] = DIR
        else:
            name = base + rng.choice([".zst", ".zst", ".zst", ".zstd", ".tzst", ".dat"])
            kind = rng.choice(["good"] * 5 + ["multi", "corrupt", "trunc", "junk-short", "junk-long", "empty", "notzstd",
                                              "good-then-corrupt", "missing", "dir"])
            if kind == "dir":
                files[name] = DIR
            elif kind != "missing":
                files[name] = g.zfile(kind, rng.choice([0, 10, 3000, 30000] + ([600000] if big else [])) if kind in ("good", "multi") else None)
        srcs.append(name)
    out = rng.choice(["-", "-", "-", "c", "o:out.bin"])
    force = rng.random() < 0.35
    rm = rng.random() < 0.6
    quiet = rng.random() < 0.75
    answer = rng.choice(["y", "n"])
    case = Case("rnd%d" % i, mode, srcs, out=out, force=force, rm=rm, quiet=quiet, answer=answer, files=files)
    # sometimes a destination pre-exists
    if rng.random() < 0.4:
        if out.startswith("o:"):
            files["out.bin"] = b"old output\n"
        elif out == "-":
            s = srcs[0]
            d = (s + ".zst") if mode == "C" else (s.rsplit(".", 1)[0] if "." in s else None)
            if d and d not in files:
                files[d] = b"old destination\n"
        case.files = files
    return case


# ----------------------------------------------------------------------------- sparse writer

def sparse_specs(rng, thorough):
    S = 32768
    fixed = [
        "z8",                                  # one zero word only: End writes the last byte
        "x8", "x1", "z1", "z7", "z9", "x3+z5", "z5+x3",
        "z%d" % S, "z%d+x8" % S, "x8+z%d" % S, "z%d" % (S - 8), "z%d+x1" % (S + 8),
        "z%d,z%d" % (S, S), "z%d,x8" % (3 * S), "x8+z%d+x8" % (2 * S),
        "z%d+x5+z3,z%d|x9+z100" % (40000, S),
        "z%d|z%d|x1" % (S, S),                 # several frames: End after each
        "z131072,z131072,z4096+x16+z4080",     # write-job sized chunks
        "x8+z%d" % (S - 8), "z%d+x8+z%d" % (S - 8, S),   # exact multiples of the segment
        "z%d+x1+z6" % (S + 1),                 # unaligned tail
        "z100000+x1,z100000",                  # ends in a zero run across jobs
    ]
    specs = [("0", s) for s in fixed]
    specs += [("1073741829", "z16+x8|z5"), ("1073741825", "z8"), ("1073741824", "z24+x8"), ("3221225472", "x8")]
    for _ in range(40 if thorough else 12):
        frames = []
        for _f in range(rng.randrange(1, 4)):
            chunks = []
            for _c in range(rng.randrange(1, 4)):
                runs = []
                for _r in range(rng.randrange(1, 5)):
                    n = rng.choice([1, 3, 7, 8, 9, 64, 4096, S - 8, S, S + 8, 2 * S, 50000])
                    runs.append(("z" if rng.random() < 0.6 else "x") + str(n))
                chunks.append("+".join(runs))
            frames.append(",".join(chunks))
        specs.append(("0", "|".join(frames)))
    return specs


def spec_bytes(spec):
    out = bytearray()
    for fr in spec.split("|"):
        for ch in fr.split(","):
            for r in ch.split("+"):
                n = int(r[1:])
                out += bytes(n) if r[0] == "z" else bytes(1 + (j % 255) for j in range(n))
    return bytes(out)


def spec_layout(spec):
    """[(kind 'z'|'x', length)] of a run spec with the *k repeats expanded symbolically"""
    lay = []
    for fr in spec.split("|"):
        for ch in fr.split(","):
            reps = 1
            if "*" in ch:
                ch, k = ch.split("*")
                reps = int(k)
            runs = [(r[0], int(r[1:])) for r in ch.split("+")]
            if reps > 1 and len(runs) == 1:
                lay.append((runs[0][0], runs[0][1] * reps))
            else:
                lay += runs * reps
    return lay


def check_sparse_big(ctx, t, thorough):
    """zero runs beyond 4 GiB (the range of `unsigned storedSkips`): the real writer only, against the plain content
    (the model side is the theorems sparse_equiv_over_4GiB / sparse_skips_bounded: the extracted model cannot
    materialise 5 GB lists)"""
    nviol = 0
    out = os.path.join(ctx.scratch, "sparse.big")
    specs = ["x8,z131072*40000,x8+z24+x3"]
    if thorough:
        specs += ["z1073741824*5,x3", "x8,z131072*32768,z8,x8", "z1048576*4096|x1+z1048576*4100,x9"]
    env = dict(os.environ, C19_SPARSE_QUIET="1")
    for spec in specs:
        rc, so, se = core.sh([t.sparse, out, "1", "0", spec], timeout=600, env=env)
        lay = spec_layout(spec)
        total = sum(n for _k, n in lay)
        ctx.count(("sparse-big", spec), nontrivial=True)
        bad = None
        if rc != 0:
            bad = "sparse writer harness failed: " + se[-200:]
        else:
            size = os.path.getsize(out)
            if size != total:
                bad = "file size %d, plain content has %d bytes" % (size, total)
            else:
                with open(out, "rb") as f:
                    off = 0
                    for kind, n in lay:
                        # the non-zero runs entirely; the zero runs at both ends and in the middle
                        wins = [(off, n)] if (kind == "x" or n <= 65536) else [(off, 4096), (off + n // 2, 4096), (off + n - 4096, 4096)]
                        for o, l in wins:
                            f.seek(o)
                            got = f.read(l)
                            want = bytes(l) if kind == "z" else bytes(1 + (j % 255) for j in range(l))
                            if got != want and bad is None:
                                bad = "bytes at offset %d differ from the plain content" % o
                        off += n
        if bad:
            ctx.violation(dict(kind="sparse-big", spec=spec, skips0="0"), what="sparse writer, zero run beyond 4 GiB: %s [spec %s]" % (bad, spec))
            nviol += 1
        try:
            os.unlink(out)
        except OSError:
            pass
    return nviol


def check_sparse(ctx, t, m, rng):
    nviol = 0
    out = os.path.join(ctx.scratch, "sparse.out")
    for sk0, spec in sparse_specs(rng, ctx.tier == "thorough"):
        ml = m.ask("SP;%s;%s" % (sk0, spec))
        mops = [l for l in ml if l.startswith("SOPS")][0].split()[1:]
        rc, so, se = core.sh([t.sparse, out, "1", sk0, spec], timeout=120)
        if rc != 0:
            ctx.violation(dict(kind="sparse", spec=spec, skips0=sk0, err=se[-500:]), what="sparse writer harness failed: " + se[-200:], no_input=True)
            nviol += 1
            continue
        lines = so.strip().split("\n")
        rops = lines[0].split()
        size = int(lines[-1].split()[1])
        want = spec_bytes(spec)
        ctx.count(("sparse", tuple(o[0] for o in mops), sk0 != "0"), nontrivial=len(mops) > 0)
        ctx.cov["traces_validated_against_impl"] += 1
        concrete = None
        if sk0 == "0":
            got = open(out, "rb").read()
            if got != want:
                concrete = "sparse writer output differs from the plain bytes: %d bytes vs %d, first difference at %d" % (
                    len(got), len(want), next((i for i in range(min(len(got), len(want))) if got[i] != want[i]), min(len(got), len(want))))
            if any(l.startswith("SRES") and "equal_plain=false" in l for l in ml):
                concrete = (concrete or "") + " (model: sparse != plain)"
        else:
            if size != int(sk0) + len(want):
                concrete = "sparse writer file size %d, expected %d" % (size, int(sk0) + len(want))
            else:
                with open(out, "rb") as f:
                    f.seek(int(sk0))
                    if f.read() != want:
                        concrete = "sparse writer tail bytes differ after a >1GB skip"
        if nviol >= 3:
            break
        if concrete:
            ctx.violation(dict(kind="sparse", spec=spec, skips0=sk0, real_ops=rops, model_ops=mops), what=concrete + " [spec %s]" % spec[:200])
            nviol += 1
        elif rops != mops:
            ctx.violation(dict(kind="sparse-tie", spec=spec, skips0=sk0, real_ops=rops, model_ops=mops),
                          what="seek/write calls of AIO_fwriteSparse differ from sparse_frames_ops: real=%s model=%s [spec %s]" % (rops[:12], mops[:12], spec[:120]),
                          no_input=True)
            nviol += 1
        try:
            os.unlink(out)
        except OSError:
            pass
    return nviol


def check_sparse_setting(rn, g):
    """which writer the CLI uses (prefs->sparseFileSupport after every FIO_openDstFile): lseek calls on the destination
    <=> the model's setting is not 0; and the bytes are the content either way"""
    ctx = rn.ctx
    X = bytes(1 + (j % 250) for j in range(5000))
    content = X + bytes(150000) + b"mid" + bytes(70000) + X[:7]
    z = g.z(content)
    OLD = b"old"
    C = Case
    scen = [  # (case, model arg, compress, [(name, to_stdout, was_regular)])
        (C("ss-default-new", "D", ["s.zst"], files={"s.zst": z}), "d", 0, [("s", 0, 0)]),
        (C("ss-default-over", "D", ["s.zst"], force=True, files={"s.zst": z, "s": OLD}), "d", 0, [("s", 0, 1)]),
        (C("ss-sparse-new", "D", ["s.zst"], extra=["--sparse"], files={"s.zst": z}), "f", 0, [("s", 0, 0)]),
        (C("ss-nosparse-over", "D", ["s.zst"], force=True, extra=["--no-sparse"], files={"s.zst": z, "s": OLD}), "n", 0, [("s", 0, 1)]),
        (C("ss-sparse-stdout", "D", ["s.zst"], out="c", extra=["--sparse"], files={"s.zst": z}), "f", 0, [("<stdout>", 1, 0)]),
        (C("ss-default-stdout", "D", ["s.zst"], out="c", files={"s.zst": z}), "d", 0, [("<stdout>", 1, 0)]),
        (C("ss-sticky", "D", ["a.zst", "b.zst", "c.zst"], force=True, files={"a.zst": z, "b.zst": z, "c.zst": z, "a": OLD, "c": OLD}), "d", 0,
         [("a", 0, 1), ("b", 0, 0), ("c", 0, 1)]),
        (C("ss-compress-sparse", "C", ["s"], extra=["--sparse"], files={"s": content}), "f", 1, [("s.zst", 0, 0)]),
        (C("ss-o-over", "D", ["s.zst"], out="o:out", force=True, files={"s.zst": z, "out": OLD}), "d", 0, [("out", 0, 1)]),
    ]
    nviol = 0
    for case, arg, compress, dsts in scen:
        ml = rn.m.ask("SM;%d;%s;%s" % (compress, arg, ",".join("%d%d" % (so, rg) for _n, so, rg in dsts)))
        want = [int(x) for x in [l for l in ml if l.startswith("SET")][0].split()[1:]]
        r = rn.execute(case)
        real = read_dir(r["w"])
        # lseek calls per destination, in the order the destinations were created
        fd, seeks, order = {}, {}, []
        for e in r["entries"]:
            if "act" in e:
                continue
            name = SYS.get(e["nr"])
            p = e["path"][2:] if e["path"].startswith("./") else e["path"]
            if name == "openat" and e["a"][2] & O_CREAT and e["ret"] is not None and e["ret"] >= 0:
                fd[e["ret"]] = p
                order.append(p)
                seeks[p] = 0
            elif name == "close":
                fd.pop(e["a"][0], None)
            elif name == "lseek":
                if e["a"][0] in fd:
                    seeks[fd[e["a"][0]]] += 1
                elif e["a"][0] == 1 and dsts[0][1]:
                    seeks["<stdout>"] = seeks.get("<stdout>", 0) + 1
        got = [1 if seeks.get(n, 0) else 0 for n, _so, _rg in dsts]
        ctx.count(("sparse-setting", case.name, tuple(want)), nontrivial=True)
        ctx.cov["traces_validated_against_impl"] += 1
        bad = None
        for n, so, _rg in dsts:
            data = r["stdout"] if so else real.get(n)
            exp = content if case.mode == "D" else None
            if exp is not None and data != exp:
                bad = "output %s differs from the content (%s bytes instead of %d)" % (n, None if data is None else len(data), len(exp))
        if r["status"] != ("EXIT", 0):
            bad = "status %s" % (r["status"],)
        rn.cleanup(r)
        if bad:
            ctx.violation(dict(kind="cli-sparse", case=case.to_json(), argv=case.argv()), what="zstd %s: %s" % (" ".join(case.argv()), bad))
            nviol += 1
        elif got != [1 if v else 0 for v in want]:
            ctx.violation(dict(kind="sparse-setting", case=case.to_json(), argv=case.argv(), seeks=got, model=want),
                          what="zstd %s: destinations written with seeks %s, the model's sparseFileSupport after each open is %s" % (" ".join(case.argv()), got, want),
                          no_input=True)
            nviol += 1
    return nviol


def check_nonregular_dst(rn, g):
    """--rm and a destination that is not a regular file (a device, a FIFO): the output cannot stand for the source, so the
    source must stay (3e50c92: the --rm conditions of FIO_compressFilename_srcFile / FIO_decompressSrcFile require
    UTIL_isRegularFile(dstFileName)).  Devices and FIFOs are outside the model's file system: direct oracle only."""
    ctx = rn.ctx
    A = text(g.rng, 3000)
    ZA = g.z(A)
    readers = []

    def fifo(name):
        def setup(w):
            os.mkfifo(os.path.join(w, name))
            readers.append(subprocess.Popen(["cat", os.path.join(w, name)], stdout=subprocess.DEVNULL, stderr=subprocess.DEVNULL))
        return setup

    scen = [
        (Case("nr-c-devnull-rm", "C", ["a"], out="o:/dev/null", rm=True, files={"a": A}), None, "a"),
        (Case("nr-d-devnull-rm", "D", ["a.zst"], out="o:/dev/null", rm=True, files={"a.zst": ZA}), None, "a.zst"),
        (Case("nr-c-devnull-force-rm", "C", ["a"], out="o:/dev/null", force=True, rm=True, files={"a": A}), None, "a"),
        (Case("nr-c-fifo-rm", "C", ["a"], rm=True, files={"a": A}), fifo("a.zst"), "a"),
        (Case("nr-d-fifo-rm", "D", ["a.zst"], rm=True, files={"a.zst": ZA}), fifo("a"), "a.zst"),
        (Case("nr-c-fifo-o-rm", "C", ["a"], out="o:pipe", rm=True, files={"a": A}), fifo("pipe"), "a"),
    ]
    nviol = 0
    for case, setup, src in scen:
        try:
            r = rn.execute(case, setup=setup)
        finally:
            for p in readers:
                try:
                    p.wait(timeout=5)
                except subprocess.TimeoutExpired:
                    p.kill()
            del readers[:]
        real = read_dir(r["w"]) if setup is None else {n: (open(os.path.join(r["w"], n), "rb").read() if os.path.isfile(os.path.join(r["w"], n)) else None)
                                                        for n in os.listdir(r["w"])}
        st = r["status"]
        ctx.count(("nonregular-dst", case.name, st), nontrivial=True)
        bad = None
        if real.get(src) != case.files[src]:
            bad = "the source %s was removed although the destination is not a regular file (exit status %s): its data exists nowhere" % (src, st)
        elif st != ("EXIT", 0):
            bad = "status %s" % (st,)
        rn.cleanup(r)
        if bad:
            if ctx.violation(dict(kind="nonregular-dst", case=case.to_json(), argv=case.argv(), status=st),
                             what="%s [%s: zstd %s]" % (bad, case.name, " ".join(case.argv())),
                             key="C19-rm-with-non-regular-destination" if "was removed" in bad else None):
                nviol += 1
    return nviol


def check_read_errors(rn, g, rng):
    """read(2) errors on a source large enough for the asynchronous reader (>= 3 x 128 KiB): the fatal error is raised on
    the reader thread.  Direct oracles only (thread timing: the call indices differ from run to run)."""
    ctx = rn.ctx
    A = text(rng, 500000) + bytes(rng.randrange(256) for _ in range(120000))
    scen = [Case("rd-c-rm", "C", ["a"], rm=True, files={"a": A}),
            Case("rd-d-rm", "D", ["a.zst"], rm=True, files={"a.zst": g.z(A, level=1)}),
            Case("rd-d-o", "D", ["a.zst"], out="o:x", files={"a.zst": g.z(A, level=1)})]
    nviol = 0
    for case in scen:
        src = case.srcs[0]
        dst = case.out[2:] if case.out.startswith("o:") else (src + ".zst" if case.mode == "C" else src[:-4])
        ref = rn.execute(case, wide=True)
        full = read_dir(ref["w"]).get(dst)
        ents = [e for e in ref["entries"] if "act" not in e]
        first = next((e["idx"] for e in ents if (e["path"][2:] if e["path"].startswith("./") else e["path"]) == src), None)
        rn.cleanup(ref)
        if first is None or not isinstance(full, bytes):
            continue
        ks = [e["idx"] for e in ents if e["nr"] in (0, 17) and e["idx"] > first][:40]
        for k in ks:
            for E in (5,):
                kr = rn.execute(case, k=k, action="fail:%d" % E, wide=True)
                at = next((e for e in kr["entries"] if "act" not in e and e["idx"] == k), None)
                if at is None or at["nr"] not in (0, 17) or not any(e.get("act") == "fail" for e in kr["entries"]):
                    rn.cleanup(kr)
                    continue
                real = read_dir(kr["w"])
                st = kr["status"]
                code = st[1] if st and st[0] == "EXIT" else None
                got = real.get(dst)
                ctx.count(("read-error", case.name, code, None if got is None else (0 if len(got) == 0 else 1)), nontrivial=True)
                bad, key = None, None
                if real.get(src) != case.files[src] and got != full:
                    bad = "the source %s is gone and %s is not the complete output" % (src, dst)
                elif code == 0 and got != full:
                    bad = "exit status 0 but %s is not the complete output" % dst
                elif code is None:
                    bad = "killed by a signal: %s" % (st,)
                elif code != 0 and got is not None and got != full:
                    bad = "exit status %d and a partial destination %s (%d bytes) is left behind" % (code, dst, len(got))
                    if len(got) == 0:
                        key = "C19-read-error-race-leaves-empty-destination"
                rn.cleanup(kr)
                if bad:
                    if ctx.violation(dict(kind="read-error", case=case.to_json(), argv=case.argv(), k=k, errno=E, status=st, dir=show_dir(real)),
                                     what="read(2) failing with errno %d at system call #%d of the wide grid: %s [%s: zstd %s]" % (E, k, bad, case.name, " ".join(case.argv())),
                                     key=key):
                        nviol += 1
                        break
    return nviol


def check_cli_sparse(rn, g, thorough):
    """the real CLI: --sparse and --no-sparse outputs are byte-identical (and equal the library's decoding)"""
    ctx = rn.ctx
    S = 32768
    rng = g.rng
    layouts = [bytes(S), bytes(3 * S) + b"x", b"x" + bytes(3 * S), bytes(S - 1), bytes(S + 1),
               bytes(200000), b"head" + bytes(131072 * 2) + b"tail" + bytes(131072), bytes(1),
               bytes(8), bytes(70000) + text(rng, 100) + bytes(40000)]
    if thorough:
        layouts += [bytes(5 * 131072 + 3), text(rng, 1000) + bytes(1 << 20), bytes(1 << 20) + text(rng, 7) + bytes(12345)]
    nviol = 0
    for i, content in enumerate(layouts):
        zs = [g.z(content)]
        if i % 3 == 0:
            zs.append(g.z(content[:len(content) // 2]) + g.z(content[len(content) // 2:]))     # two frames
        for z in zs:
            outs = {}
            for flag in ("--sparse", "--no-sparse"):
                case = Case("sparse%d%s" % (i, flag), "D", ["s.zst"], extra=[flag], files={"s.zst": z})
                r = rn.execute(case)
                real = read_dir(r["w"])
                outs[flag] = (real.get("s"), r["status"], os.stat(os.path.join(r["w"], "s")).st_blocks if "s" in real else -1)
                rn.cleanup(r)
            ctx.count(("cli-sparse", len(content), len(zs), outs["--sparse"][2] < outs["--no-sparse"][2]), nontrivial=True)
            for flag in outs:
                if nviol >= 2:
                    return nviol
                if outs[flag][0] != content or outs[flag][1] != ("EXIT", 0):
                    got = outs[flag][0]
                    ctx.violation(dict(kind="cli-sparse", flag=flag, zst=z.hex() if len(z) < 4096 else None, content_len=len(content),
                                       got_len=None if got is None else len(got), status=outs[flag][1]),
                                  what="zstd -d %s: output differs from the library's decoding (%s bytes instead of %d)" % (
                                      flag, None if got is None else len(got), len(content)))
                    nviol += 1
    return nviol


# ----------------------------------------------------------------------------- entry

def run(ctx):
    rng = random.Random(ctx.seed * 7919 + 19)
    ctx.cov["rule"] = (
        "cases = CLI invocations from the grammar {compress, decompress, test} x {1..3 sources: regular / missing / directory / symbolic link / stdin; "
        ".zst sources good / multi-frame / skippable-only / corrupted / truncated / trailing junk / empty / not-zstd} x {default destination, -c, -o, -O dir} x "
        "{-f, --rm / -k in either order, -q or interactive y/n, -r over a directory tree, --exclude-compressed, -D (present / missing / directory / equal to a source), "
        "--patch-from} x {destination pre-exists / is a symbolic link (to a file, dangling, to a directory) or not}: a fixed boundary corpus first (round 1 corpus + corpus2), "
        "then cases from one PRNG seeded by VERIF_SEED. Each case: reference run under the ptrace supervisor (canonical file-operation trace vs extracted fio_ops, final "
        "directory vs model, exit status vs library verdict); fault catalogue: every file-system call of the run fails once (injected errno) and the real outcome is judged by "
        "the direct oracles and compared with the model under the same fault; then the process tree is killed at system call k (every k from the first call naming a case "
        "file; sampled in quick) and SIGINT is delivered at sampled calls of a finer grid; sparse-writer cases = run specs (zero / non-zero runs around the 8-byte word, the "
        "32 KiB segment, job and frame boundaries, >1 GiB stored skips, zero runs beyond 4 GiB) driven through AIO_fwriteSparse/End vs the model call by call (vs the plain "
        "content beyond 4 GiB), and CLI scenarios for the sparse setting; round 3: two sources of one run into one destination name (--output-dir-flat with equal "
        "basenames, -r, a.zst + a.zstd, a.tzst + a.tar.zst; with and without -f / --rm), the prompts answered with a NUL byte / end of input / newline / 0xff / Yes, "
        "and --rm with a destination that is a device or a FIFO (direct oracle). distinct_nontrivial counts distinct signatures (kind, invocation shape, model operation-kind sequence | "
        "fault site | matched model prefix state index | sparse op-kind sequence); a trace is trivial if the model predicts no file operation besides exit.")
    import glob
    import time
    t0 = time.time()
    if not ctx.replay_file:
        for old in glob.glob(os.path.join(core.REPLAY, ctx.pid + "-*.json")):      # replay files of earlier runs
            os.unlink(old)
    tools = build_tools()
    core.log("C19 tools built %.1fs" % (time.time() - t0))
    r = ctx.prove()
    core.log("C19 proofs checked %.1fs" % (time.time() - t0))
    ctx.proof_verdict(lambda broken: [])
    ctx.assumptions += [
        "the theorems are about the Gallina model (coq/Cli); the model is tied to programs/*.c by differential testing of the rebuilt binary (trace, kill points, SIGINT points, sparse calls)",
        "crash points are system-call boundaries of the traced process tree; libc stdio buffering and kernel/file-system durability are outside (no fsync is claimed)",
        "verdict_sound (codec right when it reports success) is a hypothesis of crash_safe: properties C01/C02/C04 carry it; per run the destination is decoded/compared with the library",
        "I/O faults are injected into the real binary one failing call per run (ptrace: the call is skipped and returns -errno) over the fault catalogue; the theorems cover all fault combinations on the model",
        "zero runs beyond 4 GiB: the real sparse writer is compared with the plain content; the model side is the theorems sparse_equiv_over_4GiB / sparse_skips_bounded",
    ]
    if ctx.replay_file:
        return replay(ctx, tools)
    m = Model(tools.model)
    try:
        rn = Runner(ctx, tools, m)
        g = Gen(rn, rng)
        quick = ctx.quick
        nviol = 0
        only = os.environ.get("C19_ONLY")
        if not only:
            nviol += check_sparse(ctx, tools, m, rng)
            core.log("C19 sparse writer tie done %.1fs" % (time.time() - t0))
            nviol += check_sparse_big(ctx, tools, not quick)
            nviol += check_cli_sparse(rn, g, not quick)
            nviol += check_sparse_setting(rn, g)
            nviol += check_nonregular_dst(rn, g)
            core.log("C19 CLI sparse/no-sparse, non-regular destinations done %.1fs" % (time.time() - t0))
        elif "nr-" in only:
            nviol += check_nonregular_dst(rn, g)
        cases = corpus(g) + corpus2(g, quick)
        nrand = 24 if quick else 400
        for i in range(nrand):
            cases.append(random_case(g, i, big=(not quick and i % 10 == 0)))
        if not quick:
            A = text(rng, 900000)
            cases.append(Case("c-big-async-rm", "C", ["big"], rm=True, files={"big": A}))
            cases.append(Case("c-big-T2", "C", ["big"], rm=True, extra=["-T2"], files={"big": A}))
            cases.append(Case("c-long", "C", ["big"], rm=True, extra=["--long=20"], files={"big": A}))
            cases.append(Case("d-big-async-rm", "D", ["big.zst"], rm=True, files={"big.zst": g.z(A)}))
            dic = text(rng, 4000)
            cases.append(Case("c-dict", "C", ["a"], rm=True, dictf="dict", files={"a": text(rng, 3000), "dict": dic}))
        hist = {}
        if only:
            cases = [c for c in cases if any(c.name.startswith(x) for x in only.split(","))]
        for ci, case in enumerate(cases):
            corpus_case = not case.name.startswith("rnd")
            nk = None if not quick else (12 if corpus_case else 6)
            ni = (4 if corpus_case else 2) if quick else 40
            if case.name in ("c-rm", "d-rm", "d-corrupt-rm", "c-exists-force-rm"):
                ni = 10 ** 6          # every SIGINT point of the basic --rm runs, in both tiers
            if quick and hasattr(case, "nk"):
                nk, ni = case.nk, case.ni
            hist[case.mode + ":" + case.out.split(":")[0]] = hist.get(case.mode + ":" + case.out.split(":")[0], 0) + 1
            try:
                nviol += check_case(rn, case, nk, ni, rng, nfault=getattr(case, "nfault", 0))
            except subprocess.TimeoutExpired:
                ctx.violation(dict(kind="timeout", case=case.to_json()), what="zstd did not terminate under the supervisor: " + " ".join(case.argv()))
                nviol += 1
            if nviol >= 6 and not os.environ.get("C19_NOSTOP"):
                break
        if not quick and not only:
            nviol += check_read_errors(rn, g, rng)
        core.log("C19 invocations done %.1fs (%d supervised runs)" % (time.time() - t0, rn.n_dirs))
        ctx.notes["supervised_runs"] = rn.n_dirs
        ctx.notes["invocations_by_mode_output"] = hist
        ctx.notes["invocations"] = len(cases)
    finally:
        m.close()


def replay(ctx, tools):
    j = json.load(open(ctx.replay_file))
    rep = j.get("replay", {})
    m = Model(tools.model)
    try:
        rn = Runner(ctx, tools, m)
        rng = random.Random(ctx.seed)
        kind = rep.get("kind", "")
        g = Gen(rn, rng)
        if kind == "sparse-big":
            check_sparse_big(ctx, tools, True)
        elif kind in ("sparse-setting", "cli-sparse"):
            check_sparse_setting(rn, g)
            check_cli_sparse(rn, g, False)
        elif kind == "nonregular-dst":
            check_nonregular_dst(rn, g)
        elif kind == "read-error":
            check_read_errors(rn, g, rng)
        elif kind.startswith("sparse"):
            out = os.path.join(ctx.scratch, "sparse.out")
            rc, so, se = core.sh([tools.sparse, out, "1", rep["skips0"], rep["spec"]], timeout=120)
            ml = m.ask("SP;%s;%s" % (rep["skips0"], rep["spec"]))
            core.log("real :", so.strip()[:2000])
            core.log("model:", " ".join(ml)[:2000])
            got = open(out, "rb").read() if rep["skips0"] == "0" else None
            if got is not None and got != spec_bytes(rep["spec"]):
                ctx.violation(rep, what="replay: sparse writer output differs from the plain bytes")
            elif so.strip().split("\n")[0].split() != [l for l in ml if l.startswith("SOPS")][0].split()[1:]:
                ctx.violation(rep, what="replay: sparse call sequence differs from the model", no_input=True)
        elif "case" in rep:
            case = Case.from_json(rep["case"])
            check_case(rn, case, None, 40, rng, nfault=(10 ** 6 if kind in ("fault", "tie-fault") else 0))
        else:
            core.log("nothing to replay in", ctx.replay_file)
    finally:
        m.close()
