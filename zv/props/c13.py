"""C13 - allocation failure anywhere: clean error, no crash, no leak, context reusable (PARTIAL).

Deciding artefact: coq/Props/Properties_C13.v - theorems about the allocation language of coq/Mem/AllocDsl.v
(programs = ownership skeletons of the zstd constructors / destructors / (re)allocation points, transcribed in
coq/Mem/AllocInstances.v): for EVERY failure oracle, every outcome of the data-dependent tests, every repetition
count and every value of the size constants there is no double free, no use of a NULL / freed block, no release
through a zeroed ZSTD_customMem, nothing is left allocated after the destructor, errors are reported exactly when
an allocation failed, and reset + retry with memory available succeeds.

Tie (checked on every run): harness/c13_fault.c links libzstd rebuilt from /repo's working tree, gives it a
counting ZSTD_customMem (and interposes libc malloc/calloc/free) that fails the k-th allocation and records every
allocation / free event with its size, bracketed per API call.  For every scenario of the catalogue and EVERY k in
1..allocs(scenario) (exhaustive), plus sampled second / third faults, the call sequence the run made is replayed
through the extracted model (coq/Extract/Extract_C13.v, ml/c13_driver.ml) with the same failing indexes, and the
two event traces are compared per API call after canonicalisation (status; allocation attempts in order with
size - struct sizes come from the regenerated coq/Gen/Gen_Alloc.v - and outcome; the SET of blocks freed between
two consecutive allocation attempts; the live set at the end).  Addresses, the order of frees inside one group and
the calloc/malloc distinction are not compared.

Direct oracle (the property statement on the real code, every case): no signal / sanitizer report / timeout,
every block handed out by the custom allocator returned exactly once through the custom free (no block to libc
free, no foreign pointer), live set empty at the end, NULL / error returned when an allocation of the call failed
and only then, memory_allocation as the error code of the ZSTD_ API, and after ZSTD_CCtx_reset / ZSTD_DCtx_reset
(session only) the same context completes the same operation and the result round-trips.  This is a test
(supporting the tie and turning a broken tie into a concrete failing (scenario, k)); it replaces no theorem.
"""
import concurrent.futures
import json
import os
import random
import subprocess
import time

from zv import core

HARNESS_FLAGS = ["-w", "-Wl,--wrap=malloc,--wrap=calloc,--wrap=free,--wrap=realloc,--wrap=pthread_create,--wrap=pthread_mutex_init,--wrap=pthread_cond_init"]


def harness_sources():
    """c13_fault.c + the two translation units of contrib/seekable_format (plain malloc / realloc / free users)"""
    sk = os.path.join(core.REPO, "contrib", "seekable_format")
    return ["c13_fault.c", os.path.join(sk, "zstdseek_compress.c"), os.path.join(sk, "zstdseek_decompress.c")]

# scenarios whose whole call sequence is replayed through the model (everything that is single threaded and goes
# through operations AllocInstances.v transcribes, incl. the unit-level calls of POOL_*, ZSTDMT_createCCtx_advanced,
# ZSTDMT_resize, ZSTDMT_freeCCtx); the others (multithreaded compression: allocation order depends on the thread
# schedule; ZSTD_copyCCtx on a second context; dictionary training: plain malloc, not modelled) are covered by the
# direct oracle only
TIED_PREFIXES = ("cctx_", "compress_", "load_dict_", "cdict_", "cstream", "unit_pool_", "unit_mtctx_", "unit_mtresize_", "dctx_",
                 "dstream_", "ddict_", "multi_ddict_")

MAX_REPORT = 6
RSEED = [1]

# scenarios of the quick tier's debug-build sweep
DBG_PREFIXES = ("unit_pool_3_4", "unit_mtctx_2", "unit_mtresize_a", "mt_oneshot", "mt_stream", "train_opt_cover_mt")


# --------------------------------------------------------------------------
# building / running

def build_harness(variant, extra_defs=()):
    if variant == "leg1":   # ZSTD_LEGACY_SUPPORT=1: the v0.1 ... v0.4 decoders are dispatched too (the default build starts at v0.5)
        variant, extra_defs = "o1", tuple(extra_defs) + ("-UZSTD_LEGACY_SUPPORT", "-DZSTD_LEGACY_SUPPORT=1")
    if variant == "leg1asan":
        variant, extra_defs = "asan", tuple(extra_defs) + ("-UZSTD_LEGACY_SUPPORT", "-DZSTD_LEGACY_SUPPORT=1")
    if variant == "dbg":   # -DDEBUGLEVEL=1: asserts on, and lib/common/threading.c allocates every mutex / condition with ZSTD_malloc
        variant, extra_defs = "o1", tuple(extra_defs) + ("-DDEBUGLEVEL=1",)
    return core.build_harness("c13_fault", harness_sources(), variant=variant, extra_flags=HARNESS_FLAGS, extra_defs=extra_defs,
                              libs=("-lpthread",), lib_exclude=["zstdmt_compress.c", "pool.c"],
                              extra_inc=[os.path.join(core.REPO, "contrib", "seekable_format")])


def harness_env(timeout_s):
    env = dict(os.environ)
    env["C13_TIMEOUT"] = str(timeout_s)
    env["C13_RSEED"] = str(RSEED[0])   # the rand_* scenarios draw their operation sequences from it
    env["ASAN_OPTIONS"] = "detect_leaks=0:abort_on_error=0:exitcode=99:allocator_may_return_null=1:detect_stack_use_after_return=0"
    env["UBSAN_OPTIONS"] = "halt_on_error=1:exitcode=98:print_stacktrace=1"
    return env


def list_scenarios(exe):
    rc, out, err = core.sh([exe, "list"], timeout=30)
    if rc != 0:
        raise RuntimeError("c13_fault list failed: " + err[-500:])
    res = []
    for ln in out.split("\n"):
        p = ln.split()
        if len(p) == 2:
            res.append((p[0], int(p[1])))
    return res


def run_cmd(exe, args, timeout_s, wall):
    """returns (list of parsed JSON lines, stderr tail, rc)"""
    try:
        p = subprocess.run([exe] + args, env=harness_env(timeout_s), stdout=subprocess.PIPE, stderr=subprocess.PIPE, timeout=wall)
        rc, out, err = p.returncode, p.stdout, p.stderr
    except subprocess.TimeoutExpired as e:
        rc, out, err = 124, e.stdout or b"", e.stderr or b""
    lines = []
    for ln in out.decode("utf-8", "replace").split("\n"):
        ln = ln.strip()
        if not ln.startswith("{"):
            continue
        try:
            lines.append(json.loads(ln))
        except ValueError:
            lines.append(dict(s="?", k=[], unparsable=ln[:300]))
    return lines, err.decode("utf-8", "replace")[-3000:], rc


def run_many(exe, jobs, timeout_s, wall, workers=None):
    """jobs: list of argument lists.  Returns list of (args, lines, stderr, rc) in job order."""
    workers = workers or max(2, min(core.NCPU - 2, 14))
    res = [None] * len(jobs)
    with concurrent.futures.ThreadPoolExecutor(max_workers=workers) as ex:
        futs = {ex.submit(run_cmd, exe, a, timeout_s, wall): i for i, a in enumerate(jobs)}
        for f in concurrent.futures.as_completed(futs):
            i = futs[f]
            lines, err, rc = f.result()
            res[i] = (jobs[i], lines, err, rc)
    return res


# --------------------------------------------------------------------------
# direct oracle

# round 3: allocator-bypass oracle.  In a scenario whose objects are created with the counting ZSTD_customMem, every request the
# library makes inside an API call must reach that allocator; a libc malloc / calloc / realloc inside such a call (lower-case event)
# is a bypass.  Not bypasses: the objects the API can only create with the default allocator (ZSTD_createCCtxParams,
# ZSTD_createThreadPool and what ZSTDMT_resize adds to that caller-owned pool through the pool's own allocator), the scenario
# families that use the default allocator on purpose (simple API, trainers, contrib/seekable_format), the debug build (every mutex /
# condition is a ZSTD_malloc of lib/common/threading.c).  Known, reported with their keys: the legacy decoders (contexts and
# buffers from libc malloc whatever the DCtx's allocator) and ZSTD_generateSequences.
BYPASS_FREE_SCEN = ("simple_api", "simple_dict_api", "train_", "thr_opt_", "seekable_")
BYPASS_OK_CALLS = ("createCCtxParams", "freeCCtxParams", "createThreadPool", "freeThreadPool")
SHARED_POOL_SCEN = ("mt2_threadpool", "thr_threadpool", "mt3_refpool", "randx_")


def bypass_events(d):
    """[(call, event token)] of libc allocation requests inside API calls of a custom-allocator scenario"""
    sc = str(d.get("s", ""))
    if sc.startswith(BYPASS_FREE_SCEN):
        return []
    res, cur = [], None
    for t in d.get("ev", "").split():
        c = t[0]
        if c == "[":
            cur = t[1:].split(":")[0]
        elif c == "]":
            cur = None
        elif c in "an" and cur is not None and cur not in BYPASS_OK_CALLS:
            if sc.startswith(SHARED_POOL_SCEN) and cur == "compress" and int(t.split(":")[1]) <= 1024:
                continue   # POOL_resize of the caller's pool (array of thread handles), through the pool's own (default) allocator
            res.append((cur, t))
    return res


def judge(d, variant="o1"):
    """property statement on one case line -> list of (class, text)"""
    out = []
    if "unparsable" in d:
        return [("harness", "unparsable harness line: " + d["unparsable"])]
    if "signal" in d:
        sig = d.get("signal")
        if d.get("timeout") or sig == 14:
            out.append(("timeout", "no progress within the time limit (deadlock / livelock after the injected failure)"))
        elif sig == -1:
            out.append(("sanitizer", "AddressSanitizer / UBSan report"))
        elif sig == 0:
            out.append(("exit", "harness child exited with code %s" % d.get("exit")))
        else:
            out.append(("crash", "signal %s" % sig))
        return out
    if d.get("live"):
        out.append(("leak", "%d block(s) obtained from the caller's allocator never returned" % d["live"]))
    if d.get("dfree"):
        out.append(("double-free", "%d double free(s) through the custom free" % d["dfree"]))
    if d.get("pfree"):
        out.append(("wrong-deallocator", "%d custom block(s) handed to libc free (zeroed / wrong ZSTD_customMem)" % d["pfree"]))
    if d.get("foreign"):
        out.append(("foreign-free", "%d pointer(s) not obtained from the custom allocator handed to the custom free" % d["foreign"]))
    if d.get("viol"):
        out.append(("api", d.get("violtxt", "")))
    if d.get("optional") and not (str(d.get("s", "")).startswith(("train_", "thr_opt_")) and not [t for t in d.get("ev", "").split() if t[0] == "u"]):
        # the trainers degrade gracefully by design (a candidate / a sample whose allocation failed is skipped); every other
        # operation must report the failure
        out.append(("not-reported", "an allocation failed inside a call that nevertheless returned success: "
                    + ";".join(x for x in d.get("ops", "").split(";") if "despite" in x)[:200]))
    if variant != "dbg":
        by = bypass_events(d)
        if by:
            out.append(("allocator-bypass", "%d request(s) made through libc malloc / calloc inside API calls of objects created with a custom allocator: %s"
                        % (len(by), " ".join("%s:%s" % b for b in by[:6]))))
    return out


def finding_key(d, cls, variant="o1"):
    """stable keys of defects that were found on the unchanged tree (matched against known_findings.json)"""
    sc = str(d.get("s", ""))
    bad = cls in ("crash", "sanitizer", "timeout", "exit")
    if sc == "train_fastcover" and cls in ("crash", "sanitizer"):
        return "fastcover-segmentFreqs-null"
    site = failing_site(d)
    ff = ([t for t in d.get("ev", "").split() if t[0] in "Nnu"] or [""])[0]   # the first refused request, e.g. "n5:40"
    if cls == "allocator-bypass":
        calls = set(c for c, _ in bypass_events(d))
        if sc.startswith(("legacy_", "leg4_")) and calls <= {"lstream", "dstream", "decompressDCtx"}:
            return "legacy-decoders-bypass-custom-allocator"
        if calls == {"generateSequences"}:
            return "C14-generatesequences-default-malloc"
        return None
    if sc.startswith("leg4_"):
        return "zbuffv04-stream-second-doors"
    if sc.startswith(("prefix_retry", "refddict_prefix_retry")) and cls in ("api", "crash", "sanitizer"):
        return "prefix-used-up-by-failed-frame-start"
    if sc.startswith("refddict_fail") and (bad or (cls == "api" and "failed-refDDict-took-effect" in d.get("violtxt", ""))):
        return "dctx-refddict-failed-call-takes-effect"
    if cls == "not-reported" and sc.startswith(("rand_", "mt")) and ff.startswith("N") and ff.endswith(":98304"):
        # a sequence buffer (ZSTD_ldm_getMaxNbSeq(jobSize 512 KB) * sizeof(rawSeq)) requested by a job of a frame without LDM
        return "mt-stale-seqpool-size-after-ldm-frame"
    if sc.startswith("legacy_"):
        # attempts inside one ZSTD_decompressStream call that switches the legacy version: context, inner context, inBuff, outBuff
        if sc == "legacy_versions" and d.get("k") == [3]:
            return "zbuffv05-create-unchecked-dctx"
        if site and site[1] <= 2 and sc == "legacy_versions":
            return "legacy-stream-context-dangling-after-failed-version-switch"
        return "legacy-stream-stale-buffer-size"
    if sc.startswith("seekable_"):
        if cls == "leak":
            return "seekable-reinit-leaks-seek-table"
        if cls == "api" and "seekable_decompress" in d.get("violtxt", ""):
            return "seekable-decompress-keeps-position-after-error"
        return None
    if sc.startswith("thr_opt_") and (bad or cls == "not-reported") and ff.startswith("u"):
        return "cover-best-init-ignores-mutex-init"
    if sc.startswith("thr_") and cls == "wrong-deallocator":
        return "pool-create-mutex-init-failure"
    if variant == "dbg" and bad:
        if d.get("signal") == 6 and ff.startswith("N"):
            return "mtctx-create-jobs-table-assert"
        if ff.startswith("n") and ff.split(":")[-1] in ("40", "48"):   # sizeof(pthread_mutex_t), sizeof(pthread_cond_t)
            if sc.startswith("train_opt_") and int(ff[1:].split(":")[0]) > 5:   # requests 3..5 are the pool's own mutex / conditions
                return "cover-best-init-ignores-mutex-init"
            return "pool-create-mutex-init-failure"
    return None


def failing_site(d):
    """(call name, ordinal of the failing attempt inside the call) of the first injected failure, from the event text"""
    cur, n = None, 0
    for t in d.get("ev", "").split():
        c = t[0]
        if c == "[":
            cur, n = t[1:].split(":")[0], 0
        elif c == "]":
            cur = None
        elif c in "AaNntu":
            n += 1
            if c in "Nnu":
                return (cur or "-", n, c in "nu")
    return None


# --------------------------------------------------------------------------
# tie: real event trace -> model case -> canonical comparison

def parse_real(ev):
    calls, stray, cur = [], [], None
    for t in ev.split():
        c = t[0]
        if c == "|":
            continue
        if c == "[":
            parts = t[1:].split(":")
            try:
                ps = [int(x) for x in parts[1:]]
            except ValueError:
                ps = []
            cur = dict(name=parts[0], ps=ps, evs=[], res=None)
            calls.append(cur)
        elif c == "]":
            if cur is not None:
                cur["res"] = t[1:]
            cur = None
        else:
            body = t[1:]
            if ":" in body:
                idx, size = body.split(":")
                e = (c, int(idx), int(size))
            else:
                e = (c, int(body), None)
            (cur["evs"] if cur is not None else stray).append(e)
    return calls, stray


def renumber(calls, stray, plain_custom=False):
    """custom-allocator events only, block ids = ordinal among custom allocation attempts (the model's numbering).
    Returns (faults, live) and rewrites call['cev'] = [('A',size,ok) | ('F',id)]"""
    order = {}
    n = 0
    faults, live = [], set()
    allev = []
    for c in calls:
        c["cev"] = []
        c["plain"] = 0
        for e in c["evs"]:
            allev.append((c, e))
    for c, e in allev:
        k = e[0]
        if plain_custom:   # legacy decoders: libc malloc / free are the allocator of the modelled object
            k = {"a": "A", "n": "N", "f": "F"}.get(k, k)
        if k in "AN":
            n += 1
            order[e[1]] = n
            if k == "A":
                live.add(n)
                c["cev"].append(("A", e[2], True))
            else:
                faults.append(n)
                c["cev"].append(("A", e[2], False))
        elif k == "F":
            i = order.get(e[1], -e[1])
            live.discard(i)
            c["cev"].append(("F", i))
        elif k in "afndtu":
            c["plain"] += 1
        else:   # D double free, X/Y/Z foreign, P/Q custom block to libc free: oracle violations; kept visible in the trace
            c["cev"].append(("F", -1000 - e[1]))
    return faults, live


OPMAP = {
    "createCCtx": lambda c: "10", "freeCCtx": lambda c: "11",
    "loadDictionary": lambda c: "12:%d,0" % c["ps"][0],
    "compress": lambda c: "17:%d,0,0" % c["natt"],
    "refCDict": lambda c: "14",
    "createCDict": lambda c: "15:%d,0" % c["ps"][0], "freeCDict": lambda c: "16:%d" % c["ps"][0],
    "createDCtx": lambda c: "20", "freeDCtx": lambda c: "21",
    "DCtx_loadDictionary": lambda c: "22:%d,0" % c["ps"][0],
    "dstream": lambda c: "27:%d,0" % c["natt"],
    "createDDict": lambda c: "24:%d,%d,0" % (c["ps"][0], c["ps"][1]), "freeDDict": lambda c: "25:%d" % c["ps"][0],
    "refDDict": lambda c: "28:%d,0" % c["natt"],
    "POOL_create": lambda c: "1:%d,%d" % (c["ps"][0], c["ps"][1]),
    "POOL_resize": lambda c: "2:%d,%d" % (0 if c["natt"] else c["ps"][0], c["ps"][0]),
    "POOL_free": lambda c: "3",
    "ZSTDMT_create": lambda c: "4:%d" % c["ps"][0], "ZSTDMT_free": lambda c: "5",
    "ZSTDMT_resize": lambda c: "6:%s" % ",".join(str(x) for x in c["ps"][:6]),
}


def model_case(calls):
    ops = []
    for c in calls:
        c["natt"] = sum(1 for e in c["cev"] if e[0] == "A")
        f = OPMAP.get(c["name"])
        ops.append(f(c) if f else "99")   # 99 = an operation that must not touch the allocator
    return ";".join(ops)


def canon(evs):
    """[('A',size,ok)|('F',id)] -> alternating (sorted tuple of freed ids), ('A'|'N', size), ..., (sorted tuple)"""
    groups, cur = [], []
    for e in evs:
        if e[0] == "F":
            cur.append(e[1])
        else:
            groups.append(tuple(sorted(cur)))
            cur = []
            groups.append(("A" if e[2] else "N", e[1]))
    groups.append(tuple(sorted(cur)))
    return groups


def parse_model(trace):
    """model tokens -> list of (status, [events]) per API call.  An API call is [Call 0 (op_prog o)]: the token "(0" opens
    it (nothing closes it: only the procedures inside execute a Return); its status is the last Return of a procedure
    called directly by it."""
    calls, depth, cur, status = [], 0, None, True
    for t in trace.split():
        c = t[0]
        if t == "(0":
            if cur is not None:
                calls.append((status, cur))
            cur, depth, status = [], 0, True
        elif c == "(":
            depth += 1
        elif c == ")":
            if depth == 1:
                status = t[1:] == "1"
            depth -= 1
        elif c in "AN":
            lbl, size = t[1:].split(":")
            cur.append(("A", int(size), c == "A", int(lbl)))
        elif c == "F":
            lbl, i = t[1:].split(":")
            cur.append(("F", int(i), int(lbl)))
        elif c == "M":
            fam, ids = t[1:].split(":")
            for i in [x for x in ids.split(",") if x]:
                cur.append(("F", int(i), int(fam)))
    if cur is not None:
        calls.append((status, cur))
    return calls


def same_groups(gr, gm):
    if len(gr) != len(gm):
        return False
    for a, b in zip(gr, gm):
        if isinstance(a, tuple) and a and a[0] in ("A", "N") and isinstance(a[0], str):
            if not (isinstance(b, tuple) and b and b[0] == a[0]):
                return False
            if b[1] != 0 and a[1] != b[1]:     # model size 0 = data-dependent size, not predicted
                return False
        else:
            if a != b:
                return False
    return True


def compare(calls, live, mres, opmap=None, check_live=True, nostatus=()):
    """first difference between the real calls and the model result, or None"""
    opmap = OPMAP if opmap is None else opmap
    mcalls = parse_model(mres["trace"])
    if mres["errs"]:
        return "the model itself reports an ownership error on this call sequence: " + mres["errs"]
    if len(mcalls) != len(calls):
        return "call count differs: real %d model %d" % (len(calls), len(mcalls))
    for i, (c, (mok, mev)) in enumerate(zip(calls, mcalls)):
        gr = canon(c["cev"])
        gm = canon([("A", e[1], e[2]) if e[0] == "A" else ("F", e[1]) for e in mev])
        if not same_groups(gr, gm):
            return "call #%d %s: allocation / free events differ: real %s model %s" % (i + 1, c["name"], gr, gm)
        res = c["res"]
        if res is not None and res != "" and c["name"] in opmap and c["name"] not in nostatus:   # unmodelled calls: only "no allocator event" is predicted
            rok = res == "ok"
            if rok != mok:
                return "call #%d %s: status differs: real %s model %s" % (i + 1, c["name"], res, "ok" if mok else "error")
    mlive = set(int(x) for x in mres["live"].split(",") if x)
    if check_live and mlive != live:
        return "live set at the end differs: real %s model %s" % (sorted(live), sorted(mlive))
    return None


# round 3: DCtx + multi-DDict set + borrowed DDicts (coq/Mem/AllocBorrow.v): scenarios replayed through AllocBorrow.run_bops
# (repaired ZSTD_DCtx_refDDict; the expansion test is decided by the number of allocation attempts the real call made).  The
# status of the decoding call is not compared: after a refused reference it fails for its content (dictionary_wrong)
BORROW_TIED = ("refddict_",)
BOPMAP = {"createDCtx": lambda c: "1", "freeDCtx": lambda c: "2", "refDDict": lambda c: "3:%d,%d" % (c["ps"][0], c["natt"]),
          "decompressDCtx": lambda c: "4", "DCtx_reset_params": lambda c: "5",
          "createDDict": lambda c: "6:%d,%d" % (c["ps"][0], c["ps"][1]), "freeDDict": lambda c: "7:%d" % c["ps"][0],
          "DCtx_loadDictionary": lambda c: "8:%d,0" % c["ps"][0], "dstream": lambda c: "9:%d,0" % (1 + min(1, c["natt"])),
          "DCtx_refPrefix": lambda c: "10"}


def tie_borrow(mexe, cases, scratch, tag):
    """cases: list of (d, calls, faults, live) -> [(d, first difference, model case text, model trace)]"""
    bad, lines, keep = [], [], []
    for i, (d, calls, faults, live) in enumerate(cases):
        stray_calls = [c for c in calls if c["name"] not in BOPMAP and c["cev"]]
        if stray_calls:
            bad.append((d, "a call the model does not know touches the allocator: %s %s" % (stray_calls[0]["name"], stray_calls[0]["cev"][:4]), "", ""))
            continue
        mc = [c for c in calls if c["name"] in BOPMAP]
        for c in mc:
            c["natt"] = sum(1 for e in c["cev"] if e[0] == "A")
        ops = ";".join(BOPMAP[c["name"]](c) for c in mc)
        lines.append("BCASE %d|%s|%s\n" % (i, ",".join(str(k) for k in faults) if faults else "-", ops))
        keep.append((i, d, mc, faults, live, ops))
    if not keep:
        return bad
    path = os.path.join(scratch, "model-borrow-%s.in" % tag)
    with open(path, "w") as f:
        f.write("".join(lines))
    rc, out, err = core.sh("%s < %s" % (mexe, path), timeout=600)
    if rc != 0 or "TOTAL" not in out:
        raise RuntimeError("C13 model driver failed on the borrowed-DDict cases rc=%d: %s" % (rc, (out[-300:] + err[-500:])))
    res = {}
    for ln in out.split("\n"):
        if ln.startswith("RES "):
            cid, trace, mlive, errs = ln[4:].split("|")
            res[cid] = dict(trace=trace, live=mlive, errs=errs)
    for i, d, mc, faults, live, ops in keep:
        m = res.get(str(i))
        diff = "no model result" if m is None else compare(mc, live, m, opmap=BOPMAP, nostatus=("decompressDCtx",))
        if diff:
            bad.append((d, diff, "BCASE x|%s|%s" % (",".join(map(str, faults)) or "-", ops), (m or {}).get("trace", "")))
    return bad


# legacy stream decoders (coq/Mem/AllocLegacy.v): scenarios replayed through AllocLegacy.run_lops
LEGACY_TIED = ("legacy_v07", "legacy_switch", "legacy_versions", "legacy_oneshot", "leg4_v04", "leg4_versions", "leg4_oneshot")
LOPMAP = {"createDCtx": lambda c: "1", "freeDCtx": lambda c: "2", "lstream": lambda c: "3:0,0",
          # round 3: a modern frame streamed on the same DCtx (1 = the buffer was kept, 2 = an allocation attempt was seen), a legacy frame decoded in one call
          "dstream": lambda c: "4:%d,0" % (1 + min(1, sum(1 for e in c["cev"] if e[0] == "A"))), "decompressDCtx": lambda c: "5"}


def tie_legacy(mexe, cases, scratch, tag):
    """cases: list of (d, calls, faults, live).  The model draws three data-dependent decisions per legacy frame (version
    switch, inBuff too small, outBuff too small); they are not reconstructed from the trace but SEARCHED call by call: the
    real behaviour of call i must be among the model's 8 behaviours for it, given the decisions already fixed for the
    earlier calls.  Returns [(d, first difference, model case text, model trace)] for the cases that cannot be matched."""
    st = []
    for d, calls, faults, live in cases:
        stray_calls = [c for c in calls if c["name"] not in LOPMAP and c["cev"]]
        mc = [c for c in calls if c["name"] in LOPMAP]
        st.append(dict(d=d, calls=mc, faults=faults, live=live, chosen="", dead=None, lidx=[i for i, c in enumerate(mc) if c["name"] == "lstream"],
                       early="a call the model does not know touches the allocator: %s %s" % (stray_calls[0]["name"], stray_calls[0]["cev"][:4]) if stray_calls else None))
    bad = []
    rounds = max([len(x["lidx"]) for x in st] + [0])
    for r in range(rounds + 1):
        batch = []
        for ci, x in enumerate(st):
            if x["dead"] or x["early"]:
                continue
            if r < len(x["lidx"]):
                upto = x["lidx"][r]
                for combo in range(8):
                    ch = x["chosen"] + format(combo, "03b")
                    batch.append(("%d-%d" % (ci, combo), x["faults"], ch, ";".join(LOPMAP[c["name"]](c) for c in x["calls"][:upto + 1]), ci, upto, ch))
            elif r == len(x["lidx"]) and not x.get("final"):
                x["final"] = True
                batch.append(("%d-f" % ci, x["faults"], x["chosen"] or "-", ";".join(LOPMAP[c["name"]](c) for c in x["calls"]), ci, None, x["chosen"]))
        if not batch:
            continue
        inp = "".join("LCASE %s|%s|%s|%s\n" % (b[0], ",".join(str(k) for k in b[1]) if b[1] else "-", b[2] or "-", b[3]) for b in batch)
        path = os.path.join(scratch, "model-legacy-%s-%d.in" % (tag, r))
        with open(path, "w") as f:
            f.write(inp)
        rc, out, err = core.sh("%s < %s" % (mexe, path), timeout=600)
        if rc != 0 or "TOTAL" not in out:
            raise RuntimeError("C13 model driver failed on the legacy cases rc=%d: %s" % (rc, (out[-300:] + err[-500:])))
        res = {}
        for ln in out.split("\n"):
            if ln.startswith("RES "):
                cid, trace, mlive, errs = ln[4:].split("|")
                res[cid] = dict(trace=trace, live=mlive, errs=errs)
        byc = {}
        for b in batch:
            byc.setdefault(b[4], []).append(b)
        for ci, bs in byc.items():
            x = st[ci]
            if bs[0][5] is None:   # the whole run with the decisions found: every call, the final live set
                m = res.get(bs[0][0])
                diff = "no model result" if m is None else compare(x["calls"], x["live"], m, opmap=LOPMAP)
                if diff:
                    x["dead"] = (diff, "LCASE x|%s|%s|%s" % (",".join(map(str, x["faults"])) or "-", x["chosen"] or "-", bs[0][3]), (m or {}).get("trace", ""))
                continue
            first = None
            for b in bs:
                m = res.get(b[0])
                diff = "no model result" if m is None else compare(x["calls"][:b[5] + 1], None, m, opmap=LOPMAP, check_live=False)
                if diff is None:
                    x["chosen"] = b[6]
                    break
                if first is None:
                    first = (diff, "LCASE x|%s|%s|%s" % (",".join(map(str, b[1])) or "-", b[2], b[3]), (m or {}).get("trace", ""))
            else:
                x["dead"] = ("none of the model's 8 behaviours of this call matches (decisions of the earlier calls: %s); with all three tests false: %s"
                             % (x["chosen"] or "-", first[0]), first[1], first[2])
    for x in st:
        if x["early"]:
            bad.append((x["d"], x["early"], "", ""))
        elif x["dead"]:
            bad.append((x["d"],) + x["dead"])
    return bad


def run_model(mexe, cases, scratch, tag):
    """cases: list of (id, faults, ops).  Returns ({id: dict(trace, live, errs)}, formulas_ok)"""
    inp = "".join("CASE %s|%s|%s\n" % (cid, ",".join(str(k) for k in faults) if faults else "-", ops) for cid, faults, ops in cases)
    path = os.path.join(scratch, "model-%s.in" % tag)
    with open(path, "w") as f:
        f.write(inp)
    rc, out, err = core.sh("%s < %s" % (mexe, path), timeout=600)
    if rc != 0 or "TOTAL" not in out:
        raise RuntimeError("C13 model driver failed rc=%d: %s" % (rc, (out[-300:] + err[-500:])))
    res, formulas = {}, None
    for ln in out.split("\n"):
        if ln.startswith("FORMULAS "):
            formulas = ln.split()[1] == "1"
        elif ln.startswith("RES "):
            cid, trace, live, errs = ln[4:].split("|")
            res[cid] = dict(trace=trace, live=live, errs=errs)
    return res, formulas


# --------------------------------------------------------------------------
# one batch = run the harness jobs, judge every line, tie the tied ones

class Batch:
    def __init__(self, ctx, exe, mexe, variant):
        self.ctx, self.exe, self.mexe, self.variant = ctx, exe, mexe, variant
        self.reported = set()
        self.sampled = set()
        self.oracle_hits = []
        self.tie_breaks = []
        self.nb = 0
        self.ncases = 0

    def process(self, jobs, tag, timeout_s, wall, tie=True, res=None):
        ctx = self.ctx
        self.nb += 1
        if res is None:
            res = run_many(self.exe, jobs, timeout_s, wall)
        cases = []
        lcases = []
        bcases = []
        allocs_of = {}
        for args, lines, err, rc in res:
            if rc not in (0,) or not lines:
                self.report_oracle(dict(s=args[1] if len(args) > 1 else "?", k=[], signal=0, exit=rc), ("harness", "harness run %s ended with rc=%s and %d lines: %s" % (args, rc, len(lines), err[-400:])))
            for d in lines:
                self.ncases += 1
                sc = d.get("s", "?")
                if not d.get("k"):
                    allocs_of[sc] = d.get("allocs", 0)
                hits = judge(d, self.variant)
                site = failing_site(d)
                sig = (sc, site, tuple(h[0] for h in hits))
                ctx.count(sig, nontrivial=bool(d.get("k")) and (d.get("failed", 0) > 0 or "signal" in d))
                hist = ctx.notes.setdefault("cases_per_family", {})
                fam = sc.split("_")[0]
                hist[fam] = hist.get(fam, 0) + 1
                if d.get("optional"):
                    ctx.notes["success_despite_alloc_failure"] = ctx.notes.get("success_despite_alloc_failure", 0) + 1
                for h in hits:
                    if h[0] == "sanitizer" or (h[0] in ("crash", "exit") and self.variant == "asan"):
                        d = dict(d)
                        d["stderr_tail"] = err[-1500:]
                    self.report_oracle(d, h)
                if len(ctx.cov["samples"]) < 8 and d.get("k") and not hits and d.get("failed") and fam not in self.sampled and fam in ("mt", "unit", "dstream", "multi", "train", "load", "cdict", "compress"):
                    self.sampled.add(fam)
                    ctx.sample(dict(scenario=sc, failing_allocation_indexes=d["k"], calls=d.get("ops", "")[:300], events=d.get("ev", "")[:600]))
                if tie and sc.startswith(TIED_PREFIXES) and "signal" not in d and "ev" in d:
                    calls, stray = parse_real(d["ev"])
                    faults, live = renumber(calls, stray)
                    cid = "%s-%d-%d" % (tag, self.nb, len(cases))
                    cases.append((cid, faults, model_case(calls), d, calls, live, stray))
                if tie and sc.startswith(BORROW_TIED) and "signal" not in d and "ev" in d:
                    calls, stray = parse_real(d["ev"])
                    faults, live = renumber(calls, stray)
                    bcases.append((d, calls, faults, live))
                if tie and sc.startswith(LEGACY_TIED) and "signal" not in d and "ev" in d:
                    calls, stray = parse_real(d["ev"])
                    faults, live = renumber(calls, stray, plain_custom=True)
                    lcases.append((d, calls, faults, live))
        ctx.notes.setdefault("allocs_per_scenario", {}).update(allocs_of)
        if bcases:
            for d, diff, mcase, mtrace in tie_borrow(self.mexe, bcases, ctx.scratch, "%s-%d" % (tag, self.nb)):
                self.tie_breaks.append((dict(kind="tie", scenario=d["s"], k=d.get("k", []), variant=self.variant, first_difference=diff,
                                             model_case=mcase, real_events=d.get("ev", "")[:3000], model_trace=mtrace[:3000]), diff))
            ctx.cov["traces_validated_against_impl"] += len(bcases)
            ctx.notes["borrowed_ddict_cases_tied"] = ctx.notes.get("borrowed_ddict_cases_tied", 0) + len(bcases)
        if lcases:
            for d, diff, mcase, mtrace in tie_legacy(self.mexe, lcases, ctx.scratch, "%s-%d" % (tag, self.nb)):
                self.tie_breaks.append((dict(kind="tie", scenario=d["s"], k=d.get("k", []), variant=self.variant, first_difference=diff,
                                             model_case=mcase, real_events=d.get("ev", "")[:3000], model_trace=mtrace[:3000]), diff))
            ctx.cov["traces_validated_against_impl"] += len(lcases)
            ctx.notes["legacy_cases_tied"] = ctx.notes.get("legacy_cases_tied", 0) + len(lcases)
        if cases:
            mres, formulas = run_model(self.mexe, [(c[0], c[1], c[2]) for c in cases], ctx.scratch, "%s-%d" % (tag, self.nb))
            if formulas is False and "formulas" not in self.reported:
                self.reported.add("formulas")
                self.tie_breaks.append((dict(kind="formulas"), "the model's size formulas (BUF_POOL_MAX_NB_BUFFERS, SEQ_POOL_MAX_NB_BUFFERS, jobs-table size) no longer agree with the macros of the current headers"))
            for cid, faults, ops, d, calls, live, stray in cases:
                m = mres.get(cid)
                diff = "no model result" if m is None else compare(calls, live, m)
                if diff is None and [e for e in stray if e[0] in "ANF"]:
                    diff = "allocator events outside any API call: %s" % stray[:5]
                ctx.cov["traces_validated_against_impl"] += 1
                if diff is not None:
                    self.tie_breaks.append((dict(kind="tie", scenario=d["s"], k=d.get("k", []), variant=self.variant, first_difference=diff,
                                                 model_case="CASE x|%s|%s" % (",".join(map(str, faults)) or "-", ops), real_events=d.get("ev", "")[:3000],
                                                 model_trace=(m or {}).get("trace", "")[:3000]), diff))
        return res

    def report_oracle(self, d, hit):
        cls, txt = hit
        fk = finding_key(d, cls, self.variant)
        key = ("finding", fk, "") if fk else (d.get("s"), cls, txt[:60])   # a finding with a stable key is reported once (per batch)
        self.oracle_hits.append((d, hit))
        if key in self.reported or (not fk and len([k for k in self.reported if k[0] != "finding"]) >= MAX_REPORT):
            return
        self.reported.add(key)
        replay = dict(kind="fault", scenario=d.get("s"), k=d.get("k", []), variant=self.variant, rseed=RSEED[0],
                      observed=dict(cls=cls, detail=txt, calls=d.get("ops", "")[-1500:], events=d.get("ev", "")[-3000:], stderr=d.get("stderr_tail", "")))
        self.ctx.violation(replay, what="C13 violated on the real code: scenario %s with allocation(s) %s failing: %s: %s"
                           % (d.get("s"), d.get("k", []), cls, txt[:300]) + (" [library built with -DDEBUGLEVEL=1]" if self.variant == "dbg" else ""),
                           key=fk)

    def report_ties(self):
        """a broken tie is reported once per scenario; when the direct oracle already produced a concrete failing case for
        that scenario the tie break adds nothing"""
        ctx = self.ctx
        seen = set()
        bad_scen = set(d.get("s") for d, _ in self.oracle_hits)
        n = 0
        for replay, diff in self.tie_breaks:
            sc = replay.get("scenario", "formulas")
            if sc in seen or sc in bad_scen:
                continue
            seen.add(sc)
            n += 1
            if n > 4:
                break
            # SEARCH: the direct oracle ran on every k of this scenario; nothing failed there, so report the disagreement itself
            ctx.violation(replay, what="C13 tie broken (allocation-event trace of the real code differs from the model), scenario %s k=%s: %s"
                          % (sc, replay.get("k"), diff[:400]), no_input=True)


# --------------------------------------------------------------------------

def jobs_for(scens, rng, quick, pairs):
    jobs = []
    for name, heavy in scens:
        jobs.append(["sweep", name])
    for name, heavy in scens:
        seed = rng.randrange(1, 1 << 30)
        if pairs and not (quick and heavy):   # quick tier: the heavy scenarios get every single k, no sampled multiple faults
            jobs.append(["pairs", name, str(seed), str(pairs)])
    return jobs


def run(ctx):
    ctx.cov["rule"] = ("a case = (scenario of the catalogue in harness/c13_fault.c: create / params / dictionaries by copy, by reference, CDict, DDict, "
                       "multiple DDicts / one-shot, streaming, growing and shrinking workspaces / multithreaded compression with 1..4 workers, LDM, "
                       "dictionary, rsyncable, worker-count changes / decompression one-shot and streaming with window growth / dictionary training "
                       "cover, fastcover, legacy, optimisers with threads, finalize / free; set of failing allocation indexes): for every scenario the "
                       "fault-free run, then EVERY single failing index k in 1..allocs(scenario) (exhaustive), then second / third faults sampled from a "
                       "PRNG seeded by VERIF_SEED; evaluations = cases run; a case is non-trivial when an injected failure was actually hit; distinct = "
                       "distinct (scenario, API call in which the first failure hit, ordinal of the failing attempt inside that call, oracle verdict)")
    variant = "o1"
    RSEED[0] = ctx.seed
    exe = build_harness(variant)
    mexe = core.build_extracted("c13model", "Extract/Extract_C13.v", "c13_driver.ml")
    if ctx.replay_file:
        return replay(ctx, mexe)
    rng = random.Random(ctx.seed * 7919 + 13)
    scens_all = list_scenarios(exe)
    leg4 = [(n, h) for n, h in scens_all if n.startswith("leg4_")]   # v0.4 frames: only a ZSTD_LEGACY_SUPPORT <= 4 build decodes them
    scens = [(n, h) for n, h in scens_all if not n.startswith("leg4_")]
    b = Batch(ctx, exe, mexe, variant)
    t0 = time.time()
    # 1. the whole catalogue, exhaustive over k, + sampled multiple faults
    b.process(jobs_for(scens, rng, ctx.quick, 25 if ctx.quick else 400), "main", timeout_s=40 if ctx.quick else 90, wall=900)
    ctx.notes["catalogue_wall_s"] = round(time.time() - t0, 1)
    core.log("C13: catalogue (exhaustive k + sampled multiple faults) + tie: %.1fs, %d cases" % (time.time() - t0, ctx.cov["evaluations"]))
    ctx.notes["scenarios"] = len(scens)
    ctx.notes["exhaustive_over_k_for_every_scenario"] = True
    # 2. multithreaded scenarios again (the allocation order there depends on the thread schedule)
    mt = [(n, h) for n, h in scens if n.startswith(("mt_", "mt2_", "mt3_", "copy2_mt", "thr_mt_", "thr_threadpool", "train_opt")) and not (ctx.quick and h)]
    for rep in range(2 if ctx.quick else 12):
        b.process([["sweep", n] for n, h in mt], "mt%d" % rep, timeout_s=40 if ctx.quick else 90, wall=900, tie=False)
    core.log("C13: + MT repeats: %.1fs" % (time.time() - t0))
    # 2a. more random histories: the rand_* scenarios again with other sequence seeds (every k each)
    rnd = [(n, h) for n, h in scens if n.startswith(("rand_", "randx_"))]
    for i in range(1 if ctx.quick else 15):
        RSEED[0] = ctx.seed * 1000 + 1 + i
        b.process([["sweep", n] for n, h in rnd], "rand%d" % i, timeout_s=40 if ctx.quick else 90, wall=900, tie=False)
    ctx.notes["random_histories"] = len(rnd) * (1 + (1 if ctx.quick else 15))
    RSEED[0] = ctx.seed
    core.log("C13: + random histories: %.1fs" % (time.time() - t0))
    # 2b. debug build (-DDEBUGLEVEL=1): every mutex / condition is one more libc allocation of the library (threading.c) and the
    # asserts are compiled in: the pool / multithreaded / threaded-trainer scenarios, every k (direct oracle only: the model
    # does not know those extra allocations)
    exd = build_harness("dbg")
    bd = Batch(ctx, exd, mexe, "dbg")
    dbg_scens = [(n, h) for n, h in scens if n.startswith(DBG_PREFIXES)] if ctx.quick else [(n, h) for n, h in scens if not n.startswith("thr_")]
    bd.process(jobs_for(dbg_scens, rng, ctx.quick, 0 if ctx.quick else 50), "dbg", timeout_s=40 if ctx.quick else 90, wall=900, tie=False)
    b.oracle_hits += bd.oracle_hits
    ctx.notes["debug_build_scenarios"] = len(dbg_scens)
    core.log("C13: + debug-build sweep: %.1fs" % (time.time() - t0))
    # 2c. round 3: a ZSTD_LEGACY_SUPPORT=1 build (dispatches v0.1 ... v0.7): the v0.4 stream decoder behind ZSTD_decompressStream
    # (ZBUFFv04_*; plain malloc), every k + sampled multiple faults; tied to AllocLegacy.run_lops like the v0.5 - v0.7 scenarios
    exl = build_harness("leg1")
    bl = Batch(ctx, exl, mexe, "leg1")
    bl.process(jobs_for(leg4, rng, ctx.quick, 25 if ctx.quick else 400), "leg1", timeout_s=40 if ctx.quick else 90, wall=900)
    b.oracle_hits += bl.oracle_hits
    b.tie_breaks += bl.tie_breaks
    ctx.notes["legacy_support_1_build_scenarios"] = len(leg4)
    core.log("C13: + ZSTD_LEGACY_SUPPORT=1 build (v0.4 stream decoder): %.1fs" % (time.time() - t0))
    # 3. proof step
    ctx.prove()
    core.log("C13: + proof step: %.1fs" % (time.time() - t0))
    ctx.proof_verdict(lambda broken: [])
    # 4. thorough: ASan + UBSan build of library and harness, whole catalogue, exhaustive over k, + multiple faults
    if not ctx.quick and len(ctx.violations) == 0:
        exa = build_harness("asan")
        ba = Batch(ctx, exa, mexe, "asan")
        ba.process(jobs_for(scens, rng, False, 100), "asan", timeout_s=240, wall=1500)
        b.oracle_hits += ba.oracle_hits
        b.tie_breaks += ba.tie_breaks
        # round 3: a custom allocator whose blocks are 8- but not 16-byte aligned (C13_MISALIGN=8), fault-free run and every k of the
        # scenarios that create their objects with it, under ASan + UBSan (alignment checks)
        os.environ["C13_MISALIGN"] = "8"
        try:
            bm = Batch(ctx, exa, mexe, "asan")
            bm.process([["sweep", n] for n, h in scens if n.startswith(("cctx_", "compress_l", "load_dict_", "cdict_", "cstream", "mt_oneshot", "mt_ldm", "unit_", "dctx_", "dstream_grow", "ddict_", "multi_ddict_20", "copy_", "refddict_"))],
                       "misalign", timeout_s=240, wall=1500, tie=False)
            b.oracle_hits += bm.oracle_hits
            ctx.notes["misaligned_allocator_cases"] = bm.ncases
        finally:
            del os.environ["C13_MISALIGN"]
        # coqchk re-validates the meta-theory (soundness of the analysis for every program / oracle, history lemmas).  The
        # instance files are not given to coqchk: their vm_compute steps (closed sets of ~10^4 abstract states) are checked
        # by coqc's kernel on every build, and coqchk has no VM (it would re-run them with lazy conversion for hours).
        rc, out, err = core.sh(["timeout", "900", "coqchk", "-silent", "-o", "-Q", ".", "ZV", "ZV.Mem.AllocSetProofs", "ZV.Mem.AllocHistory", "ZV.Mem.AllocHistoryG"], cwd=core.COQ)
        txt = " ".join((out + err).split())
        ctx.notes["coqchk"] = txt[-400:]
        if rc != 0 or "Axioms: <none>" not in txt:
            ctx.violation(dict(kind="coqchk", rc=rc, output=txt[-2000:]), what="coqchk does not validate the C13 meta-theory (AllocSetProofs, AllocHistory, AllocHistoryG) axiom-free", no_input=True)
    b.report_ties()
    ctx.cov["exhaustive"] = False
    ctx.assumptions += [
        "the fault model is the one of the property: the k-th request to the caller's allocator (or, for the trainers and the default "
        "allocator, to libc malloc/calloc) returns NULL; failures of pthread_create / mutex initialisation are not injected",
        "multithreaded scenarios: the allocation order depends on the thread schedule, so the index k does not name the same site in every "
        "run; every k is still injected (and the scenarios are repeated), but no schedule enumeration is done here (C11/C12 own that)",
        "the tie compares ownership skeletons (which call allocates / frees which block, in which order relative to the allocation attempts, "
        "sizes of sizeof-determined blocks, status), not the content of the objects; C-level undefined behaviour on an error path is visible "
        "only to the direct oracle (signal, ASan/UBSan in the thorough tier)",
    ]


def replay(ctx, mexe):
    obj = json.load(open(ctx.replay_file))
    r = obj.get("replay", obj)
    kind = r.get("kind")
    if kind not in ("fault", "tie"):
        core.log("replay: nothing executable in this file (kind=%s); re-running the proof step" % kind)
        ctx.prove()
        ctx.proof_verdict(None)
        return
    variant = r.get("variant", "o1")
    RSEED[0] = r.get("rseed", ctx.seed)
    exe = build_harness(variant)
    ks = ",".join(str(k) for k in r.get("k", [])) or "0"
    # "one" runs the case in-process: wrap it so that a crash is seen as a signal line
    res = run_many(exe, [["one", r["scenario"], ks]], 120, 300)
    args, lines, err, rc = res[0]
    if rc != 0 and not [d for d in lines if "signal" in d]:
        lines.append(dict(s=r["scenario"], k=r.get("k", []), signal=(-rc if rc < 0 else 0), exit=rc, stderr_tail=err[-1500:]))
    b2 = Batch(ctx, exe, mexe, variant)
    b2.process([["one", r["scenario"], ks]], "replay", 120, 300, res=[(args, lines, err, 0)])
    b2.report_ties()
    ctx.sample(dict(replayed=r.get("scenario"), k=r.get("k", []), lines=[{k: v for k, v in d.items() if k != "ev"} for d in lines][:2]))
    if not ctx.violations:
        core.log("replay: the recorded case no longer fails")
    ctx.prove()
    ctx.proof_verdict(None)
