"""C08 - dictionary compression round-trips for every dictionary, mode and input.

Theorems: coq/Props/Properties_C08.v (raw-content fallback, validity of loaded repeat offsets, wrong-ID refusal,
ID consistency of accepted frames, totality of the dictionary-seeded literal statistics).
Per run: dictionaries = raw content of odd sizes, the repository's golden / zero-weight dictionaries, and
ADVERSARIAL but structurally valid ones built by harness/c08_mkdict.c with the entropy writers of the current tree
(missing symbols, zero weights, depth-12 Huffman, table logs at the limits, repeat offsets at 1 / content size,
invalid repeat offsets); inputs are built to use the dictionary content and symbols absent from its tables.
Checked: loader agreement (CDict / DDict / R / all ID queries), round trip for every supply mode on both sides
through libzstd AND through the extracted reference decoder R, dictID recorded in the frame, wrong-ID decode refused,
and arbitrary bytes as dictionary under ASan+UBSan."""
import json
import os
import random
import re
import shutil
import time

from .. import codec, core

MAGIC = bytes.fromhex("37a430ec")
OFP_CONTENT = b""
ADV_INFO = {}
CMODES = [("usingDict", "-"), ("usingCDict", "-"), ("compress2", "load"), ("compress2", "loadref"), ("compress2", "cdict"),
          ("compress2", "cdictref"), ("compress2", "prefix"), ("blcdict", "-"), ("compress2", "cdictraw"), ("compress2", "loadraw")]
# dictionary IDs at every width threshold of the frame header's Dictionary_ID field
DICT_IDS = [1, 255, 256, 65535, 65536, 65537, 65791, 65792, 32768, 77777, 2 ** 31 - 1, 2 ** 32 - 1, 254, 257, 65600, 2 ** 24]
RAWMODES = ("prefix", "cdictraw", "loadraw")      # the dictionary bytes are content only: the frame names no dictionary
DMODES = ["usingDict", "ddict", "ddictref", "loaddict", "multiddict", "multiddict2"]


def rand_norm(rng, nsyms_max, logmax, logmin=5, full=False):
    """a random normalized distribution 'log:n0,n1,...' (sum = 2^log) over at most nsyms_max symbols"""
    log = rng.randint(logmin, logmax)
    total = 1 << log
    n = nsyms_max if full else rng.randint(2, nsyms_max)
    present = [True] * n if full or rng.random() < 0.3 else [rng.random() < 0.7 for _ in range(n)]
    present[-1] = True
    if sum(present) < 2:
        present[0] = True
    idx = [i for i, p in enumerate(present) if p]
    if len(idx) > total:
        idx = idx[-total:]
        present = [i in idx for i in range(n)]
    vals = [0] * n
    left = total
    lowprob = rng.random() < 0.4
    for j, i in enumerate(idx):
        remaining_syms = len(idx) - j - 1
        if remaining_syms == 0:
            v = left
        else:
            v = max(1, min(left - remaining_syms, int(rng.expovariate(1.0) * left / max(1, len(idx) - j)) + 1))
        vals[i] = v
        left -= v
    if lowprob:
        for i in idx:
            if vals[i] == 1 and rng.random() < 0.5:
                vals[i] = -1
    return "%d:%s" % (log, ",".join(str(v) for v in vals))


def rand_huf(rng):
    r = rng.random()
    if r < 0.35:   # complete 256-symbol table, depth up to 11 or 12
        mb = rng.choice([11, 11, 12])
        counts = [max(1, int(rng.expovariate(1.0) * 50)) for _ in range(256)]
        for i in rng.sample(range(256), 14):
            counts[i] = 1 << rng.randint(10, 24)
        return "%d:%s" % (mb, ",".join(map(str, counts)))
    if r < 0.7:    # missing symbols
        mb = rng.choice([8, 10, 11, 12])
        n = rng.choice([40, 128, 200, 256])
        counts = [0 if rng.random() < 0.4 else max(1, int(rng.expovariate(1.0) * 30)) for _ in range(n)]
        counts[-1] = max(counts[-1], 1)
        counts[0] = max(counts[0], 1)
        return "%d:%s" % (mb, ",".join(map(str, counts)))
    # direct weights (<=128 listed symbols + the implied last one): depths of a random complete binary tree, with absent symbols (weight 0)
    nleaves = rng.choice([2, 3, 9, 31, 64, 100])
    depths = [0]
    while len(depths) < nleaves:
        i = rng.randrange(len(depths))
        if depths[i] >= 11:
            continue
        dd = depths.pop(i)
        depths += [dd + 1, dd + 1]
    md = max(depths)
    w = [md + 1 - dd for dd in depths]
    rng.shuffle(w)
    last = w.pop()           # implied by the decoder; must be the weight that completes the power of two: any leaf works
    out = []
    for v in w:
        while rng.random() < 0.3 and len(out) < 120:
            out.append(0)    # absent symbol
        out.append(v)
    return "direct:" + ",".join(map(str, out[:127]))


def make_dicts(ctx, rng, mk):
    ds = []   # (name, bytes)
    for n in (0, 1, 7, 8, 9, 100, 3000, 70000):
        ds.append(("raw%d" % n, codec.gen_input(rng, "text", n) if n else b""))
    ds.append(("rawmagicshort", MAGIC + b"abc"))
    for fn in ("tests/golden-dictionaries/http-dict-missing-symbols", "tests/dict-files/zero-weight-dict"):
        try:
            ds.append((fn.split("/")[-1], open(core.REPO + "/" + fn, "rb").read()))
        except OSError:
            pass
    content_pool = [codec.gen_input(rng, k, n) for k, n in (("text", 2000), ("lowent", 500), ("rep3", 3000), ("text", 40), ("random", 64))]
    lines = []
    nadv = 30 if ctx.quick else 250
    for i in range(nadv):
        content = rng.choice(content_pool)
        cl = len(content)
        reps = rng.choice([(1, 4, 8), (1, 1, 1), (cl, cl, cl), (cl, 1, rng.randint(1, cl)), (rng.randint(1, cl), rng.randint(1, cl), rng.randint(1, cl)),
                           (0, 4, 8), (cl + 1, 4, 8), (1, 4, 0)])
        ADV_INFO["adv%d" % i] = (reps, content)
        lines.append("M adv%d %d %s %s %s %s %d,%d,%d %s" % (i, DICT_IDS[i % len(DICT_IDS)], rand_huf(rng),
                                                              rand_norm(rng, 32, 8), rand_norm(rng, 53, 9), rand_norm(rng, 36, 9),
                                                              reps[0], reps[1], reps[2], codec.hx(content)))
    # the F6 witness shape: complete depth-12 Huffman + short LL table
    counts = ",".join(str(1 << (24 - i)) if i < 14 else "1" for i in range(256))
    lines.append("M advF6 1234 12:%s 5:%s 6:%s 6:%s 1,4,8 %s" % (counts, ",".join(["1"] * 32), ",".join(["1"] * 52 + ["12"]),
                                                                   ",".join(["3"] * 20 + ["4"]), codec.hx(content_pool[0])))
    # offset-code table covering exactly the codes the FIRST block can need (0..highbit(content + 128 KiB)), all non-zero:
    # the loader may trust it for the first block only; later blocks reach further (repeat-mode selection must re-check)
    global OFP_CONTENT
    OFP_CONTENT = rng.randbytes(65536)
    kmax = (len(OFP_CONTENT) + 131072).bit_length() - 1
    ofn = [4] * (64 - 3 * (kmax + 1)) + [3] * ((kmax + 1) - (64 - 3 * (kmax + 1)))
    lines.append("M advOFpartial 4242 11:%s 6:%s 9:%s 9:%s 1,4,8 %s" % (",".join(["3"] * 100 + ["2"] * 100 + ["1"] * 56), ",".join(map(str, ofn)),
                 ",".join(["10"] * 35 + ["9"] * 18), ",".join(["15"] * 8 + ["14"] * 28), codec.hx(OFP_CONTENT)))
    out, errs = mk(lines)
    built = 0
    for l in lines:
        i = l.split(" ")[1]
        r = out.get(i, "ERR missing").split(" ")
        if r[0] == "OK":
            ds.append((i, bytes.fromhex(r[1])))
            built += 1
    ctx.notes["adversarial_dicts_built"] = built
    ctx.notes["adversarial_dicts_requested"] = len(lines)
    return ds


def input_for(rng, d, name):
    """input that uses the dictionary content, plus bytes outside any small alphabet"""
    content = d[8:] if d[:4] == MAGIC else d
    tail = content[-3000:] if len(content) > 0 else b""
    parts = []
    for _ in range(rng.randint(1, 6)):
        if tail and rng.random() < 0.7:
            a = rng.randrange(len(tail))
            parts.append(tail[a:a + rng.choice([4, 20, 200, 2000])])
        parts.append(codec.gen_input(rng, rng.choice(["text", "random", "lowent", "rep3", "zeros"]), rng.choice([0, 1, 10, 300, 3000])))
    x = b"".join(parts)
    if rng.random() < 0.2:
        x = x[:rng.choice([0, 1, 5])]
    if rng.random() < 0.15:
        x = x * 30          # push past small windows so that the dictionary scrolls out
    return x[:200000]


# ---------------------------------------------------------------------------------------------------------------------
# Round 2: the API surface beyond zv_codec (harness/c08_api.c): every recipe = compression API family x advanced parameters x
# way of supplying the dictionary x number of frames, then EVERY decoding path, the ID queries and the wrong-ID refusal.
API_KEYS = [("records dictID 0,", "C08-dictid-dropped-by-cdict-digested-under-nodictid"), ("records dictID", "C08-api-dictid-recorded-against-flag"),
            ("getDictID_fromCDict", "C08-dictid-dropped-by-cdict-digested-under-nodictid"),
            ("loader_disagreement", "C08-api-loader-disagreement"), ("loader disagreement", "C08-api-loader-disagreement"),
            ("accepted with a dictionary of ID", "C08-api-wrong-id-accepted"), ("accepted without any dictionary", "C08-api-wrong-id-accepted"),
            ("ZSTD_dct_fullDict accepted", "C08-api-fulldict-accepts-raw"), ("compression failed", "C08-api-compress-failed"),
            ("gives different bytes", "C08-api-round-trip"), ("decode", "C08-api-round-trip")]


def api_key(what):
    for pat, key in API_KEYS:
        if pat in what:
            return key
    return "C08-api-other"


def api_run(ctx, exe, lines, nproc=None, timeout=2400, variant="o1", keyhint=None):
    """runs R/T/B lines of c08_api; reports FAIL lines and crashes; returns {id: rest}"""
    byid = {l.split(" ")[1]: l for l in lines}
    out, errs = codec._run_chunks(exe, lines, nproc or core.NCPU, timeout)
    for i, rest in out.items():
        if rest.startswith("FAIL"):
            f = dict(kv.split("=", 1) for kv in rest.split(" ")[1:] if "=" in kv)
            t = byid[i].split(" ")
            t[3], t[4] = f.get("k", t[3]), "1"
            what = f.get("what", "?").replace("_", " ")
            ctx.violation(dict(kind="api", variant=variant, line=" ".join(t), recipe=f.get("recipe", "").replace("_", " "), what=what),
                          what="dictionary API recipe fails: %s [%s]" % (what, f.get("recipe", "").replace("_", " ")[:400]), key=keyhint or api_key(what))
    missing = [i for i in byid if i not in out]
    if errs or missing:
        # a crash loses the rest of its chunk: re-run the lines without an answer one per process to name the culprit
        culprit = None
        for i in missing[:40]:
            o2, e2 = codec._run_chunks(exe, [byid[i]], 1, timeout)
            if e2 or i not in o2:
                culprit = (i, (e2[0][1] if e2 else "no output")[-1500:])
                break
            out.update(o2)
        detail = culprit[1] if culprit else (errs[0][1][-1500:] if errs else "")
        ctx.violation(dict(kind="api", variant=variant, line=byid[culprit[0]] if culprit else None, detail=detail),
                      what="c08_api (%s build) crashed or trapped on a dictionary recipe (line %s, exit codes %s): %s" % (
                          variant, culprit[0] if culprit else "?", sorted(set(e[0] for e in errs)), detail[-400:].replace("\n", " ")),
                      key=keyhint or ("C08-api-sanitizer" if variant == "asan" else "C08-api-crash"))
    return out


def hostile_variant(rng, d, hl):
    b = bytearray(d)
    r = rng.random()
    if r < 0.5:
        for _ in range(rng.randint(1, 4)):
            b[rng.randrange(8, min(hl + 12, len(b)))] = rng.randrange(256)
    elif r < 0.7:
        b = b[:rng.randrange(8, min(hl + 14, len(b)))]
    elif r < 0.85:
        b[rng.randrange(8, max(9, hl))] ^= 1 << rng.randrange(8)
    else:
        b = b[:hl] + b[hl:hl + rng.choice([0, 1, 2, 7, 8, 9])]
    return bytes(b)


def api_surface(ctx, rng, cd, dicts, verdict):
    q = ctx.quick
    exe = core.build_harness("c08_api", ["c08_api.c"], variant="o1", extra_flags=["-w"])
    exa = core.build_harness("c08_api", ["c08_api.c"], variant="asan", extra_flags=["-w"])
    seed = ctx.seed * 1000003 + 17
    inputs = {}
    lines, alines, frames_for_R = [], [], {}
    per, step = (100, 25) if q else (6000, 100)
    for i, (name, d) in enumerate(dicts):
        if name == "advOFpartial":
            continue
        x = input_for(rng, d, name)[:60000]
        if len(x) < 50:
            x = input_for(rng, d, name)[:60000] + codec.gen_input(rng, "text", 400)
        inputs[i] = x
        for j in range(0, per, step):
            lines.append("R a%d.%d %d %d %d 4 %s %s" % (i, j, seed, j, step, codec.hx(d), codec.hx(x)))
        for j in range(per, per + (30 if q else 800), 10):
            alines.append("R s%d.%d %d %d 10 0 %s %s" % (i, j, seed, j, codec.hx(d), codec.hx(x)))
    # inputs of several blocks (reload instead of attach / copy above 128 KiB and 6 x dictionary size; the dictionary scrolls out of the window)
    for i in rng.sample(sorted(inputs), 6 if q else 30):
        name, d = dicts[i]
        parts = [inputs[i]]
        while sum(map(len, parts)) < 300000:
            parts.append(codec.gen_input(rng, rng.choice(["text", "lowent", "random", "rep3"]), rng.choice([3000, 30000, 100000])))
            parts.append(input_for(rng, d, name)[:5000])
        x = b"".join(parts)[:rng.choice([131072, 140000, 262144, 400000])]
        lines.append("R l%d %d %d %d 0 %s %s" % (i, seed, 5000, 5 if q else 60, codec.hx(d), codec.hx(x)))
    # multithreaded frames with a dictionary (1.4 MB generated from dictionary + input pieces, 512 KiB jobs)
    for i in rng.sample(sorted(inputs), 3 if q else 12):
        lines.append("R m%d %d %d %d 1 %s %s" % (i, seed, 7000, 3 if q else 25, codec.hx(dicts[i][1]), codec.hx(inputs[i][:20000])))
    # formatted dictionaries with a large content (around 128 KiB and the window sizes), references anywhere into them
    fm = [(n, d) for n, d in dicts if n in ADV_INFO and min(ADV_INFO[n][0]) >= 1 and max(ADV_INFO[n][0]) <= len(ADV_INFO[n][1])]
    for k in range(4 if q else 24):
        if not fm:
            break
        n, d = rng.choice(fm)
        hdr = d[:len(d) - len(ADV_INFO[n][1])]
        size = rng.choice([70000, 131072 - 20, 131072, 140000, 262144 + 5, 300000])
        newc = codec.gen_input(rng, rng.choice(["text", "lowent", "rep3"]), size)
        parts = []
        for _ in range(rng.randint(3, 12)):
            a = rng.randrange(len(newc) - 2000)
            parts.append(newc[a:a + rng.choice([20, 200, 2000])])
            parts.append(codec.gen_input(rng, rng.choice(["text", "random", "lowent"]), rng.choice([10, 300, 3000, 30000])))
        x = b"".join(parts)
        if rng.random() < 0.4:
            x = (x * 10)[:400000]
        lines.append("R g%d %d %d %d 0 %s %s" % (k, seed, 9000, 5 if q else 40, codec.hx(hdr + newc), codec.hx(x)))
    # formatted dictionaries with a tiny content (1..8 bytes: nothing to index, repeat offsets still live)
    for k, n_c in enumerate([1, 2, 3, 7, 8, 9]):
        if not fm:
            break
        n, d = fm[k % len(fm)]
        hdr = bytearray(d[:len(d) - len(ADV_INFO[n][1])])
        c = codec.gen_input(rng, "text", n_c)
        hdr[-12:] = b"".join(min(v, n_c).to_bytes(4, "little") for v in (1, n_c, max(1, n_c - 1)))
        x = (c * 30) + codec.gen_input(rng, "text", 500) + c * 5
        lines.append("R t%d %d %d %d 0 %s %s" % (k, seed, 11000, 10 if q else 100, codec.hx(bytes(hdr) + c), codec.hx(x)))
        alines.append("R u%d %d %d %d 0 %s %s" % (k, seed, 12000, 5 if q else 50, codec.hx(bytes(hdr) + c), codec.hx(x)))
    # hostile dictionaries: damaged headers of accepted ones; whatever one loader accepts the other accepts; no trap under ASan+UBSan
    pool = [(n, d, len(d) - len(ADV_INFO[n][1])) for n, d in fm] + [(n, d, max(9, len(d) - 300)) for n, d in dicts if n.startswith(("http", "zero"))]
    for k in range(120 if q else 3000):
        if not pool:
            break
        n, d, hl = rng.choice(pool)
        x = inputs.get([nn for nn, _ in dicts].index(n), b"abc" * 100)[:20000]
        alines.append("R h%d %d 0 %d 2 %s %s" % (k, seed + k, 10 if q else 30, codec.hx(hostile_variant(rng, d, hl)), codec.hx(x)))
    t0 = time.time()
    # bytes that carry the dictionary magic but stop at or right after the 8-byte header: refused by both sides, never "no dictionary"
    for k, tail in enumerate([b"", b"\x00", b"\x01\x02", b"\xff" * 4, b"\x00" * 12, b"\x00" * 40]):
        dd = MAGIC + (4242 + k).to_bytes(4, "little") + tail
        lines.append("R e%d %d 0 %d 2 %s %s" % (k, seed, 10 if q else 60, codec.hx(dd), codec.hx(codec.gen_input(rng, "text", 600))))
    out = api_run(ctx, exe, lines, variant="o1")
    t1 = time.time()
    aout = api_run(ctx, exa, alines, nproc=8, variant="asan")
    core.log("c08 api recipes: o1 %d lines %.1fs, asan %d lines %.1fs" % (len(lines), t1 - t0, len(alines), time.time() - t1))
    tot = dict(ran=0, frames=0, refused=0, skipped=0)
    for o in (out, aout):
        for i, rest in o.items():
            if rest.startswith("OK"):
                for kv in rest.split(" ")[1:]:
                    k, _, v = kv.partition("=")
                    if k in tot:
                        tot[k] += int(v)
    ctx.notes["api_recipes"] = tot
    ctx.count(("api-recipes",), nontrivial=True, n=tot["ran"])
    # the last frame of each o1 line through the reference decoder R as well
    rcases, want = [], {}
    for i, rest in out.items():
        if not rest.startswith("OK") or " frame=" not in rest or not i.startswith("a"):
            continue
        kind, xoff, xsize, fhex = rest.split(" frame=")[1].split(":")
        di = int(i[1:].split(".")[0])
        if len(rcases) >= (60 if q else 600):
            break
        d = dicts[di][1]
        rcases.append((i, "nostrict" + (",rawdict" if kind == "1" else ""), d if kind != "0" and len(d) else None, codec.unhx(fhex) if fhex != "-" else b""))
        want[i] = inputs[di][int(xoff):int(xoff) + int(xsize)]
    nR = 0
    for i, m in cd.model(rcases).items():
        if m[0] != "OK":
            if m[1] == "dict":
                continue
            ctx.violation(dict(kind="api-R", id=i, frame_hex=[c for c in rcases if c[0] == i][0][3].hex()[:60000], result="R: ERR %s site %s" % (m[1], m[2])),
                          what="reference decoder R rejects a frame produced by a dictionary API recipe (%s at %s)" % (m[1], m[2]), key="C08-api-R")
        elif m[1] != want[i]:
            ctx.violation(dict(kind="api-R", id=i, frame_hex=[c for c in rcases if c[0] == i][0][3].hex()[:60000]),
                          what="reference decoder R decodes a frame produced by a dictionary API recipe to different bytes", key="C08-api-R")
        else:
            nR += 1
            ctx.cov["traces_validated_against_impl"] += 1
    ctx.notes["api_frames_through_R"] = nR
    # ---- the multi-DDict table with raw-content (dictID 0) entries ----
    # the table is a hash set probed linearly; a referenced raw-content DDict has dictID 0, the value an empty slot also reports
    base = next((d for n, d in dicts if n.startswith("http")), None) or (fm[0][1] if fm else None)
    if base is not None:
        hl = len(base) - 300 if len(base) > 400 else 9
        content = codec.gen_input(rng, "text", 20000)
        rawbig = rng.randbytes(60000)
        x = bytearray(codec.gen_input(rng, "lowent", 12000))
        for k in range(8):
            x[1000 + 1300 * k:1000 + 1300 * k + 500] = content[5000 + 900 * k:5500 + 900 * k]
        x = bytes(x)
        ids = list(range(1, 65 if q else 400))
        clines = ["C w%d usingDict:3 - - %s %s" % (v, codec.hx(base[:4] + v.to_bytes(4, "little") + base[8:hl] + content), codec.hx(x)) for v in ids]
        clines.append("C noid compress2 %s load %s %s" % (codec.params_str({"level": 3, "dictID": 0}), codec.hx(base[:hl] + content), codec.hx(x)))
        cout, cerrs = cd.impl(clines)
        tl, meta = [], {}
        other = base[:4] + (777777).to_bytes(4, "little") + base[8:hl] + content[::-1]
        for v in ids:
            r = codec.parse_ok(cout.get("w%d" % v, "ERR missing"))
            if r[0] != "OK":
                continue
            dv = base[:4] + v.to_bytes(4, "little") + base[8:hl] + content
            for mode in ("dctx", "stream", "usingddict"):
                # (b) the raw entry first, then the right dictionary (active): must decode
                tl.append("T b%d%s %s:1:r1,0 %s %s %s" % (v, mode, mode, codec.hx(r[1]), codec.hx(dv), codec.hx(rawbig)))
                meta["b%d%s" % (v, mode)] = ("ok", x)
            # (a) the table holds the raw entry and another dictionary only: must be refused
            tl.append("T a%d dctx:1:r1,2 %s %s %s %s" % (v, codec.hx(r[1]), codec.hx(dv), codec.hx(rawbig), codec.hx(other)))
            meta["a%d" % v] = ("refuse", x)
        r = codec.parse_ok(cout.get("noid", "ERR missing"))
        if r[0] == "OK":
            for mode in ("dctx", "stream"):
                tl.append("T n%s %s:1:r1,0 %s %s %s" % (mode, mode, codec.hx(r[1]), codec.hx(base[:hl] + content), codec.hx(rawbig)))
                meta["n%s" % mode] = ("ok", x)
        t0 = time.time()
        tout = api_run(ctx, exe, tl, variant="o1", keyhint="C08-multiddict-id0-entry-matches-any-id")
        core.log("c08 multi-DDict table: %d lines %.1fs" % (len(tl), time.time() - t0))
        for i, (exp, xx) in meta.items():
            r = codec.parse_ok(tout.get(i, "ERR missing"))
            line = [l for l in tl if l.split(" ")[1] == i][0]
            if exp == "ok" and (r[0] != "OK" or r[1] != xx):
                ctx.violation(dict(kind="api", variant="o1", line=line, result=(r[1] if r[0] == "ERR" else "content differs"), expect_hex=xx.hex()),
                              what="multi-DDict table holding a raw-content DDict (dictID 0) and the frame's own dictionary: decoding fails (%s, case %s)" % (
                                  r[1] if r[0] == "ERR" else "wrong bytes", i), key="C08-multiddict-id0-entry-matches-any-id")
            if exp == "refuse" and r[0] == "OK":
                ctx.violation(dict(kind="api", variant="o1", line=line, result="accepted"),
                              what="multi-DDict table {raw-content DDict, another dictionary}: a frame naming a third dictionary ID is decoded instead of refused (case %s)" % i,
                              key="C08-multiddict-id0-entry-matches-any-id")
            ctx.count(("multiddict-raw-entry", exp, i[0]), nontrivial=True)
    dictid_histories(ctx, rng, exe, dicts, verdict)
    select_histories(ctx, rng, cd, exe, dicts)
    # ---- formatted dictionaries beyond the 2^24-byte reach of tagged ("short cache") CDict tables ----
    if fm:
        n, d = fm[0]
        hdr = d[:len(d) - len(ADV_INFO[n][1])]
        specs = [(17000000, 1, 0), (16777300, 3, 16777250)] if q else [(17000000, l, r) for l in (-1, 1, 2, 3, 4, 5) for r in (0, 1000, 16777216, 16900000)] + [(16777214, 1, 0), (16777215, 1, 0), (16777300, 3, 16777250)]
        bl = ["B big%d %s %d %d %d" % (k, codec.hx(hdr), cs, lv, rp) for k, (cs, lv, rp) in enumerate(specs)]
        t0 = time.time()
        bout = api_run(ctx, exe, bl, nproc=min(len(bl), 6), variant="o1", keyhint="C08-cdict-shortcache-truncation-keeps-repcodes")
        core.log("c08 big dictionaries: %d lines %.1fs" % (len(bl), time.time() - t0))
        for i, rest in bout.items():
            if not rest.startswith("OK"):
                ctx.violation(dict(kind="api", variant="o1", line=[l for l in bl if l.split(" ")[1] == i][0], result=rest),
                              what="formatted dictionary with more than 2^24 content bytes: %s" % rest, key="C08-cdict-shortcache-truncation-keeps-repcodes")
            ctx.count(("big-dictionary", rest.split(" ")[0]), nontrivial=True)


def dictid_histories(ctx, rng, exe, dicts, verdict):
    """random call histories on one context: the dictID of every frame as computed by the Gallina model C08DictId.run (evaluated by coqc
    on the generated histories, vm_compute) against ZSTD_getDictID_fromFrame on the real frames; every frame is decoded back too"""
    fm = [(n, d) for i, (n, d) in enumerate(dicts) if d[:4] == MAGIC and len(d) > 8 and verdict.get(i) == (True, True)]
    if not fm:
        return
    alphabet = ["f0", "f1", "L", "Lr", "C0", "C1", "P", "Pr", "U", "X", "X", "X"]
    hists = [["f0", "L", "X", "f1", "X"], ["C0", "X"], ["f0", "C1", "X", "f1", "X", "U", "X"], ["L", "f0", "X", "Pr", "X", "X", "f1", "X"]]
    for _ in range(60 if ctx.quick else 1500):
        hists.append([rng.choice(alphabet) for _ in range(rng.randint(2, 14))] + ["X"])
    lines, terms = [], []
    for k, hs in enumerate(hists):
        n, d = fm[k % len(fm)]
        did = int.from_bytes(d[4:8], "little")
        x = input_for(rng, d, n)[:3000] or b"abcabcabc"
        lines.append("H h%d %s %s %s" % (k, codec.hx(d), ",".join(hs), codec.hx(x)))
        m = {"f0": "SetIdFlag false", "f1": "SetIdFlag true", "L": "Load %d" % did, "Lr": "Load 0", "C0": "RefCDict false %d" % did,
             "C1": "RefCDict true %d" % did, "P": "RefPrefix %d" % did, "Pr": "RefPrefix 0", "U": "Unload", "X": "Compress"}
        terms.append("[" + "; ".join(m[o] for o in hs) + "]")
    wd = os.path.join(core.BUILD, "wip", "c08-dictid-%d-%d" % (os.getpid(), ctx.seed))
    os.makedirs(wd, exist_ok=True)
    with open(os.path.join(wd, "Hist.v"), "w") as f:
        f.write("From Coq Require Import NArith List.\nFrom ZV.Codec Require Import C08DictId.\nImport ListNotations.\nLocal Open Scope N_scope.\n"
                "Eval vm_compute in (map (fun l => map e_header (run true init l)) [%s]).\n" % ";\n ".join(terms))
    rc, o, e = core.sh(["timeout", "600", "coqc", "-Q", core.COQ, "ZV", "Hist.v"], cwd=wd)
    if rc != 0:
        ctx.violation(dict(kind="model-eval", detail=(o + e)[-1500:]), what="coqc could not evaluate C08DictId.run on the generated histories", no_input=True)
        return
    body = o[o.index("= [") + 2:o.rindex(": list (list N)")] if ": list (list N)" in o else ""
    model = [[int(v) for v in re.findall(r"\d+", part)] for part in re.findall(r"\[([^\[\]]*)\]", body)]
    shutil.rmtree(wd, ignore_errors=True)
    out, errs = codec._run_chunks(exe, lines, core.NCPU, 1200)
    if len(model) != len(hists):
        ctx.violation(dict(kind="model-eval", detail=o[-1500:]), what="could not parse the model's answer for the dictID histories (%d of %d)" % (len(model), len(hists)), no_input=True)
        return
    for k, hs in enumerate(hists):
        rest = out.get("h%d" % k, "ERR missing")
        got = None if not rest.startswith("OK") else ([] if rest.split(" ")[1] == "-" else [int(v) for v in rest.split(" ")[1].split(",")])
        if got != model[k]:
            ctx.violation(dict(kind="api", variant="o1", line=lines[k], history=hs, model=model[k], impl=rest, expect_ids=model[k]),
                          what="dictionary IDs of the frames of one context differ from the model C08DictId.run: history %s, model %s, libzstd %s" % (
                              ",".join(hs), model[k], rest[:200]), key="C08-dictid-dropped-by-cdict-digested-under-nodictid")
        ctx.count(("dictid-history", tuple(hs[:6]), tuple(model[k][:4])), nontrivial=len(model[k]) > 0)
    ctx.notes["dictid_histories"] = len(hists)


def select_histories(ctx, rng, cd, exe, dicts):
    """random histories of ZSTD_DCtx_refDDict calls (dictIDs chosen so that probe paths collide in the 64-slot table: 0 / 21 / 26 share slot 52,
    3 / 47 slot 63; one ID present twice with different content): the verdict of the Gallina model C08Select.select (evaluated by coqc with the
    real XXH64 model) against ZSTD_decompressDCtx / ZSTD_decompressStream with ZSTD_d_refMultipleDDicts on the real table"""
    base = next((d for n, d in dicts if n.startswith("http")), None)
    if base is None or len(base) < 400:
        return
    hl = len(base) - 300
    ids = [21, 26, 3, 47, 777, 21]
    contents = [codec.gen_input(rng, "text", 6000) for _ in ids]
    D = [base[:4] + v.to_bytes(4, "little") + base[8:hl] + c for v, c in zip(ids, contents)]
    xs = []
    for c in contents:
        x = bytearray(codec.gen_input(rng, "lowent", 5000))
        for k in range(5):
            x[300 + 900 * k:300 + 900 * k + 400] = c[1000 + 700 * k:1400 + 700 * k]
        xs.append(bytes(x))
    cl = ["C f%d usingDict:3 - - %s %s" % (j, codec.hx(D[j]), codec.hx(xs[j])) for j in range(6)]
    cl.append("C f6 compress2 %s load %s %s" % (codec.params_str({"level": 3, "dictID": 0}), codec.hx(D[0]), codec.hx(xs[0])))
    cout, _ = cd.impl(cl)
    frames = {}
    for j in range(7):
        r = codec.parse_ok(cout.get("f%d" % j, "ERR missing"))
        if r[0] == "OK":
            frames[j] = r[1]
    if len(frames) < 7:
        return
    RAW = 6      # handle of the raw-content DDict (bytes of dictionary 4 taken as content, dictID 0)
    cases, terms, tl = [], [], []
    for k in range(40 if ctx.quick else 600):
        ents = [rng.choice([0, 1, 2, 3, 4, 5, RAW, RAW]) for _ in range(rng.randint(1, 7))]
        act = rng.randrange(len(ents))
        j = rng.randrange(7)                       # frame: compressed with dictionary j (6: dictionary 0, no ID in the frame)
        used, fid = (0, 0) if j == 6 else (j, ids[j])
        loc = rng.random() < 0.4        # round 3 (fix d0ddbff): the current dictionary is LOADED into the context instead of referenced
        hist = ents + ([] if loc else [ents[act]])
        ent = lambda h: "(%d, %d)" % (0 if h == RAW else ids[h], h)
        terms.append("v [%s] %s %s %d" % ("; ".join(ent(h) for h in hist), "true" if loc else "false", ent(ents[act]), fid))
        spec = ",".join("r4" if h == RAW else str(h) for h in ents)
        for mode in ("dctx", "stream"):
            tl.append("T q%d%s %s%s:%d:%s %s %s" % (k, mode, "l" if loc else "", mode, act, spec, codec.hx(frames[j]), " ".join(codec.hx(d) for d in D)))
        cases.append((k, used, xs[used], hist, fid, loc))
    wd = os.path.join(core.BUILD, "wip", "c08-select-%d-%d" % (os.getpid(), ctx.seed))
    os.makedirs(wd, exist_ok=True)
    with open(os.path.join(wd, "Sel.v"), "w") as f:
        f.write("From Coq Require Import NArith List.\nFrom ZV.Safety Require Import DDictHashSet.\nFrom ZV.Codec Require Import C08Select.\n"
                "Import ListNotations.\nLocal Open Scope N_scope.\n"
                "Definition v (l : list (N * N)) (loc : bool) (a : N * N) (fid : N) := match add_all xxh_hash next_fixed l create with HOk s => Some (select_cur xxh_hash s loc a fid) | _ => None end.\n"
                "Eval vm_compute in [%s].\n" % ";\n ".join(terms))
    rc, o, e = core.sh(["timeout", "900", "coqc", "-Q", core.COQ, "ZV", "Sel.v"], cwd=wd)
    shutil.rmtree(wd, ignore_errors=True)
    verd = re.findall(r"Some \(Decode \((\d+), (\d+)\)\)|Some (Refuse)|Some (Broken)|(None)", o) if rc == 0 else []
    if len(verd) != len(cases):
        ctx.violation(dict(kind="model-eval", detail=(o + e)[-1500:]), what="coqc could not evaluate C08Select.select on the generated histories (%d of %d)" % (len(verd), len(cases)), no_input=True)
        return
    tout, terrs = codec._run_chunks(exe, tl, core.NCPU, 1200)
    for (k, used, x, hist, fid, loc), vd in zip(cases, verd):
        for mode in ("dctx", "stream"):
            r = codec.parse_ok(tout.get("q%d%s" % (k, mode), "ERR missing"))
            line = [l for l in tl if l.split(" ")[1] == "q%d%s" % (k, mode)][0]
            good = r[0] == "OK" and r[1] == x
            if vd[2] == "Refuse":
                okk, exp = (r[0] == "ERR" and r[1] == "Dictionary_mismatch"), "refused (Dictionary mismatch)"
            elif vd[0] != "":
                okk, exp = (good if int(vd[1]) == used else not good), "decoded with DDict handle %s" % vd[1]
            else:
                okk, exp = False, "model: %r" % (vd,)
            if not okk:
                ctx.violation(dict(kind="api", variant="o1", line=line, model=exp, impl=(r[1] if r[0] == "ERR" else ("right bytes" if good else "other bytes")),
                                   **({"expect_hex": x.hex()} if vd[0] != "" and int(vd[1]) == used else {"result": "accepted"} if vd[2] == "Refuse" else {})),
                              what="multi-DDict selection differs from the model C08Select.select_cur: history %s, frame dictID %d: model %s, libzstd (%s) %s" % (
                                  hist, fid, exp, mode, r[1] if r[0] == "ERR" else ("right bytes" if good else "other bytes")) + (" [current dictionary loaded into the context]" if loc else ""),
                              key="C08-select-loaded-dictionary-replaced" if loc else "C08-multiddict-id0-entry-matches-any-id")
        ctx.count(("select-history", len(hist), fid, vd[2] or vd[1]), nontrivial=True)
    ctx.notes["select_histories"] = len(cases)


# ---------------------------------------------------------------------------------------------------------------------
# Round 3: (1) call histories on one CCtx / one DCtx with placed input segments (harness/c08_hist.c); (2) unit-level tie of the mechanism
# models C08Repeat (table re-use: ZSTD_dictNCountRepeat, ZSTD_loadCEntropy's marks, ZSTD_selectEncodingType) and C08Attach
# (ZSTD_shouldAttachDict, retained content, index of the first repeat-offset probe) with the static functions themselves
# (harness/c08_unit.c includes zstd_compress.c / zstd_compress_sequences.c); the model side is evaluated by coqc (vm_compute).
def reuse_histories(ctx, variants=("o1", "asan")):
    q = ctx.quick
    plan = [p for p in (("o1", 960 if q else 60000, 30 if q else 500), ("asan", 320 if q else 15000, 20 if q else 300)) if p[0] in variants]
    total = 0
    for variant, n, chunk in plan:
        exe = core.build_harness("c08_hist", ["c08_hist.c"], variant=variant, extra_flags=["-w"])
        first = ctx.seed * 10000000 + (0 if variant == "o1" else 5000000)
        lines = ["S h%d %d %d" % (k, first + k * chunk, chunk) for k in range(n // chunk)]
        t0 = time.time()
        out, errs = codec._run_chunks(exe, lines, core.NCPU, 2400)
        for l in lines:
            i = l.split(" ")[1]
            rest = out.get(i)
            if rest is None:
                # a crash loses the chunk: find the scenario
                a, cnt = int(l.split(" ")[2]), int(l.split(" ")[3])
                culprit, detail = None, (errs[0][1][-1200:] if errs else "no output")
                for sd in range(a, a + cnt):
                    o2, e2 = codec._run_chunks(exe, ["S x %d 1" % sd], 1, 600)
                    if e2 or "x" not in o2:
                        culprit, detail = sd, (e2[0][1] if e2 else "no output")[-1200:]
                        break
                ctx.violation(dict(kind="hist", variant=variant, seed=culprit, detail=detail),
                              what="c08_hist (%s build) crashed or trapped in scenario %s: %s" % (variant, culprit, detail[-300:].replace("\n", " ")),
                              key="C08-hist-sanitizer" if variant == "asan" else "C08-hist-crash")
                continue
            if rest.startswith("FAIL"):
                f = dict(kv.split("=", 1) for kv in rest.split(" ")[1:] if "=" in kv)
                what = f.get("what", "?").replace("_", " ")
                key = ("C08-hist-dictid" if "records dictID" in what else "C08-hist-wrong-id-accepted" if "instead of being refused" in what
                       else "C08-hist-silent-wrong-bytes" if "DIFFERENT BYTES" in what else "C08-hist-round-trip")
                ctx.violation(dict(kind="hist", variant=variant, seed=int(f.get("seed", "0")), what=what, history=f.get("history", "").replace("_", " ")[:6000]),
                              what="call history on one context: %s [scenario %s: %s]" % (what, f.get("seed"), f.get("history", "").replace("_", " ")[-500:]), key=key)
            else:
                m = re.search(r"frames=(\d+)", rest)
                total += int(m.group(1)) if m else 0
        core.log("c08 reuse histories: %s %d scenarios %.1fs" % (variant, n, time.time() - t0))
        ctx.count(("reuse-histories", variant), nontrivial=True, n=n)
    ctx.notes["reuse_history_frames"] = total


def reuse_histories_R(ctx, cd):
    """frames of the call histories through the extracted reference decoder R (strict: offsets beyond the window are format errors,
    a dictionary may only be reached while the window still touches it)"""
    exe = core.build_harness("c08_hist", ["c08_hist.c"], variant="o1", extra_flags=["-w"])
    first = ctx.seed * 10000000 + 9000000
    lines = ["P p%d %d" % (k, first + k) for k in range(16 if ctx.quick else 700)]
    out, errs = codec._run_chunks(exe, lines, core.NCPU, 2400)
    cases, want, stricter = [], {}, 0
    for l in lines:
        i = l.split(" ")[1]
        t = out.get(i, "").split(" ")
        if len(t) < 2 or t[0] != "OK":
            continue        # failures of the scenario itself are reported by reuse_histories on its own seeds; here only frames are collected
        ds = [bytes.fromhex(x.split(":", 1)[1]) if x.split(":", 1)[1] != "-" else b"" for x in t[1:4]]
        for j, fr in enumerate(t[4:]):
            _, kind, di, fh, xh = fr.split(":")
            kind, di = int(kind), int(di)
            d = ds[di] if kind else None
            if (kind and not d) or (ctx.quick and (len(xh) > 24000 or (d and len(d) > 12000))) or (d and len(d) > 30000):
                continue
            cid = "%s_%d" % (i, j)
            cases.append((cid, "rawdict" if kind == 1 else "", d, bytes.fromhex(fh)))
            want[cid] = (bytes.fromhex(xh) if xh != "-" else b"", int(l.split(" ")[2]), kind)
    if not cases:
        return
    res = cd.model(cases)
    for cid, (x, seed, kind) in want.items():
        m = res.get(cid)
        if m is None:
            continue
        if m[0] == "ERR" and m[1] == "dict":
            stricter += 1          # R's dictionary loader is stricter than libzstd's (Huffman depth 12): no verdict
            continue
        if m[0] != "OK" or m[1] != x:
            fb = [c for c in cases if c[0] == cid][0]
            ctx.violation(dict(kind="hist-R", variant="o1", seed=seed, frame_hex=fb[3].hex()[:60000], dict_hex=(fb[2] or b"").hex()[:140000], flags=fb[1],
                               result=("R: ERR %s site %s" % (m[1], m[2])) if m[0] == "ERR" else "R decodes other bytes"),
                          what="a frame of a call history (scenario %d) is not decoded to its input by the reference decoder R: %s" % (
                              seed, ("ERR %s site %s" % (m[1], m[2])) if m[0] == "ERR" else "other bytes"), key="C08-hist-R")
        ctx.count(("hist-R", kind, m[0], codec.trace_signature(codec.parse_trace(m[2])) if m[0] == "OK" else m[1]), nontrivial=True)
        ctx.cov["traces_validated_against_impl"] += 1
    ctx.notes["reuse_history_frames_through_R"] = len(want)


def hist_replay(ctx, rp):
    exe = core.build_harness("c08_hist", ["c08_hist.c"], variant=rp.get("variant", "o1"), extra_flags=["-w"])
    out, errs = codec._run_chunks(exe, ["S r %d 1" % int(rp.get("seed") or 0)], 1, 1200)
    rest = out.get("r", "no output")
    core.log("replay: %s" % rest[:600])
    if errs or not rest.startswith("OK"):
        ctx.violation(rp, what="replayed: %s %s" % (rest[:400].replace("_", " "), (errs[0][1][-300:] if errs else "")))


def unit_tie(ctx, rng, dicts, verdict):
    q = ctx.quick
    exe = core.build_harness("c08_unit", ["c08_unit.c"], variant="o1", lib_exclude=["zstd_compress.c", "zstd_compress_sequences.c"], extra_flags=["-w"])
    lines, terms, expect = [], [], {}
    RM = {"RNone": 0, "RCheck": 1, "RValid": 2}

    def zl(vals):
        return "[" + "; ".join("(%d)%%Z" % v for v in vals) + "]"
    # N : ZSTD_dictNCountRepeat
    for k in range(60 if q else 1500):
        n = rng.randint(1, 53)
        vals = [rng.choice([0, 0, 1, -1, 3, 7]) if rng.random() < rng.choice([0.05, 0.3]) else rng.choice([1, -1, 2, 5]) for _ in range(n)]
        dms = n - 1 if rng.random() < 0.7 else rng.randint(0, 52)
        ms = rng.choice([dms, dms, max(0, dms - 1), dms + 1, rng.randint(0, 52), n - 1])
        if k % 3 == 0:      # boundary-aimed: exactly one absent symbol, at / next to the last symbol checked
            n = rng.randint(2, 53)
            dms = n - 1
            ms = rng.randint(1, dms)
            vals = [rng.choice([1, -1, 2, 5]) for _ in range(n)]
            z = rng.choice([ms, ms, ms - 1, min(ms + 1, n - 1), 0])
            vals[z] = 0
        lines.append("N n%d %d %d %s" % (k, dms, ms, ",".join(map(str, vals))))
        terms.append(("n%d" % k, "[rm (ncount_repeat %s %d %d)]" % (zl(vals), dms, ms)))
    # A : ZSTD_shouldAttachDict / retained content / first repeat-offset probe (C08Attach)
    lim = (1 << 24) - 2
    acases = [(1, 17000000, (17000000, 4, 8), 0), (1, 17000000, (1000, 4, 8), 0), (2, lim, (lim, 4, 8), 0), (1, lim - 1, (lim - 1, 1, 8), 1), (2, lim + 1, (lim + 1, 4, 8), 0),
              (2, lim + 1, (lim, 4, lim + 1), 1), (3, 17000000, (17000000, 4, 8), 0), (1, 5000, (5000, 4, 8), 0)]
    for _ in range(0 if q else 40):
        cs = rng.choice([lim - 2, lim, lim + 1, lim + 3, 17000000, 20000, 1 << 20, rng.randint(9, 18000000)])
        acases.append((rng.choice([1, 1, 2, 2, 3, 4]), cs, tuple(rng.choice([1, 4, 8, cs, cs - 1, lim, lim + 1, rng.randint(1, cs)]) for _ in range(3)), rng.choice([0, 1])))
    for k, (st, cs, reps, pref) in enumerate(acases):
        reps = tuple(min(max(1, r), cs) for r in reps)
        lines.append("A a%d %d %d %d,%d,%d %d" % (k, st, cs, reps[0], reps[1], reps[2], pref))
        tg = "true" if st <= 2 else "false"
        rl = "[%d; %d; %d]" % reps
        terms.append(("a%d" % k, "[C08Attach.retained %s %d; bn (C08Attach.may_attach true %s %d %s); C08Attach.prefix_start %s %d; C08Attach.rep_index (C08Attach.prefix_start %s %d) %d]"
                      % (tg, cs, tg, cs, rl, tg, cs, tg, cs, reps[0])))
        expect["a%d" % k] = (st, cs, reps, pref)
    out1, errs1 = codec._run_chunks(exe, lines, core.NCPU, 1200)
    # E : ZSTD_loadCEntropy's three marks (the counters are read back by the harness and handed to the model)
    elines = []
    fm = [(n, d) for i, (n, d) in enumerate(dicts) if d[:4] == MAGIC and len(d) > 8 and verdict.get(i, (False, False))[0]]
    rng.shuffle(fm)
    bsz = [-1, 1, 8, 1000, 131070, 131071, 131072, 131073, 393215, 393216, 917503, 917504, 65536]
    for k, (n, d) in enumerate(fm[:(10 if q else 120)]):
        for cs in ([-1] + rng.sample(bsz[1:], 3 if q else 8)):
            elines.append("E e%d_%d %s %d" % (k, len(elines), codec.hx(d), cs))
    out2, errs2 = codec._run_chunks(exe, elines, core.NCPU, 1200)
    # second pass, boundary-aimed: content sizes that put offcodeMax exactly on / just below an absent offset code of the dictionary's table
    extra = []
    for l in list(elines):
        t = l.split(" ")
        r = out2.get(t[1], "ERR").split(" ")
        if t[3] != "-1" or r[0] != "OK":
            continue
        mx, vals = r[5].split(":")
        zs = [z for z, v in enumerate(vals.split(",")) if v == "0" and 17 <= z <= 22] + ([int(mx) + 1] if 17 <= int(mx) + 1 <= 22 else [])
        for z in zs[:2]:
            for cs in ((1 << z) - 131072, (1 << z) - 131073, (1 << (z + 1)) - 131072):
                if cs >= 1:
                    extra.append("E %sb%d %s %d" % (t[1], len(extra), t[2], cs))
    if extra:
        o2b, e2b = codec._run_chunks(exe, extra, core.NCPU, 1200)
        out2.update(o2b)
        errs2 = errs2 + e2b
        elines += extra
    for l in elines:
        i = l.split(" ")[1]
        r = out2.get(i, "ERR missing").split(" ")
        if r[0] != "OK":
            continue
        c = int(r[1])
        tabs = []
        for t in r[5:8]:
            mx, vals = t.split(":")
            tabs.append((int(mx), [int(v) for v in vals.split(",")]))
        terms.append((i, "[rm (of_mode %s %d %d); rm (ncount_repeat %s %d MaxML); rm (ncount_repeat %s %d MaxLL)]" % (
            zl(tabs[0][1]), tabs[0][0], c, zl(tabs[1][1]), tabs[1][0], zl(tabs[2][1]), tabs[2][0])))
        expect[i] = [int(r[2]), int(r[3]), int(r[4])]
    # S : ZSTD_selectEncodingType with a previous table built from random normalized counters
    slines, sinfo = [], {}
    for k in range(150 if q else 4000):
        kind = rng.randrange(3)
        kmax, flog = ((31, 8), (52, 9), (35, 9))[kind]
        log, vals = rand_norm(rng, rng.randint(2, kmax + 1), flog).split(":")
        vals = [int(v) for v in vals.split(",")]
        ns = rng.choice([1, 2, 3, 8, 40, 300, 999, 1000, 1001, 5000])
        syms = [rng.randrange(min(kmax + 1, len(vals) + rng.choice([0, 0, 0, 2]))) for _ in range(rng.randint(1, 6))]
        if rng.random() < 0.6:
            syms = [s_ for s_ in syms if s_ < len(vals) and vals[s_] != 0] or [len(vals) - 1]
        hist = {}
        left = ns
        for j, s_ in enumerate(syms):
            c = left if j == len(syms) - 1 else rng.randint(0, left)
            if c:
                hist[s_] = hist.get(s_, 0) + c
            left -= c
        if not hist:
            hist[syms[0]] = ns
        strat = rng.randint(1, 9)
        mode = rng.choice([0, 1, 2, 2])
        i = "s%d" % k
        slines.append("S %s %d %d %d %s %s %s" % (i, strat, kind, mode, log, ",".join(map(str, vals)), ",".join("%d:%d" % kv for kv in sorted(hist.items()))))
        sinfo[i] = (strat, kind, mode, vals, hist)
    out3, errs3 = codec._run_chunks(exe, slines, core.NCPU, 1200)
    for i, (strat, kind, mode, vals, hist) in sinfo.items():
        r = out3.get(i, "ERR missing").split(" ")
        if r[0] != "OK":
            continue
        typ, nm, da, nbseq, most, basic, tbl, comp = r[1:9]
        dnl = (5, 6, 6)[kind]
        used = "[" + "; ".join(str(s_) for s_ in sorted(hist)) + "]"
        blk = ("{| b_used := %s; b_nbSeq := %s; b_mostFreq := %s; b_basic := %s; b_tblcost := %s; b_comp := %s; b_newtab := {| tb_cnt := []; tb_max := 0 |}; b_kept := true |}"
               % (used, nbseq, most, basic if basic != "E" else "0", tbl if tbl != "E" else "0", comp))
        tab = "{| tb_cnt := %s; tb_max := %d |}" % (zl(vals), len(vals) - 1)
        terms.append((i, "(let r := select %d %s %d %s %s %s in [et (fst r); rm (snd r); bn (cost_ok %s %s)])" % (
            strat, "true" if da == "1" else "false", dnl, ("RNone", "RCheck", "RValid")[mode], tab, blk, tab, used)))
        expect[i] = [int(typ), int(nm), 0 if tbl == "E" else 1]
    # W : the window of a context with an attached CDict, segment after segment (C08Window), block mode and frame mode
    wlines, winfo = [], {}
    for k in range(40 if q else 1200):
        mode = rng.randrange(2)
        wl = rng.choice([10, 11, 12, 14, 17])
        dcs = rng.choice([9, 100, 1000, 5000, 40000])
        reuse = rng.choice([0, 0, 0, 500, 60000])
        segs, off, ln = [], None, 0
        for _ in range(rng.randint(1, 9)):
            nl = rng.choice([0, 1, 7, 8, 9, 100, 700, 1024]) if mode == 0 else rng.choice([0, 1, 8, 100, 1000, 5000, 20000])
            r = rng.random()
            if off is None or r < 0.3:
                no = rng.randrange(0, (4 << 20) - 30000)
            elif r < 0.65:
                no = off + ln                                   # contiguous
            else:
                no = max(0, off + rng.randint(-nl, ln))         # overlapping the previous segment
            no = min(no, (4 << 20) - 30000)
            segs.append((no, nl))
            off, ln = no, nl
        i = "w%d" % k
        wlines.append("W %s %d %d %d %d %d %s" % (i, mode, rng.choice([1, 2, 3, 4, 5, 7]), wl, dcs, reuse, ",".join("%d:%d" % sg for sg in segs)))
        winfo[i] = (mode, segs)
    out4, errs4 = codec._run_chunks(exe, wlines, core.NCPU, 1200)
    wterms, wexpect = [], []
    for i, (mode, segs) in winfo.items():
        r = out4.get(i, "ERR missing").split(" ")
        if r[0] != "OK":
            continue
        bsz, md = int(r[1]), int(r[2])
        states = [[int(v) for v in t.split(":")] for t in r[3:] if t != "ERR"]
        s0 = states[0]
        if not (s0[2] == s0[3] == s0[5] and s0[4] - s0[0] == s0[2] and s0[6] == 1):
            ctx.violation(dict(kind="unit", line=[l for l in wlines if l.split(" ")[1] == i][0], impl=s0), what="state after ZSTD_compressBegin_usingCDict is not the attached shape: %s" % s0, key="C08-unit-tie-w")
            continue
        segs = segs[:len(states) - 1]
        init = "(mk (%d) (%d) (%d) (%d) (%d) (%d) true)" % tuple(s0[:6])
        if mode == 0:
            wterms.append("scan (%d) (block_step true) %s [%s]" % (md, init, "; ".join("((%d), (%d), false)" % sg for sg in segs)))
        else:
            def cuts(n):
                return [bsz] * (n // bsz) + ([n % bsz] if n % bsz else [])
            wterms.append("scan (%d) (frame_step (%d)) %s [%s]" % (md, md, init, "; ".join("((%d), (%d), false, [%s])" % (o, n, "; ".join("(%d)" % c for c in cuts(n))) for o, n in segs)))
        wexpect.append((i, states[1:]))
    if errs1 or errs2 or errs3 or errs4:
        e = (errs1 + errs2 + errs3 + errs4)[0]
        ctx.violation(dict(kind="unit-crash", detail=e[1][-1500:]), what="c08_unit crashed: %s" % e[1][-300:].replace("\n", " "), no_input=True)
    # ---- the model's answers ----
    wd = os.path.join(core.BUILD, "wip", "c08-unit-%d-%d" % (os.getpid(), ctx.seed))
    os.makedirs(wd, exist_ok=True)
    with open(os.path.join(wd, "Unit.v"), "w") as f:
        f.write("From Coq Require Import NArith ZArith List.\nFrom ZV.Codec Require C08Attach.\nFrom ZV.Codec Require Import C08Repeat.\nImport ListNotations.\nLocal Open Scope N_scope.\n"
                "Definition rm (m : rmode) : N := match m with RNone => 0 | RCheck => 1 | RValid => 2 end.\n"
                "Definition et (e : etype) : N := match e with Basic => 0 | Rle => 1 | Compressed => 2 | Repeat => 3 end.\n"
                "Definition bn (b : bool) : N := if b then 1 else 0.\n"
                "Eval vm_compute in [%s].\n" % ";\n ".join(t for _, t in terms))
        f.write("From ZV.Codec Require Import C08Window.\nLocal Open Scope Z_scope.\n"
                "Definition stl (md : Z) (s : st) : list Z := [base (w s); dictBase (w s); dictLimit (w s); lowLimit (w s); nextSrc (w s); lde s; (if dms s then 1 else 0); lowest_match_index s (nextSrc (w s) - base (w s)) md].\n"
                "Definition mk (b db dl ll ns l : Z) (d : bool) : st := {| w := {| base := b; dictBase := db; dictLimit := dl; lowLimit := ll; nextSrc := ns |}; lde := l; dms := d; total := 0 |}.\n"
                "Fixpoint scan {A : Type} (md : Z) (f : st -> A -> st) (s : st) (l : list A) : list (list Z) := match l with [] => [] | x :: r => let s' := f s x in stl md s' :: scan md f s' r end.\n"
                "Eval vm_compute in [%s].\n" % ";\n ".join(wterms or ["[]"]))
    rc, o, e = core.sh(["timeout", "900", "coqc", "-Q", core.COQ, "ZV", "Unit.v"], cwd=wd)
    shutil.rmtree(wd, ignore_errors=True)
    zbody = ""
    if rc == 0 and ": list (list N)" in o and ": list (list (list Z))" in o:
        zbody = o[o.index(": list (list N)"):o.rindex(": list (list (list Z))")]
        o = o[:o.index(": list (list N)") + 20]
    wmodel = [[int(v) for v in re.findall(r"-?\d+", part)] for part in re.findall(r"\[([^\[\]]*\d[^\[\]]*)\]", zbody)]
    body = o[o.index("= [") + 2:o.rindex(": list (list N)")] if rc == 0 and ": list (list N)" in o else ""
    model = [[int(v) for v in re.findall(r"\d+", part)] for part in re.findall(r"\[([^\[\]]*)\]", body)]
    if len(model) != len(terms):
        ctx.violation(dict(kind="model-eval", detail=(o + e)[-1500:]), what="coqc could not evaluate the C08Repeat / C08Attach models on the generated unit cases (%d of %d)" % (len(model), len(terms)), no_input=True)
        return
    nbad = 0
    for (i, term), mv in zip(terms, model):
        if i[0] == "n":
            r = out1.get(i, "ERR missing").split(" ")
            got = [int(r[1])] if r[0] == "OK" else None
            okk = got == mv
            what = "ZSTD_dictNCountRepeat"
        elif i[0] == "a":
            r = out1.get(i, "ERR missing").split(" ")
            st, cs, reps, pref = expect[i]
            if r[0] != "OK":
                got, okk = r, False
            else:
                tagged, retained, sa, attached, ps = int(r[1]), int(r[2]), int(r[3]), int(r[4]), int(r[5])
                got = [retained, sa] + ([ps, int(r[7])] if attached else [])
                okk = (tagged == (1 if st <= 2 else 0) and retained == mv[0] and sa == mv[1] and attached == sa
                       and (not attached or (ps == mv[2] and int(r[7]) == mv[3] and r[6] == "%d,%d,%d" % reps)))
            what = "ZSTD_shouldAttachDict / retained content / first repeat-offset index"
        elif i[0] == "e":
            got, okk, what = expect[i], expect[i] == mv, "repeat modes set by ZSTD_loadCEntropy (offset, match-length, literal-length tables)"
        else:
            got, okk, what = expect[i], expect[i] == mv, "ZSTD_selectEncodingType (type, new repeat mode) / ZSTD_fseBitCost error status"
        if not okk:
            nbad += 1
            if nbad <= 3:
                line = next((l for l in lines + elines + slines if l.split(" ")[1] == i), "")
                ctx.violation(dict(kind="unit", line=line[:4000], model=mv, impl=got, term=term[:3000]),
                              what="unit tie: %s differs from the Gallina model: libzstd %s, model %s (line %s)" % (what, got, mv, line[:200]), key="C08-unit-tie-" + i[0])
        ctx.count(("unit", i[0], tuple(mv)), nontrivial=True)
    # the window states, call after call
    need = sum(len(st) for _, st in wexpect)
    if len(wmodel) != need:
        ctx.violation(dict(kind="model-eval", detail=(zbody or e)[-1500:]), what="coqc could not evaluate the C08Window model on the generated segment histories (%d states of %d)" % (len(wmodel), need), no_input=True)
    else:
        pos = 0
        for i, states in wexpect:
            mv = wmodel[pos:pos + len(states)]
            pos += len(states)
            if mv != states:
                nbad += 1
                j = next(j for j in range(len(states)) if mv[j] != states[j])
                line = [l for l in wlines if l.split(" ")[1] == i][0]
                if nbad <= 5:
                    ctx.violation(dict(kind="unit", line=line, model=mv[j], impl=states[j], call=j),
                                  what="unit tie: window / loadedDictEnd / dictMatchState after call %d differ from the Gallina model C08Window: libzstd %s, model %s (base:dictBase:dictLimit:lowLimit:nextSrc:loadedDictEnd:attached:lowestMatchIndex; line %s)" % (
                                      j, states[j], mv[j], line[:300]), key="C08-unit-tie-w")
            ctx.count(("unit", "w", winfo[i][0], len(states), tuple(st[6] for st in states), tuple(st[7] == st[3] for st in states)), nontrivial=True)
    ctx.notes["unit_tie_cases"] = {"window_histories": len(wexpect), "window_states": need, "dictNCountRepeat": sum(1 for i, _ in terms if i[0] == "n"), "attach": sum(1 for i, _ in terms if i[0] == "a"),
                                   "loadCEntropy": sum(1 for i, _ in terms if i[0] == "e"), "selectEncodingType": sum(1 for i, _ in terms if i[0] == "s")}
    ctx.cov["traces_validated_against_impl"] += len(terms)


def api_replay(ctx, rp):
    exe = core.build_harness("c08_api", ["c08_api.c"], variant=rp.get("variant", "o1"), extra_flags=["-w"])
    if not rp.get("line"):
        ctx.violation(rp, what="replay record carries no command line", no_input=True)
        return
    out, errs = codec._run_chunks(exe, [rp["line"]], 1, 2400)
    rest = list(out.values())[0] if out else "no output"
    core.log("replay: %s" % rest[:600])
    wrong = "expect_hex" in rp and rest.startswith("OK ") and rest.split(" ")[1] != (rp["expect_hex"] or "-")
    if "expect_ids" in rp and rest.startswith("OK "):
        wrong = rest.split(" ")[1] != (",".join(map(str, rp["expect_ids"])) or "-")
    if errs or not out or wrong or rest.startswith(("FAIL", "ERR")) or rp.get("result") == "accepted" and rest.startswith("OK"):
        ctx.violation(rp, what="replayed: %s %s" % (rest[:300], (errs[0][1][-300:] if errs else "")))


def run(ctx):
    ctx.cov["rule"] = ("dictionaries = raw sizes {0,1,7,8,9,100,3000,70000}, magic-but-short, golden, zero-weight, adversarial structurally valid "
                       "ones from harness/c08_mkdict.c (random Huffman: complete depth 11/12, missing symbols, direct weights with zeros; random "
                       "normalized OF/ML/LL tables with missing symbols, -1 counts, logs 5..max; repeat offsets incl. invalid 0 / content+1); "
                       "x inputs reusing dictionary content; x compression supply modes {usingDict, usingCDict, load, loadref, cdict, cdictref, prefix} "
                       "x attach prefs x levels incl. btopt+; x decompression modes {usingDict, ddict, ddictref, loaddict, multiddict, refprefix}; "
                       "distinct = distinct (dictionary class, loader verdicts, compression mode, decode mode, R trace signature)")
    ctx.prove()
    if getattr(ctx, "replay_file", None):
        try:
            rp = json.load(open(ctx.replay_file)).get("replay", {})
        except (OSError, ValueError):
            rp = {}
        if isinstance(rp, dict) and rp.get("kind") == "api":
            api_replay(ctx, rp)
            ctx.proof_verdict(None)
            return
        if isinstance(rp, dict) and rp.get("kind") == "hist":
            hist_replay(ctx, rp)
            ctx.proof_verdict(None)
            return
    rng = random.Random(ctx.seed)
    cd = codec.Codec(ctx)
    mkexe = core.build_harness("c08_mkdict", ["c08_mkdict.c"], variant="o1", extra_flags=["-w"])

    def mk(lines):
        return codec._run_chunks(mkexe, lines, core.NCPU, 600)
    dicts = make_dicts(ctx, rng, mk)
    # ---- loader agreement ----
    lout, lerrs = mk(["L d%d %s" % (i, codec.hx(d)) for i, (n, d) in enumerate(dicts)])
    verdict = {}
    for i, (name, d) in enumerate(dicts):
        t = dict(kv.split("=") for kv in lout.get("d%d" % i, "ERR").split(" ")[1:] if "=" in kv)
        if not t:
            ctx.violation(dict(kind="loader-crash", dict_hex=d.hex()[:20000]), what="c08_mkdict crashed or failed on dictionary %s" % name)
            continue
        c_ok, d_ok = t["cdict"] == "1", t["ddict"] == "1"
        verdict[i] = (c_ok, d_ok)
        formatted = d[:4] == MAGIC and len(d) >= 8
        if c_ok != d_ok:
            ctx.violation(dict(kind="loader-disagreement", dict=name, dict_hex=d.hex()[:40000], verdicts=t),
                          what="compression and decompression dictionary loaders disagree on %s: CDict %s, DDict %s" % (name, c_ok, d_ok))
        ids = [int(t[k]) for k in ("idZ", "idF")] + ([int(t["idC"])] if c_ok else []) + ([int(t["idD"])] if d_ok else [])
        want = int.from_bytes(d[4:8], "little") if formatted else 0
        if c_ok and d_ok and any(v != want for v in ids):
            ctx.violation(dict(kind="id-disagreement", dict=name, verdicts=t, expected=want), what="dictionary ID queries disagree for %s: %s (header says %d)" % (name, t, want))
        ctx.count(("loader", name[:3], c_ok, d_ok, formatted), nontrivial=True)
    # ---- round trips ----
    cases = []
    for i, (name, d) in enumerate(dicts):
        if i not in verdict or not (verdict[i][0] and verdict[i][1]):
            continue
        for _ in range(3 if ctx.quick else 12):
            ent, dm = rng.choice(CMODES)
            level = rng.choice([1, 3, 3, 5, 9, 13, 16, 19, 22, -5])
            p = {"level": level}
            if ent == "compress2":
                if rng.random() < 0.4:
                    p["forceAttachDict"] = rng.choice([1, 2, 3])
                if rng.random() < 0.2:
                    p["dedicatedDictSearch"] = 1
                if rng.random() < 0.2:
                    p["dictID"] = 0
                if rng.random() < 0.3:
                    p["windowLog"] = rng.choice([10, 12, 17])
                if rng.random() < 0.3:
                    p["strategy"] = rng.randint(1, 9)
                if rng.random() < 0.3:
                    p["checksum"] = 1
            cases.append(dict(id="c%d" % len(cases), di=i, x=input_for(rng, d, name), entry=ent if ent == "compress2" else "%s:%d" % (ent, level), dictmode=dm, params=p))
    # inputs that START with a match at exactly the dictionary's k-th repeat offset (first sequence: literal length 0, repeat code):
    # every decoder-side supply mode must start from the same three offsets the dictionary header carries
    nrep = 0
    for i, (name, d) in enumerate(dicts):
        if name not in ADV_INFO or i not in verdict or not (verdict[i][0] and verdict[i][1]):
            continue
        reps, content = ADV_INFO[name]
        if len(set(reps)) < 3 or min(reps) < 1 or max(reps) > len(content) or nrep >= (12 if ctx.quick else 120):
            continue
        for k in (2, 1, 0):
            r = reps[k]
            period = content[len(content) - r:]
            x = (period * (40 // len(period) + 2))[:40] + codec.gen_input(rng, "text", 300)
            for level in ((19,) if ctx.quick else (13, 16, 19, 22)):
                nrep += 1
                cases.append(dict(id="c%d" % len(cases), di=i, x=x, entry="usingDict:%d" % level, dictmode="-", params={"level": level}))
    # far references into the partial-offset-table dictionary after an incompressible (raw) first block
    for i, (name, d) in enumerate(dicts):
        if name != "advOFpartial" or i not in verdict or not (verdict[i][0] and verdict[i][1]):
            continue
        for k, level in enumerate([1, 2, 3, 4, 5, 1, 3] if ctx.quick else [1, 2, 3, 4, 5, 6, 7, 1, 2, 3, 4, 5, 13, 19]):
            x = bytearray(rng.randbytes(2 * 131072))
            if k % 3 == 2:       # control: compressible from the start
                x[100:3100] = OFP_CONTENT[5000:8000]
            x[131072 + 20000:131072 + 23000] = OFP_CONTENT[60000:63000]
            x[131072 + 110000:131072 + 113000] = OFP_CONTENT[1000:4000]
            ent, dm = CMODES[k % len(CMODES[:6])]
            cases.append(dict(id="c%d" % len(cases), di=i, x=bytes(x), entry=ent if ent == "compress2" else "%s:%d" % (ent, level), dictmode=dm,
                              params={"level": level, "checksum": 1}))
        # same dictionary, but every block so far was COMPRESSED with few sequences and at least two offset codes (Huffman-friendly
        # text without repeats + a few dozen snippets of the dictionary), so the table may be re-used without a symbol check;
        # the third block then refers further back than the table reaches
        for k, level in enumerate([1, 2, 3, 4, 1, 3] if ctx.quick else [1, 2, 3, 4, 1, 2, 3, 4, 5, 6]):
            x = bytearray(codec.gen_input(rng, "debruijn", 3 * 131072))
            for b in (0, 1):
                for _ in range(rng.choice([12, 30, 60])):
                    ln = rng.choice([40, 100, 300])
                    at = b * 131072 + rng.randrange(2000, 131072 - 400)
                    src = rng.randrange(0, len(OFP_CONTENT) - ln) if rng.random() < 0.6 else rng.randrange(len(OFP_CONTENT) - 3000, len(OFP_CONTENT) - ln)
                    x[at:at + ln] = OFP_CONTENT[src:src + ln]
            for _ in range(rng.choice([1, 3, 10])):
                ln = rng.choice([200, 1000, 3000])
                at = 2 * 131072 + rng.randrange(1000, 131072 - 3100)
                src = rng.randrange(0, 20000)
                x[at:at + ln] = OFP_CONTENT[src:src + ln]
            ent, dm = CMODES[k % len(CMODES[:6])]
            cases.append(dict(id="c%d" % len(cases), di=i, x=bytes(x), entry=ent if ent == "compress2" else "%s:%d" % (ent, level), dictmode=dm,
                              params={"level": level, "checksum": 1}))
    out, errs = cd.impl(["C %s %s %s %s %s %s" % (c["id"], c["entry"], codec.params_str(c["params"]) if c["entry"] == "compress2" else "-",
                                                   c["dictmode"], codec.hx(dicts[c["di"]][1]), codec.hx(c["x"])) for c in cases])
    if errs:
        ctx.violation(dict(kind="harness-crash", detail=errs[:2]), what="zv_codec crashed compressing with a dictionary: %r" % (errs[0],))
    dlines, rcases, wrong = [], [], []
    other = (MAGIC + (424242).to_bytes(4, "little") + dicts[[n for n, _ in dicts].index("http-dict-missing-symbols")][1][8:]) if any(n == "http-dict-missing-symbols" for n, _ in dicts) else None
    for c in cases:
        name, d = dicts[c["di"]]
        r = codec.parse_ok(out.get(c["id"], "ERR missing"))
        if r[0] != "OK":
            ctx.violation(dict(kind="compress-failed", dict=name, entry=c["entry"], dictmode=c["dictmode"], params=c["params"], error=r[1],
                               dict_hex=d.hex()[:40000], input_hex=c["x"].hex()[:40000]),
                          what="compression with an accepted dictionary (%s, %s/%s) failed: %s" % (name, c["entry"], c["dictmode"], r[1]))
            continue
        c["frame"] = f = r[1]
        prefix = c["dictmode"] in RAWMODES
        for dmode in (["refprefix", "rawdict"] if prefix else DMODES):
            dlines.append("D %s|%s %s - %s %s %d" % (c["id"], dmode, dmode, codec.hx(d), codec.hx(f), len(c["x"]) + 16))
        rcases.append((c["id"], "nostrict" + (",rawdict" if prefix else ""), d, f))
        formatted = d[:4] == MAGIC and len(d) >= 8 and not prefix
        fid = None
        if len(f) > 5:
            didsz = [0, 1, 2, 4][f[4] & 3]
            off = 5 + (0 if (f[4] >> 5) & 1 else 1)
            fid = int.from_bytes(f[off:off + didsz], "little") if didsz else 0
        want = int.from_bytes(d[4:8], "little") if formatted and c["params"].get("dictID", 1) else 0
        if fid != want:
            ctx.violation(dict(kind="dictid", dict=name, entry=c["entry"], dictmode=c["dictmode"], params=c["params"], frame_hex=f.hex()[:2000]),
                          what="frame records dictionary ID %s, expected %d (%s via %s/%s)" % (fid, want, name, c["entry"], c["dictmode"]))
        if other is not None and fid not in (0, None, 424242):
            for dmode in DMODES[:4]:
                wrong.append("D %s|w|%s %s - %s %s %d" % (c["id"], dmode, dmode, codec.hx(other), codec.hx(f), len(c["x"]) + 16))
    dout, derrs = cd.impl(dlines + wrong)
    if derrs:
        ctx.violation(dict(kind="harness-crash", detail=derrs[:2]), what="zv_codec crashed decompressing with a dictionary: %r" % (derrs[0],))
    byid = {c["id"]: c for c in cases}
    for key, rest in dout.items():
        parts = key.split("|")
        c = byid[parts[0]]
        name, d = dicts[c["di"]]
        r = codec.parse_ok(rest)
        rep = dict(dict=name, entry=c["entry"], dictmode=c["dictmode"], params=c["params"], decode=parts[-1], dict_hex=d.hex()[:60000],
                   input_hex=c["x"].hex()[:60000], frame_hex=c["frame"].hex()[:60000], result=(r[1] if r[0] == "ERR" else "content differs")[:200])
        if len(parts) == 3:   # wrong dictionary
            if r[0] == "OK":
                ctx.violation(rep, what="decoding with a dictionary of another ID was accepted (%s, path %s)" % (name, parts[2]))
            ctx.count(("wrongid", parts[2]), nontrivial=True)
            continue
        if r[0] != "OK" or r[1] != c["x"]:
            ctx.violation(rep, what="dictionary round trip failed: %s compressed via %s/%s %s, decoded via %s: %s" % (
                name, c["entry"], c["dictmode"], c["params"], parts[1], rep["result"]))
    mres = cd.model(rcases)
    rdict_reject = 0
    for cid, m in mres.items():
        c = byid[cid]
        name, d = dicts[c["di"]]
        if m[0] != "OK":
            if m[1] == "dict":
                rdict_reject += 1      # R's loader is stricter than libzstd's (e.g. Huffman depth 12): no verdict from R
                continue
            ctx.violation(dict(dict=name, entry=c["entry"], dictmode=c["dictmode"], params=c["params"], dict_hex=d.hex()[:60000],
                               frame_hex=c["frame"].hex()[:60000], result="R: ERR %s site %s" % (m[1], m[2])),
                          what="reference decoder R rejects a frame compressed with dictionary %s (%s at %s)" % (name, m[1], m[2]))
            continue
        if m[1] != c["x"]:
            ctx.violation(dict(dict=name, entry=c["entry"], dictmode=c["dictmode"], params=c["params"], dict_hex=d.hex()[:60000],
                               frame_hex=c["frame"].hex()[:60000]), what="reference decoder R decodes a dictionary frame (%s) to different bytes" % name)
            continue
        ctx.count((name[:3], c["entry"].split(":")[0], c["dictmode"], codec.trace_signature(codec.parse_trace(m[2]))), nontrivial=len(c["x"]) > 0)
        ctx.cov["traces_validated_against_impl"] += 1
    ctx.notes["frames_where_R_loader_is_stricter"] = rdict_reject
    ctx.notes["dictionaries"] = {"total": len(dicts), "accepted_by_both_loaders": sum(1 for v in verdict.values() if v[0] and v[1]),
                                 "rejected_by_both": sum(1 for v in verdict.values() if not v[0] and not v[1])}
    # ---- arbitrary bytes as dictionary, both sides, sanitizers ----
    cda = codec.Codec(ctx, "asan")
    alines = []
    x = codec.gen_input(rng, "text", 3000)
    for i in range(60 if ctx.quick else 600):
        r = rng.random()
        if r < 0.4:
            d = MAGIC + rng.randbytes(rng.choice([0, 3, 4, 20, 200, 2000]))
        elif r < 0.8:
            base = bytearray(rng.choice([dd for n, dd in dicts if dd[:4] == MAGIC and len(dd) > 20]))
            for _ in range(rng.randint(1, 6)):
                base[rng.randrange(4, min(len(base), 400))] = rng.randrange(256)
            d = bytes(base[:rng.choice([len(base), 12, 50, 150])])
        else:
            d = rng.randbytes(rng.choice([1, 8, 100]))
        lvl = rng.choice([1, 3, 16, 19])
        alines.append("C a%d usingDict:%d - - %s %s" % (i, lvl, codec.hx(d), codec.hx(x)))
        alines.append("C b%d compress2 100:%d load %s %s" % (i, lvl, codec.hx(d), codec.hx(x)))
        alines.append("D e%d usingDict - %s %s 5000" % (i, codec.hx(d), "28b52ffd2000010000"))
    # accepted adversarial dictionaries at optimal-parser levels under the sanitizers (statistics seeded from the dictionary's tables)
    for i, (name, d) in enumerate(dicts):
        if i in verdict and verdict[i][0] and name.startswith("adv"):
            xi = input_for(rng, d, name)[:20000]
            for lvl in (16, 19):
                alines.append("C s%d_%d usingDict:%d - - %s %s" % (i, lvl, lvl, codec.hx(d), codec.hx(xi)))
    aout, aerrs = cda.impl(alines, nproc=8)
    if aerrs:
        ctx.violation(dict(kind="sanitizer", detail=[e[1][-1500:] for e in aerrs[:2]]),
                      what="ASan/UBSan build crashed or trapped while using arbitrary bytes as a dictionary: %s" % aerrs[0][1][-300:].replace("\n", " "))
    ctx.count(("arbitrary-dict-bytes", len(aout) > 0), nontrivial=True, n=len(alines))
    api_surface(ctx, random.Random(ctx.seed * 7919 + 5), cd, dicts, verdict)
    unit_tie(ctx, random.Random(ctx.seed * 104729 + 11), dicts, verdict)
    reuse_histories(ctx)
    reuse_histories_R(ctx, cd)
    ctx.sample(dict(dictionary=dicts[-1][0], dict_hex=dicts[-1][1].hex()[:300]))
    if cases:
        ctx.sample(dict(entry=cases[0]["entry"], dictmode=cases[0]["dictmode"], params=cases[0]["params"], dict=dicts[cases[0]["di"]][0]))
    ctx.proof_verdict(None)
