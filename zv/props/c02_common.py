"""Common driver of the streaming checks C02 (round trip / refinement) and C10 (progress / flush / hints).
Both execute call histories in lock-step on the real library (harness/c02_stream.c) and on the extracted Gallina
models (coq/Stream); they differ in the histories they emphasise and in the oracles they evaluate."""
import json
import random

from .. import codec, core
from .. import streamtie as st

# ---------------------------------------------------------------------------------------------
# decoder side

FAST_LEVELS = [-5, -1, 1, 1, 2, 3, 3, 4, 5, 6]


def stream_cparams(rng, small_window=True):
    p = {"level": rng.choice(FAST_LEVELS)}
    if small_window or rng.random() < 0.7:
        p["windowLog"] = rng.choice([10, 10, 10, 11, 12])
    if rng.random() < 0.4:
        p["checksum"] = 1
    if rng.random() < 0.3:
        p["contentSize"] = 0
    if rng.random() < 0.15:
        p["maxBlockSize"] = rng.choice([1024, 1025, 2000, 4096])
    if rng.random() < 0.15:
        p["format"] = 1
    if rng.random() < 0.2:
        p["minMatch"] = rng.choice([3, 4, 5])
    if rng.random() < 0.15:
        p["targetCBlockSize"] = rng.choice([1340, 2000])
    return p


def build_streams(ctx, rng, cd, n_lib, n_hand, n_multi):
    """-> list of dict(frame=bytes, content=bytes, parts=[(csize, osize)], magicless=bool, desc=str)"""
    streams = []
    # (a) frames emitted by the real compressor
    jobs = []
    sizes = [0, 1, 2, 5, 31, 32, 33, 100, 255, 256, 257, 1000, 1023, 1024, 1025, 2000, 3000, 3135, 3136, 3137, 4096, 5000, 7000,
             9000, 12000, 20000]
    for i in range(n_lib):
        kind = rng.choice(codec.KINDS + ["random", "random", "zeros"])
        size = rng.choice(sizes) if i >= len(sizes) else sizes[i]
        x = codec.gen_input(rng, kind, size)
        p = stream_cparams(rng)
        jobs.append(dict(id="f%d" % i, x=x, p=p, kind=kind))
    out, errs = cd.impl(["C %s compress2 %s - - %s" % (j["id"], codec.params_str(j["p"]), codec.hx(j["x"])) for j in jobs])
    if errs:
        ctx.violation(dict(kind="harness-crash", detail=errs[:2]), what="zv_codec crashed while compressing: %r" % (errs[0],), no_input=True)
    libframes = []
    for j in jobs:
        r = codec.parse_ok(out.get(j["id"], "ERR missing"))
        if r[0] != "OK":
            ctx.violation(dict(kind="compress-failed", params=j["p"], input_hex=j["x"].hex()[:20000], error=r[1]),
                          what="compress2 failed with %s (params %s, |x|=%d)" % (r[1], j["p"], len(j["x"])))
            continue
        ml = bool(j["p"].get("format"))
        fr = dict(frame=r[1], content=j["x"], parts=[(len(r[1]), len(j["x"]))], magicless=ml,
                  desc="lib-%s-%d-%s" % (j["kind"], len(j["x"]), codec.params_str(j["p"])))
        libframes.append(fr)
        streams.append(fr)
    # (b) hand-made frames (raw / RLE / empty blocks, wide FCS fields, single segment)
    hand = []
    for i in range(n_hand):
        ml = rng.random() < 0.15
        f, c, d = st.handmade_frame(rng, rng.choice(["small", "small", "big", "empty"]), magicless=ml)
        fr = dict(frame=f, content=c, parts=[(len(f), len(c))], magicless=ml, desc=d)
        hand.append(fr)
        streams.append(fr)
    # (c) several frames / skippable frames back to back (zstd1 format only)
    pool = [f for f in libframes + hand if not f["magicless"] and len(f["frame"]) < 6000]
    for i in range(n_multi):
        parts, frame, content, names = [], b"", b"", []
        for _ in range(rng.randint(2, 4)):
            if rng.random() < 0.35 or not pool:
                sk = st.skippable(rng.randbytes(rng.choice([0, 0, 1, 2, 3, 4, 5, 100, 2000])), rng.randrange(16))
                frame += sk
                parts.append((len(sk), 0))
                names.append("skip%d" % (len(sk) - 8))
            else:
                f = rng.choice(pool)
                frame += f["frame"]
                content += f["content"]
                parts.append((len(f["frame"]), len(f["content"])))
                names.append("z%d" % len(f["content"]))
        streams.append(dict(frame=frame, content=content, parts=parts, magicless=False, desc="multi-" + "+".join(names)))
    return streams


def header_len(frame, magicless):
    p = 0 if magicless else 4
    if not magicless and (int.from_bytes(frame[:4], "little") & 0xFFFFFFF0) == 0x184D2A50:
        return 8
    fhd = frame[p]
    single = (fhd >> 5) & 1
    return p + 1 + (0 if single else 1) + [0, 1, 2, 4][fhd & 3] + [0, 2, 4, 8][fhd >> 6] + (1 if (single and (fhd >> 6) == 0) else 0)


def decoder_cases(ctx, rng, streams, per_stream, header_splits=True):
    cases = []
    for s in streams:
        n = len(s["frame"])
        hl = header_len(s["frame"], s["magicless"]) if n else 0
        ops_list = []
        styles = ["hint", "all", "bytewise" if n <= 3000 else "mixed", "tinyout" if len(s["content"]) <= 1500 else "mixed"]
        for k in range(per_stream):
            ops_list.append(st.gen_dhistory(rng, styles[k] if k < len(styles) and rng.random() < 0.6 else None))
        if header_splits and rng.random() < 0.5:
            k = rng.randint(1, max(1, hl + 3))
            ops_list.append("%d:r;%s" % (k, rng.choice(["a:r", "h:r", "1:r", "a:3;a:r"])))
        for ops in ops_list:
            fl = {}
            if s["magicless"]:
                fl["ml"] = True
            maxcalls = 60000
            heavy = ops in ("1:r",) or all(o.split(":")[0] in ("0", "1", "2", "3") for o in ops.split(";"))
            tiny_out = all(o.split(":")[1] in ("0", "1", "2", "3", "5") for o in ops.split(";"))
            if (heavy and n > 4000) or (tiny_out and len(s["content"]) > 3000):
                maxcalls = 3000          # sample a prefix of a very long history
            r = rng.random()
            if r < 0.08 and len(s["content"]) < 200000:
                fl["so"] = len(s["content"]) + rng.choice([0, 0, 1, 100])
            elif r < 0.12 and len(s["parts"]) == 1 and s["parts"][0][1] > 0:
                fl["bm"] = max(1024, rng.choice([st.frame_block_max(s["frame"], s["magicless"]), 131072]))
            elif r < 0.15:
                fl["nock"] = True
            cases.append(dict(id="d%d" % len(cases), stream=s, ops=ops, flags=fl, maxcalls=maxcalls))
    return cases


def run_decoder_lockstep(ctx, tie, cases, private=True, prop="C02"):
    """execute each history on the real decoder, replay the concrete (offered, capacity) list on the model, compare"""
    def iflags(c):      # a dictionary attached for indefinite use travels as one more flag of the harness
        fl = st.dflags_str(c["flags"])
        if c.get("dict"):
            fl = ("" if fl == "-" else fl + ",") + "dict=" + codec.hx(c["dict"])
        return fl
    lines = ["X %s %s %s %s %d" % (c["id"], iflags(c), codec.hx(c["stream"]["frame"]), c["ops"], c["maxcalls"]) for c in cases]
    iout, ierrs = tie.impl(lines)
    if ierrs:
        ctx.violation(dict(kind="harness-crash", detail=ierrs[:2]), what="c02_stream crashed during a decoding history: %r" % (ierrs[0],))
    mlines = []
    for c in cases:
        r = iout.get(c["id"])
        if r is None or not r.startswith("OK "):
            c["irecs"] = None
            continue
        t = r.split(" ")
        c["iout"] = codec.unhx(t[1])
        c["irecs"] = st.parse_drecords(t[2] if len(t) > 2 else "-")
        calls = ";".join("%d:%d" % (x["offered"], x["cap"]) for x in c["irecs"])
        if c.get("dict"):
            mlines.append("XD %s %s %s %s %s" % (c["id"], st.model_dflags(c["flags"]), codec.hx(c["dict"]), codec.hx(c["stream"]["frame"]), calls or "-"))
        else:
            mlines.append("X %s %s %s %s" % (c["id"], st.model_dflags(c["flags"]), codec.hx(c["stream"]["frame"]), calls or "-"))
    mout, merrs = tie.model(mlines)
    if merrs:
        ctx.violation(dict(kind="model-crash", detail=merrs[:2]), what="the extracted streaming model crashed: %r" % (merrs[0],), no_input=True)
    nviol = 0
    hist = {}
    for c in cases:
        if c["irecs"] is None:
            continue
        s = c["stream"]
        rep = dict(kind="decoder-history", frame_hex=s["frame"].hex(), ops=c["ops"], flags=c["flags"], desc=s["desc"],
                   parts=s["parts"], valid=s.get("valid", True), why=s.get("why"),
                   calls=[(x["offered"], x["cap"]) for x in c["irecs"]][:400])
        if c.get("dict"):
            rep["dict_hex"] = c["dict"].hex()
            rep["content_hex"] = s["content"].hex() if s.get("content") is not None else None
        # direct oracle: the property statement on the observed behaviour of the real decoder
        stable = "so" in c["flags"]
        if s.get("valid", True):
            viol = st.check_dstream_oracle(c["irecs"], c["iout"], s["content"], st.frame_ends(s["parts"]), len(s["frame"]))
        elif s.get("must_reject", True):
            viol = check_invalid_stream_oracle(c["irecs"], c["iout"], s, len(s["frame"]))
        else:
            viol = None          # malformed beyond the damage classes the properties name: lock-step comparison only
        if viol and c.get("legit_error") and c["legit_error"] in viol[1]:
            viol = None          # an error the caller asked for (e.g. a stable output buffer smaller than the content)
        key = known_key(c, viol[0]) if viol else None
        if viol:
            nviol += 1
            ctx.violation(rep, what="streaming decompression of a %s stream (%s, ops %s, flags %s): %s"
                               % ("valid" if s.get("valid", True) else "damaged", s["desc"], c["ops"][:80], c["flags"], viol[1]), key=key)
        m = mout.get(c["id"])
        if m is None or not m.startswith("OK "):
            ctx.violation(dict(rep, model=str(m)[:300]), what="streaming decoder model gave no result for a history (%s)" % (str(m)[:120],), no_input=True)
            continue
        t = m.split(" ")
        mrecs = st.parse_mrecords(t[2] if len(t) > 2 else "-", st.DFIELDS)
        d = st.first_diff(c["irecs"], mrecs, st.DFIELDS, private=private)
        if d is None and codec.unhx(t[1]) != c["iout"]:
            d = (len(mrecs), "output-bytes", len(c["iout"]), len(codec.unhx(t[1])))
        if d is not None:
            pub = d[1] in ("consumed", "produced", "ret", "output-bytes", "number-of-calls")
            ctx.violation(dict(rep, first_difference=dict(call=d[0], field=d[1], implementation=d[2], model=d[3]),
                               impl_call=c["irecs"][d[0]] if d[0] < len(c["irecs"]) else None,
                               model_call=mrecs[d[0]] if d[0] < len(mrecs) else None),
                          what="ZSTD_decompressStream and DStreamModel disagree at call %d on %s: implementation %s, model %s (%s, ops %s, flags %s)"
                               % (d[0], d[1], d[2], d[3], s["desc"], c["ops"][:80], c["flags"]),
                          no_input=(viol is None), key=known_key(c, d[0]))
            nviol += 1
        sig = st.dsignature(c["irecs"])
        ctx.count(("D", sig, bool(c["flags"].get("so"))), nontrivial=len(c["irecs"]) > 1)
        ctx.cov["traces_validated_against_impl"] += 1
        for r in c["irecs"]:
            k = "zdss=%d" % r["streamStage"]
            hist[k] = hist.get(k, 0) + 1
            if r["hostage"]:
                hist["hostage"] = hist.get("hostage", 0) + 1
        if len(s["frame"]) < 48 and len(c["irecs"]) < 12:
            ctx.sample(dict(kind="decoder-history", frame_hex=s["frame"].hex(), ops=c["ops"], flags=c["flags"],
                            calls=["%(offered)d:%(cap)d->%(consumed)d:%(produced)d:%(ret)s" % x for x in c["irecs"]]))
    return hist, nviol


def check_invalid_stream_oracle(recs, out, s, total_in):
    """streams that the specification (R) and the one-shot decoder reject because of a content-size lie, checksum damage or
    truncation (the damage classes of C09; f70c502 was one): whatever the segmentation, streaming decompression
    must not report them complete (return 0 with every byte consumed); what it emits before the error must still be a prefix
    of what the valid part regenerates (s["content"] = bytes regenerated by the frames before the damaged one + the
    damaged frame's blocks as far as R could decode them, may be None = unknown)"""
    cin = 0
    for i, r in enumerate(recs):
        ret = st.norm_ret(r["ret"])
        if isinstance(ret, tuple):
            return None
        cin += r["consumed"]
        if ret == 0 and cin == total_in:
            return (i, "call %d: a stream that one-shot decompression rejects (%s) was accepted by streaming decompression "
                       "(returned 0 with all %d bytes consumed, %d bytes regenerated)" % (i, s.get("why", "invalid"), total_in, len(out)))
    return None


def known_key(c, i):
    """stable keys of the findings recorded in docs/C02.md / docs/C10.md (i = index of the offending call)"""
    recs = c.get("irecs") or []
    if c["stream"].get("key"):       # a stream shape with a recorded finding (set by the caller)
        return c["stream"]["key"]
    # C02-shortcut-after-split-header: the single-pass shortcut probes the caller's buffer although part of the frame
    # header was consumed by an earlier call (previous call stopped inside zdss_loadHeader with lhSize > 0)
    if 1 <= i < len(recs) and recs[i - 1]["streamStage"] == 1 and recs[i - 1]["lhSize"] > 0:
        return "C02-shortcut-after-split-header"
    return None


def run_property(ctx, pid):
    ctx.prove() if False else None
    rng = random.Random(ctx.seed)
    cd = codec.Codec(ctx)
    tie = st.Tie(ctx)
    streams = build_streams(ctx, rng, cd, 60, 40, 20)
    cases = decoder_cases(ctx, rng, streams, 3)
    hist, nv = run_decoder_lockstep(ctx, tie, cases)
    ctx.notes["decoder_stage_histogram"] = hist
    core.log("decoder histories: %d, violations %d" % (len(cases), nv))
    kc = compressor_cases(ctx, rng, 150)
    khist = run_compressor_lockstep(ctx, tie, cd, kc)
    ctx.notes["compressor_histogram"] = khist
    core.log("compressor histories: %d" % len(kc))


# ---------------------------------------------------------------------------------------------
# compressor side

C_IN = ["0", "1", "2", "3", "h", "h", "h+1", "h-1", "b", "b+1", "b-1", "a", "100", "1000", "5000"]
C_CAP = ["0", "1", "2", "3", "5", "r", "r", "r", "100", "1000"]


def gen_chistory(rng, style=None):
    style = style or rng.choice(["mixed", "mixed", "mixed", "flushy", "tinyend", "hint", "bytewise", "oneshot", "blockedge", "multiframe"])
    if style == "oneshot":
        return rng.choice(["a:r:2", "a:r:0;0:r:2", "a:r:1;0:r:2"])
    if style == "hint":
        return "h:r:0"
    if style == "bytewise":
        return "1:r:%d" % rng.choice([0, 0, 1])
    ops = []
    if style == "flushy":      # flush inside a block, repeatedly, with small outputs
        for _ in range(rng.randint(3, 14)):
            ops.append("%s:%s:1" % (rng.choice(["1", "3", "100", "b-1", "h-1", "1000"]), rng.choice(["0", "1", "3", "5", "r", "r"])))
            if rng.random() < 0.5:
                ops.append("%s:%s:0" % (rng.choice(C_IN), rng.choice(C_CAP)))
    elif style == "tinyend":   # end with tiny output
        for _ in range(rng.randint(0, 4)):
            ops.append("%s:%s:%d" % (rng.choice(C_IN), rng.choice(C_CAP), rng.choice([0, 0, 1])))
        for _ in range(rng.randint(2, 30)):
            ops.append("a:%s:2" % rng.choice(["0", "1", "1", "2", "3", "5"]))
    elif style == "blockedge":
        for _ in range(rng.randint(2, 8)):
            ops.append("%s:%s:%d" % (rng.choice(["b", "b+1", "b-1", "h", "h+1", "h-1"]), rng.choice(["r", "r", "5", "0"]), rng.choice([0, 0, 0, 1, 2])))
    elif style == "multiframe":
        for _ in range(rng.randint(2, 4)):
            for _ in range(rng.randint(0, 3)):
                ops.append("%s:%s:%d" % (rng.choice(C_IN[:-4] + ["100", "1000"]), rng.choice(C_CAP), rng.choice([0, 0, 1])))
            ops.append("%s:r:2" % rng.choice(["0", "1", "100", "b", "1000"]))
    else:
        for _ in range(rng.randint(2, 16)):
            ops.append("%s:%s:%d" % (rng.choice(C_IN), rng.choice(C_CAP), rng.choice([0, 0, 0, 1, 1, 2])))
    return ";".join(ops)


def compressor_cases(ctx, rng, n, mt=False, big=2):
    cases = []
    sizes = [0, 1, 2, 100, 1000, 1023, 1024, 1025, 2047, 2048, 2049, 3000, 5000, 9000, 20000]
    for i in range(n):
        size = rng.choice(sizes)
        if i < big:
            size = rng.choice([131071, 131072, 131073, 150000, 262145])
        kind = rng.choice(codec.KINDS)
        x = codec.gen_input(rng, kind, size)
        p = stream_cparams(rng, small_window=(size <= 20000 and rng.random() < 0.8))
        if "windowLog" in p and size > 100000:
            del p["windowLog"]
        r = rng.random()
        if r < 0.12:
            p["stableIn"] = 1
        elif r < 0.2:
            p["stableOut"] = 1
        if mt:
            p["nbWorkers"] = rng.choice([1, 2, 3])
            p.pop("stableIn", None)
            p.pop("stableOut", None)
            if rng.random() < 0.6:
                p["jobSize"] = 1
        pledged = None
        ops = gen_chistory(rng)
        if rng.random() < 0.1 and "multiframe" not in ops:
            pledged = size
        pre = None
        if rng.random() < 0.08 and size > 0:      # the same context served a single-call compression before (other size)
            pre = rng.choice([size, max(0, size - 1), size // 2, size + 0])
        cases.append(dict(id="k%d" % len(cases), x=x, params=p, ops=ops, pledged=pledged, kind=kind, mt=mt, pre=pre))
    return cases


def parse_krecords(s):
    recs = []
    if s == "-":
        return recs
    for r in s.split(";"):
        if not r:
            continue
        v = r.split(":")
        d = dict(offered=int(v[0]), cap=int(v[1]), dir=int(v[2]))
        for k, x in zip(st.KFIELDS + ["windowLog", "maxBlockSize"], v[3:]):
            d[k] = x if k == "ret" else int(x)
        recs.append(d)
    return recs


def tape_of_trace(frames):
    """R's trace of the real output -> frames string for the model driver (hs/ck/cs:rs,...)"""
    out = []
    for f in frames:
        if f["kind"] != "zstd":
            return None
        bl = ",".join("%d:%d" % (3 + (1 if b["type"] == 1 else b["csize"]), b["rsize"]) for b in f["blocks"])
        out.append("%d/%d/%s" % (f["hsize"], f["checksum"], bl))
    return ";".join(out) if out else "-"


def ksignature(recs):
    s = set()
    for r in recs:
        ret = st.norm_ret(r["ret"])
        s.add((r["dir"], r["streamStage"], "E" if isinstance(ret, tuple) else str(min(ret, 1)), r["frameEnded"], r["consumed"] == 0,
               r["produced"] == 0, r["inBuffPos"] == 0, r["inBuffPos"] == r["inToCompress"], r["outBuffContentSize"] > 0,
               r["notConsumed"] > 0, r["consumed"] < 0))
    return tuple(sorted(s))


def run_compressor_lockstep(ctx, tie, cd, cases, private=True, flush_oracle=True):
    lines = []
    for c in cases:
        l = "Y %s %s %s %s" % (c["id"], codec.params_str(c["params"]), codec.hx(c["x"]), c["ops"])
        if c["pledged"] is not None:
            l += " %d" % c["pledged"]
        elif c.get("pre") is not None:
            l += " -"
        if c.get("pre") is not None:
            l += " pre=%d" % c["pre"]
        lines.append(l)
    iout, ierrs = tie.impl(lines)
    if ierrs:
        ctx.violation(dict(kind="harness-crash", detail=ierrs[:2]), what="c02_stream crashed during a compression history: %r" % (ierrs[0],))
    rcases, dlines, flush_lines = [], [], []
    for c in cases:
        r = iout.get(c["id"])
        c["irecs"] = None
        if r is None or not r.startswith("OK "):
            if r is not None and r.startswith("ERR") and c["pledged"] is None:
                ctx.violation(dict(kind="compress-history", params=c["params"], ops=c["ops"], input_hex=c["x"].hex()[:100000], result=r),
                              what="streaming compression failed at parameter setup: %s (%s)" % (r, c["params"]))
            continue
        t = r.split(" ")
        c["out"] = codec.unhx(t[1])
        c["irecs"] = parse_krecords(t[2] if len(t) > 2 else "-")
        c["consumed"] = sum(x["consumed"] for x in c["irecs"] if not isinstance(st.norm_ret(x["ret"]), tuple))
        ml = bool(c["params"].get("format"))
        c["ml"] = ml
        rcases.append((c["id"], ",".join((["magicless"] if ml else []) + ["nostrict"]), None, c["out"]))
        dlines.append("D %s stream:%d:%d %s - %s %d" % (c["id"], 1 + len(c["out"]) // 7, 1 + len(c["x"]) // 5,
                                                         codec.dparams_str({"format": 1}) if ml else "-", codec.hx(c["out"]), len(c["x"]) + 16))
        # C10: at every completed flush the bytes so far must regenerate the input consumed so far
        if flush_oracle:
            cin = cout = 0
            for i, x in enumerate(c["irecs"]):
                if isinstance(st.norm_ret(x["ret"]), tuple):
                    break
                cin += x["consumed"]
                cout += x["produced"]
                if x["dir"] == 1 and st.norm_ret(x["ret"]) == 0 and cout > 0:
                    fid = "%s.f%d" % (c["id"], i)
                    c.setdefault("flushpoints", []).append((fid, i, cin, cout))
                    flush_lines.append("X %s %s %s a:r 64" % (fid, "ml" if ml else "-", codec.hx(c["out"][:cout])))
    mres = cd.model(rcases) if rcases else {}
    dout, derrs = cd.impl(dlines)
    fout, ferrs = tie.impl(flush_lines) if flush_lines else ({}, [])
    if derrs or ferrs:
        ctx.violation(dict(kind="harness-crash", detail=(derrs + ferrs)[:2]), what="harness crashed while decoding streamed output")
    mlines = []
    for c in cases:
        if c["irecs"] is None:
            continue
        recs = c["irecs"]
        last = recs[-1] if recs else None
        errored = last is not None and isinstance(st.norm_ret(last["ret"]), tuple)
        rep = dict(kind="compress-history", params=c["params"], ops=c["ops"], pledged=c["pledged"], pre=c.get("pre"), input_hex=c["x"].hex()[:200000],
                   calls=[(x["offered"], x["cap"], x["dir"]) for x in recs][:400])
        c["rep"] = rep
        if errored:
            en = st.norm_ret(last["ret"])[1]
            legit = (c["pledged"] is not None and en == "srcSize_wrong") or (c["params"].get("stableOut") and en == "dstSize_tooSmall")
            if not legit:
                ctx.violation(dict(rep, error=en), what="ZSTD_compressStream2 failed with %s in a legal history (params %s, ops %s)" % (en, c["params"], c["ops"][:80]))
            continue
        x = c["x"]
        consumed = c["consumed"]
        complete = last is not None and last["dir"] == 2 and st.norm_ret(last["ret"]) == 0
        # direct oracle 1: decode(all emitted) == consumed, through R and through libzstd's streaming decoder
        m = mres.get(c["id"], ("ERR", "missing", -1))
        d = codec.parse_ok(dout.get(c["id"], "ERR missing"))
        if complete:
            if m[0] != "OK" or m[1] != x[:consumed]:
                ctx.violation(dict(rep, decoder="R", result=str(m[:2])[:200], out_hex=c["out"].hex()[:200000]),
                              what="reference decoder R does not regenerate the consumed input from the streamed output (%s; params %s, ops %s)"
                                   % ("ERR %s" % (m[1],) if m[0] != "OK" else "content differs", c["params"], c["ops"][:80]))
                continue
            if d[0] != "OK" or d[1] != x[:consumed]:
                ctx.violation(dict(rep, decoder="libzstd", result=str(d[:2])[:200], out_hex=c["out"].hex()[:200000]),
                              what="libzstd does not regenerate the consumed input from the streamed output (%s; params %s, ops %s)"
                                   % (d[1] if d[0] != "OK" else "content differs", c["params"], c["ops"][:80]))
                continue
        # C10 flush oracle
        for fid, i, cin, cout in c.get("flushpoints", []):
            fr = fout.get(fid)
            ok = False
            if fr is not None and fr.startswith("OK "):
                ok = codec.unhx(fr.split(" ")[1]) == x[:cin]
            if not ok:
                ctx.violation(dict(rep, flush_call=i, consumed_so_far=cin, produced_so_far=cout, prefix_hex=c["out"][:cout].hex()[:200000],
                                   decoded=str(fr)[:300]),
                              what="compressStream2(flush) returned 0 at call %d but the %d bytes emitted so far do not regenerate the %d bytes consumed so far (params %s, ops %s)"
                                   % (i, cout, cin, c["params"], c["ops"][:80]))
                break
        if c["mt"] or not complete or m[0] != "OK":
            c["model_skipped"] = True
            continue
        frames = codec.parse_trace(m[2])
        tape = tape_of_trace(frames)
        if tape is None:
            continue
        c["trace"] = frames
        kfl = ",".join((["si"] if c["params"].get("stableIn") else []) + (["so"] if c["params"].get("stableOut") else []) + (["ml"] if c["ml"] else [])) or "-"
        nframe = 0
        calls = []
        for r in recs:
            pl = str(c["pledged"]) if (c["pledged"] is not None and nframe == 0) else "-"
            calls.append("%d:%d:%d:%d:%d:%s" % (r["offered"], r["cap"], r["dir"], r["windowLog"], r["maxBlockSize"], pl))
            if r["dir"] == 2 and st.norm_ret(r["ret"]) == 0:
                nframe += 1
        mlines.append("Y %s %s %s %s %s %s" % (c["id"], kfl, codec.hx(x), ";".join(calls), codec.hx(c["out"]), tape))
    mout, merrs = tie.model(mlines)
    if merrs:
        ctx.violation(dict(kind="model-crash", detail=merrs[:2]), what="the extracted streaming model crashed: %r" % (merrs[0],), no_input=True)
    hist = {}
    for c in cases:
        if c["irecs"] is None or c.get("model_skipped") or "trace" not in c:
            if c["irecs"]:
                ctx.count(("KMT" if c["mt"] else "K-", ksignature(c["irecs"])), nontrivial=len(c["irecs"]) > 1)
            continue
        recs = c["irecs"]
        m = mout.get(c["id"])
        if m is None or not m.startswith("OK "):
            ctx.violation(dict(c["rep"], model=str(m)[:300]), what="streaming compressor model gave no result (%s)" % (str(m)[:120],), no_input=True)
            continue
        t = m.split(" ")
        mrecs = st.parse_mrecords(t[1], st.KFIELDS)
        if c.get("pre") is not None:
            # until the first streamed frame is initialised the buffer geometry fields are leftovers of the single-call compression
            for r, mr in zip(recs, mrecs):
                if r["streamStage"] != 0 or r["frameEnded"]:
                    break
                for f in ("blockSize", "inBuffSize", "outBuffSize", "hint", "inBuffPos", "inToCompress", "inBuffTarget",
                          "outBuffContentSize", "outBuffFlushedSize"):
                    r[f] = mr.get(f, r[f])
        d = st.first_diff(recs, mrecs, st.KFIELDS, private=private)
        bad = "bad=1" in m
        if d is None and bad:
            d = (len(mrecs), "chunk-alignment", "blocks of the real output", "do not regenerate the chunks the model hands to the block compressor")
        if d is not None:
            ctx.violation(dict(c["rep"], first_difference=dict(call=d[0], field=d[1], implementation=d[2], model=d[3]),
                               impl_call=recs[d[0]] if d[0] < len(recs) else None, model_call=mrecs[d[0]] if d[0] < len(mrecs) else None,
                               chunks=t[-1][:2000]),
                          what="ZSTD_compressStream2 and CStreamModel disagree at call %d on %s: implementation %s, model %s (params %s, ops %s)"
                               % (d[0], d[1], d[2], d[3], c["params"], c["ops"][:80]), no_input=True)
        ctx.count(("K", ksignature(recs)), nontrivial=len(recs) > 1)
        ctx.cov["traces_validated_against_impl"] += 1
        for r in recs:
            k = "dir%d/zcss%d" % (r["dir"], r["streamStage"])
            hist[k] = hist.get(k, 0) + 1
        if len(c["x"]) <= 100 and len(recs) < 10:
            ctx.sample(dict(kind="compress-history", params=c["params"], input_hex=c["x"].hex(), ops=c["ops"],
                            calls=["%(offered)d:%(cap)d:%(dir)d->%(consumed)d:%(produced)d:%(ret)s" % r for r in recs]))
    return hist


def run_store_tie(ctx, rng, tie, n):
    """StoreStream.v (the concrete block compressor of C02_store_stream_round_trip / _end_to_end) against the real code:
    on incompressible input, with a checksum and without the content size field, ZSTD_compressStream2 must emit byte for
    byte what the buffering model around the store compressor emits, for the same call history."""
    cases = []
    sizes = [0, 1, 2, 100, 1000, 1023, 1024, 1025, 2047, 2048, 2049, 5000, 20000, 70000, 131071, 131072, 131073, 262145]
    for i in range(n):
        size = rng.choice(sizes if i >= 3 else sizes[-4:])
        p = {"level": rng.choice([1, 1, 2, 3]), "checksum": 1, "contentSize": 0}
        if rng.random() < 0.7:
            p["windowLog"] = rng.choice([10, 10, 11, 12, 14, 17, 20, 23, 27])
        if rng.random() < 0.25:
            p["maxBlockSize"] = rng.choice([1024, 1025, 2000, 4096, 65536])
        r = rng.random()
        if r < 0.1:
            p["stableIn"] = 1
        cases.append(dict(id="s%d" % i, x=rng.randbytes(size), params=p, ops=gen_chistory(rng)))
    iout, ierrs = tie.impl(["Y %s %s %s %s" % (c["id"], codec.params_str(c["params"]), codec.hx(c["x"]), c["ops"]) for c in cases])
    if ierrs:
        ctx.violation(dict(kind="harness-crash", detail=ierrs[:2]), what="c02_stream crashed during a store-tie history: %r" % (ierrs[0],))
    mlines = []
    for c in cases:
        r = iout.get(c["id"])
        if r is None or not r.startswith("OK "):
            continue
        t = r.split(" ")
        c["out"] = codec.unhx(t[1])
        recs = parse_krecords(t[2] if len(t) > 2 else "-")
        if any(isinstance(st.norm_ret(x["ret"]), tuple) for x in recs):
            continue
        c["recs"] = recs
        kfl = "si" if c["params"].get("stableIn") else "-"
        calls = ["%d:%d:%d:%d:%d:-" % (x["offered"], x["cap"], x["dir"], x["windowLog"], x["maxBlockSize"]) for x in recs]
        mlines.append("YS %s %s %s %s" % (c["id"], kfl, codec.hx(c["x"]), ";".join(calls)))
    mout, merrs = tie.model(mlines)
    if merrs:
        ctx.violation(dict(kind="model-crash", detail=merrs[:2]), what="the extracted store-stream model crashed: %r" % (merrs[0],), no_input=True)
    nok = 0
    for c in cases:
        if "recs" not in c:
            continue
        m = mout.get(c["id"])
        mo = codec.unhx(m.split(" ")[1]) if m is not None and m.startswith("OK ") else None
        if mo != c["out"]:
            k = next((j for j, (a, b) in enumerate(zip(mo or b"", c["out"])) if a != b), min(len(mo or b""), len(c["out"])))
            ctx.violation(dict(kind="store-tie", params=c["params"], ops=c["ops"], input_hex=c["x"].hex()[:200000], first_difference=k,
                               implementation_hex=c["out"].hex()[:4000], model_hex=(mo or b"").hex()[:4000], model=str(m)[:200]),
                          what="ZSTD_compressStream2 on incompressible input and the store-stream model (StoreStream.v) emit different bytes: first difference at byte %d "
                               "(implementation %d bytes, model %s bytes; params %s, ops %s)" % (k, len(c["out"]), len(mo) if mo is not None else "no", c["params"], c["ops"][:80]))
        else:
            nok += 1
            ctx.cov["traces_validated_against_impl"] += 1
        ctx.count(("STORE", len(c["recs"]) > 1, c["out"][-1:] != b"" and len(c["x"]) > 131072), nontrivial=len(c["recs"]) > 1)
    return nok
