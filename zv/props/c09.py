"""C09 - truncation, size lies and checksum damage are reported, never accepted.

Theorems (coq/Props/Properties_C09.v): prefix stability of the reference decoder R, "no proper prefix of a
complete frame is accepted", content size / checksum enforced.  Tie: for a catalogue of frame layouts, EVERY cut
point k is fed to libzstd (one-shot, streaming under 3 segmentations, buffer-less) and to the extracted R:
none may report success; then trailing garbage, every single-bit flip of the stored checksum, sampled bit
flips anywhere (success is allowed only with the original bytes), content-size lies, and pledged-size lies."""
import random
import struct

from .. import codec, core


def py_frame(rng, blocks, fcs_mode, single, dictid_bytes=0, checksum=False, window_log=10):
    """hand-built frame of raw/RLE blocks. fcs_mode in {None,1,2,4,8}; returns (frame, content)"""
    content = b"".join(b[1] if b[0] == "raw" else bytes([b[1]]) * b[2] for b in blocks)
    n = len(content)
    fcs_flag = {None: 0, 1: 0, 2: 1, 4: 2, 8: 3}[fcs_mode]
    did_flag = {0: 0, 1: 1, 2: 2, 4: 3}[dictid_bytes]
    fhd = (fcs_flag << 6) | ((1 if single else 0) << 5) | ((1 if checksum else 0) << 2) | did_flag
    out = bytearray(struct.pack("<I", 0xFD2FB528))
    out.append(fhd)
    if not single:
        out.append((window_log - 10) << 3)
    out += (0).to_bytes(dictid_bytes, "little")
    if fcs_mode == 1:
        out += n.to_bytes(1, "little")
    elif fcs_mode == 2:
        out += (n - 256).to_bytes(2, "little")
    elif fcs_mode in (4, 8):
        out += n.to_bytes(fcs_mode, "little")
    for i, b in enumerate(blocks):
        last = 1 if i == len(blocks) - 1 else 0
        if b[0] == "raw":
            out += (last | (0 << 1) | (len(b[1]) << 3)).to_bytes(3, "little") + b[1]
        else:
            out += (last | (1 << 1) | (b[2] << 3)).to_bytes(3, "little") + bytes([b[1]])
    return bytes(out), content


def catalogue(ctx, rng, cd):
    """list of (name, frame, content) of complete single frames with varied layouts"""
    cat = []
    # hand-built raw/RLE layouts: every header form
    for fcs_mode, single in [(None, False), (1, True), (2, False), (2, True), (4, False), (4, True), (8, False), (8, True)]:
        for did in (0, 1, 2, 4):
            if did and rng.random() < 0.6:
                continue
            n = rng.choice([300, 400]) if fcs_mode == 2 else rng.choice([0, 1, 5, 40, 200])
            if fcs_mode == 1 and n > 255:
                n = 200
            blocks = []
            left = n
            while left > 0:
                k = min(left, rng.choice([1, 3, 17, 100, 300]))
                blocks.append(("raw", rng.randbytes(k)) if rng.random() < 0.6 else ("rle", rng.randrange(256), k))
                left -= k
            if rng.random() < 0.5 or not blocks:
                blocks.append(("raw", b""))       # empty last block
            f, x = py_frame(rng, blocks, fcs_mode, single, did)
            cat.append(("py fcs=%s ss=%d did=%d nb=%d" % (fcs_mode, single, did, len(blocks)), f, x))
    # real compressor output: compressed blocks, checksums, multi-block, magic variations
    reqs = []
    for i in range(14 if ctx.quick else 60):
        kind = rng.choice(["text", "lowent", "rep3", "selfcopy", "zeros", "random", "period"])
        n = rng.choice([1, 10, 60, 150, 300, 700, 2500])
        x = codec.gen_input(rng, kind, n)
        p = {"level": rng.choice([1, 3, 19]), "checksum": rng.choice([0, 1, 1]), "contentSize": rng.choice([0, 1, 1])}
        if n >= 2000:
            p["maxBlockSize"] = 1024
        if rng.random() < 0.3:
            p["windowLog"] = 10
        reqs.append(("z%d" % i, x, p))
    out, errs = cd.impl(["C %s compress2 %s - - %s" % (i, codec.params_str(p), codec.hx(x)) for i, x, p in reqs])
    for i, x, p in reqs:
        r = codec.parse_ok(out.get(i, "ERR missing"))
        if r[0] == "OK":
            cat.append(("zstd %s n=%d" % (p, len(x)), r[1], x))
    return cat


def run(ctx):
    ctx.cov["rule"] = ("layout catalogue = hand-built raw/RLE frames covering every header form (FCS 0/1/2/4/8 bytes incl. the +256 form, single "
                       "segment, dictID widths, empty last block) + real compressor output (compressed blocks, checksum, multi-block); for each "
                       "frame EVERY cut point k in 1..|f|-1 x {one-shot, stream 1-byte / 7-byte / whole segments, buffer-less, R}; trailing garbage; "
                       "every single-bit flip of the stored checksum; sampled bit flips elsewhere; content-size lies; pledged-size lies; "
                       "distinct = distinct (layout, kind of damage, position class); non-trivial = every case (all are damaged frames)")
    ctx.prove()
    cd = codec.Codec(ctx)
    rng = random.Random(ctx.seed)
    cat = catalogue(ctx, rng, cd)
    lines, rcases, meta = [], [], {}

    NOCK = codec.dparams_str({"forceIgnoreChecksum": 1})

    def add(cid, data, expect_content, what, layout, paths, nock=False):
        meta[cid] = (data, expect_content, what, layout)
        cap = len(expect_content) + 64 if expect_content is not None else 4096
        for pth in paths:
            lines.append("D %s|%s %s %s - %s %d" % (cid, pth, pth, NOCK if nock else "-", codec.hx(data), cap))
        rcases.append((cid, "nostrict" + (",nocheck" if nock else ""), None, data))

    PATHS = ["oneshot", "stream:1:0", "stream:7:3", "stream:0:0", "continue"]
    for li, (name, f, x) in enumerate(cat):
        # sanity: the complete frame decodes
        add("L%d.full" % li, f, x, "complete", name, ["oneshot", "stream:1:0"])
        cuts = range(1, len(f)) if len(f) <= 320 or not ctx.quick else sorted(set(list(range(1, 40)) + rng.sample(range(40, len(f)), 120) + list(range(len(f) - 12, len(f)))))
        for k in cuts:
            add("L%d.cut%d" % (li, k), f[:k], None, "prefix", name, PATHS if len(f) <= 320 else ["oneshot", "stream:7:3"])
        for j in range(3):
            g = rng.randbytes(rng.choice([1, 2, 3, 4, 5, 9]))
            add("L%d.tail%d" % (li, j), f + g, None, "garbage", name, ["oneshot"])
        has_ck = (f[4] >> 2) & 1
        if has_ck:
            # checksum verification switched off (ZSTD_d_forceIgnoreChecksum): the 4 checksum bytes still belong to the frame
            for k in range(max(1, len(f) - 6), len(f)):
                add("L%d.nockcut%d" % (li, k), f[:k], None, "prefix", name + " nocheck", PATHS, nock=True)
            add("L%d.nockfull" % li, f, x, "complete", name + " nocheck", ["oneshot", "stream:1:0", "stream:7:3", "continue"], nock=True)
            add("L%d.nock2" % li, f + f, x + x, "complete", name + " nocheck x2", ["oneshot", "stream:1:0", "stream:0:0"], nock=True)
        if has_ck:
            for bit in range(32):
                d = bytearray(f)
                d[len(f) - 4 + bit // 8] ^= 1 << (bit % 8)
                add("L%d.ck%d" % (li, bit), bytes(d), x, "ckflip", name, ["oneshot", "stream:7:3", "stream:1:0", "continue"])
        # flips outside the stored checksum are only meaningful when a checksum protects the content
        # (zstd.h promises detection only then); stay behind the frame header (flipping the checksum flag itself is outside the quantifier)
        hdr = 4 + 1 + (0 if (f[4] >> 5) & 1 else 1) + [0, 1, 2, 4][f[4] & 3] + ([1 if (f[4] >> 5) & 1 else 0, 2, 4, 8][f[4] >> 6])
        fcsw = [1 if (f[4] >> 5) & 1 else 0, 2, 4, 8][f[4] >> 6]
        if fcsw:
            # content-size lies: declared size off by one (same field width)
            fpos = hdr - fcsw
            v = int.from_bytes(f[fpos:fpos + fcsw], "little")
            for dv in (-1, 1):
                if 0 <= v + dv < (1 << (8 * fcsw)):
                    d = bytearray(f)
                    d[fpos:fpos + fcsw] = (v + dv).to_bytes(fcsw, "little")
                    add("L%d.fcs%+d" % (li, dv), bytes(d), x, "fcslie", name, ["oneshot", "stream:7:3", "stream:0:0", "continue"])
        for j in range((40 if ctx.quick else 200) if has_ck and len(f) > hdr else 0):
            pos = rng.randrange(hdr, len(f))
            d = bytearray(f)
            d[pos] ^= 1 << rng.randrange(8)
            add("L%d.flip%d" % (li, j), bytes(d), x, "flip", name, ["oneshot"])
    # skippable frames (alone, before and after a zstd frame): a stream cut inside a skippable frame's header or content is as
    # incomplete as one cut inside a block; cuts that fall exactly between two frames leave a complete stream and are skipped
    small = [(name, f, x) for name, f, x in cat if len(f) <= 320][:2]
    sk = lambda payload, v=0: (0x184D2A50 + v).to_bytes(4, "little") + len(payload).to_bytes(4, "little") + payload
    comps = []
    for j, n in enumerate((0, 1, 7, 40, 300)):
        comps.append(("skip%d" % n, [sk(rng.randbytes(n), j % 16)], b""))
    for name, f, x in small:
        comps.append(("frame+skip " + name, [f, sk(rng.randbytes(33), 3)], x))
        comps.append(("skip+frame " + name, [sk(rng.randbytes(20), 15), f], x))
        comps.append(("frame+skip0+frame " + name, [f, sk(b""), f], x + x))
    for ci, (name, parts, x) in enumerate(comps):
        data = b"".join(parts)
        bounds, acc = set(), 0
        for part in parts:
            acc += len(part)
            bounds.add(acc)
        add("K%d.full" % ci, data, x, "complete", name, ["oneshot", "stream:1:0", "stream:7:3", "continue"])
        for k in range(1, len(data)):
            if k in bounds:
                continue
            add("K%d.cut%d" % (ci, k), data[:k], None, "prefix", name, PATHS)
    out, errs = cd.impl(lines)
    if errs:
        ctx.violation(dict(kind="harness-crash", detail=errs[:2]), what="zv_codec crashed on a damaged frame: %r" % (errs[0],))
    mres = cd.model(rcases)
    nfull = 0
    for key, rest in out.items():
        cid, pth = key.split("|")
        data, x, what, layout = meta[cid]
        r = codec.parse_ok(rest)
        rep = dict(layout=layout, damage=what, case=cid, path=pth, frame_hex=data.hex(), result=str(r[:2])[:200])
        if what == "complete":
            if r[0] != "OK" or r[1] != x:
                ctx.violation(rep, what="catalogue frame does not decode through %s: %s" % (pth, r[1] if r[0] == "ERR" else "content differs"))
            else:
                nfull += 1
        elif what in ("prefix", "garbage"):
            if r[0] == "OK":
                ctx.violation(rep, what="%s accepted by libzstd path %s as a complete successful decode (%s, %d bytes of %s)" % (
                    "a proper prefix of a frame" if what == "prefix" else "a frame followed by non-frame bytes", pth, cid, len(data), layout))
        elif what in ("ckflip", "fcslie"):
            if r[0] == "OK":
                ctx.violation(rep, what="frame with a %s accepted by libzstd path %s (%s of %s)" % (
                    "damaged stored checksum" if what == "ckflip" else "wrong declared content size", pth, cid, layout))
        elif what == "flip":
            if r[0] == "OK" and r[1] != x:
                ctx.violation(rep, what="damaged frame accepted by libzstd path %s with altered content (%s of %s)" % (pth, cid, layout))
        ctx.count((layout.split(" ")[0], what, pth), nontrivial=True)
    for cid, m in mres.items():
        data, x, what, layout = meta[cid]
        rep = dict(layout=layout, damage=what, case=cid, decoder="R", frame_hex=data.hex(), result=str(m[:1] + m[2:])[:200])
        if what == "complete" and (m[0] != "OK" or m[1] != x):
            ctx.violation(rep, what="reference decoder R rejects / mis-decodes a catalogue frame (%s): the model does not cover this layout" % layout, no_input=True)
        if what in ("prefix", "garbage") and m[0] == "OK":
            ctx.violation(rep, what="reference decoder R accepts a %s (contradicts theorem C09_proper_prefix_rejected: model/extraction problem)" % what, no_input=True)
        if what in ("ckflip", "fcslie") and m[0] == "OK":
            ctx.violation(rep, what="reference decoder R accepts a frame with a %s (contradicts theorem C09_size_and_checksum_enforced)" % what, no_input=True)
        if what == "flip" and m[0] == "OK" and m[1] != x:
            ctx.violation(rep, what="reference decoder R accepts a damaged frame with altered content", no_input=True)
        ctx.cov["traces_validated_against_impl"] += 1
    # pledged-size lies.  The first call is always a `continue` call: zstd.h (ZSTD_CCtx_setPledgedSrcSize, note 3) documents that a
    # pledge is overridden by the actual size when all input is given in one ZSTD_e_end round, so such a pledge is not in force.
    pl = []
    for i in range(30 if ctx.quick else 200):
        n = rng.choice([0, 1, 100, 5000, 140000])
        x = codec.gen_input(rng, rng.choice(["text", "random", "zeros"]), n)
        lie = rng.choice([n + 1, max(0, n - 1), n + 1000, 0 if n else 5, n])
        # the pledge is in force whatever the frame header records (ZSTD_c_contentSizeFlag=0) and whatever else is set
        pp = {"level": rng.choice([1, 3])}
        r = rng.random()
        if r < 0.35:
            pp["contentSize"] = 0
        if rng.random() < 0.2:
            pp["checksum"] = 1
        if rng.random() < 0.15:
            pp["windowLog"] = rng.choice([10, 17])
        pl.append(("p%d" % i, x, lie, pp))
    # ... and on the multithreaded path (pledges above ZSTDMT_JOBSIZE_MIN = 512 KiB, otherwise the frame runs single-threaded)
    for j, dv in enumerate((1, -1, 1000, 0, -70000) if ctx.quick else (1, -1, 1000, 0, -70000, 2, -2, 300000, 0, -600000)):
        n = rng.choice([600000, 700000])
        x = codec.gen_input(rng, rng.choice(["text", "random"]), n)
        pl.append(("pm%d" % j, x, n + dv, {"level": 1, "nbWorkers": rng.choice([1, 2]), "jobSize": 1, "checksum": rng.randrange(2)}))
    pout, perrs = cd.impl(["S %s %s - - %s %s %d" % (i, codec.params_str(pp), "%d:%d:0" % (len(x) // 2, 1 << 20), codec.hx(x), lie) for i, x, lie, pp in pl])
    pl = [(i, x, lie) for i, x, lie, pp in pl]
    for i, x, lie in pl:
        rest = pout.get(i, "ERR missing")
        r = rest.split(" ")
        failed = r[0] == "ERR" or (len(r) > 2 and "E" in r[2].replace("ERR", ""))
        if lie != len(x) and not failed:
            ctx.violation(dict(kind="pledge", pledged=lie, actual=len(x), result=rest[:300]), what="compression with pledged size %d of %d bytes did not report an error by end of frame" % (lie, len(x)))
        if lie == len(x) and failed:
            ctx.violation(dict(kind="pledge", pledged=lie, actual=len(x), result=rest[:300]), what="compression with a correct pledged size failed")
        ctx.count(("pledge", lie == len(x), min(len(x), 2)), nontrivial=True)
    # streaming checksum (theorem C09_checksum_is_chunking_independent): XXH64_reset / update per chunk / digest of the current tree vs the model
    xexe = core.build_harness("c09_xxh", ["c09_xxh.c"], variant="o1", extra_flags=["-w"], link_lib=True)
    xc = []
    for i in range(60 if ctx.quick else 600):
        total = rng.choice([0, 1, 31, 32, 33, 63, 64, 65, 100, 1000, 5000])
        data = rng.randbytes(total)
        cuts = sorted(rng.sample(range(total + 1), min(total + 1, rng.choice([0, 1, 2, 5, 40])))) if total else []
        chunks, prev = [], 0
        for cpos in cuts + [total]:
            chunks.append(data[prev:cpos])
            prev = cpos
        if rng.random() < 0.3:
            chunks.insert(rng.randrange(len(chunks) + 1), b"")
        xc.append(("x%d" % i, rng.choice([0, 0, 1, 2 ** 64 - 1, rng.getrandbits(64)]), chunks))
    xin = "\n".join("%s %d %s" % (i, sd, "_".join(c.hex() or "-" for c in ch)) for i, sd, ch in xc) + "\n"
    xo = core.sh([xexe], inp=xin.encode())[1]
    ximpl = {l.split(" ")[0]: l.split(" ")[2:] for l in xo.splitlines() if l}
    xlines = ["%s xxh=%d %s -" % (i, sd, "_".join(c.hex() for c in ch) or "-") for i, sd, ch in xc]
    xm, _ = codec._run_chunks(cd.r_exe(), xlines, core.NCPU, 600)
    for i, sd, ch in xc:
        got = ximpl.get(i)
        mod = xm.get(i, "ERR").split(" ")
        ctx.count(("xxh", len(ch) > 1, min(sum(map(len, ch)), 64) // 32), nontrivial=True)
        if not got or got[0] != got[1]:
            ctx.violation(dict(kind="xxh-streaming", seed=sd, chunks=[c.hex() for c in ch][:50], result=str(got)),
                          what="XXH64 streaming digest differs from the one-shot digest of the concatenation (%d chunks, %d bytes)" % (len(ch), sum(map(len, ch))))
        elif mod[0] != "OK" or mod[1] != got[0]:
            ctx.violation(dict(kind="xxh-model", seed=sd, chunks=[c.hex() for c in ch][:50], impl=got[0], model=" ".join(mod)),
                          what="the XXH64 streaming model disagrees with XXH64_update/digest of the current tree", no_input=True)
    ctx.notes["layouts"] = len(cat)
    ctx.notes["complete_frames_decoded"] = nfull
    ctx.sample(dict(layout=cat[0][0], frame_hex=cat[0][1].hex(), cut_points="1..%d" % (len(cat[0][1]) - 1)))
    ctx.sample(dict(layout=cat[-1][0], frame_hex=cat[-1][1].hex()[:400]))
    ctx.proof_verdict(None)
